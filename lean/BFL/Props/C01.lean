import BFL.Model.KF
import BFL.Model.KFLik
import BFL.Model.KFHist
import BFL.Bridge.Mat
import BFL.Proofs.KF
import BFL.Props.C15
/-
C01 — Kalman correction returns the exact linear-Gaussian Bayes posterior.

Theorems about the model `BFL.kfCorrect` (BFL/Model/KF.lean), over ℝ, for every state
dimension `n`, measurement dimension `m`, number of components `k`, every prior with
positive-definite covariances, every `H` (any rank), every positive-definite `R`, every `y`.

`inv` is the matrix-inverse routine used for the gain (Eigen's `.inverse()` in the code, the
certified Gauss–Jordan routine in the exact execution).  Its only assumed behaviour is the
contract `InvOn inv S`: on the innovation covariance it is applied to, it returns a right
inverse.  The contract is checked exactly on every call the correspondence run observes.
-/
namespace BFL
open Matrix

/-- contract of the inverse routine on one argument -/
def InvOn {m : Nat} (inv : Mat ℝ m m → Mat ℝ m m) (S : Mat ℝ m m) : Prop :=
  toM S * toM (inv S) = 1

variable {n m k : Nat}

theorem toM_kfS (H : Mat ℝ m n) (P : Mat ℝ n n) (R : Mat ℝ m m) :
    toM (kfS H P R) = KFProofs.S (toM P) (toM H) (toM R) := by
  simp [kfS, KFProofs.S]

theorem InvOn.eq {inv : Mat ℝ m m → Mat ℝ m m} {S : Mat ℝ m m} (h : InvOn inv S) :
    toM (inv S) = (toM S)⁻¹ := (Matrix.inv_eq_right_inv h).symm

theorem toM_kfGain (inv : Mat ℝ m m → Mat ℝ m m) (H : Mat ℝ m n) (P : Mat ℝ n n) (R : Mat ℝ m m)
    (hinv : InvOn inv (kfS H P R)) :
    toM (kfGain inv H P R) = KFProofs.K (toM P) (toM H) (toM R) := by
  simp [kfGain, KFProofs.K, hinv.eq, toM_kfS]

theorem toM_kfCorrectCov (inv : Mat ℝ m m → Mat ℝ m m) (H : Mat ℝ m n) (P : Mat ℝ n n) (R : Mat ℝ m m)
    (hinv : InvOn inv (kfS H P R)) :
    toM (kfCorrectCov inv H R P) = KFProofs.Cov (toM P) (toM H) (toM R) := by
  simp only [kfCorrectCov, KFProofs.Cov, toM_sub, toM_mul, toM_transpose, toM_kfGain inv H P R hinv, toM_kfS]

theorem toV_kfCorrectMean (inv : Mat ℝ m m → Mat ℝ m m) (H : Mat ℝ m n) (P : Mat ℝ n n) (R : Mat ℝ m m)
    (y : Vec ℝ m) (x : Vec ℝ n) (hinv : InvOn inv (kfS H P R)) :
    toV (kfCorrectMean inv H R y x P)
      = toV x + (KFProofs.K (toM P) (toM H) (toM R)) *ᵥ (toV y - (toM H) *ᵥ (toV x)) := by
  simp only [kfCorrectMean, kfInnovation, toV_add, toV_mulVec, toV_sub, toM_kfGain inv H P R hinv]

/-- The innovation covariance `H P Hᵀ + R` is positive definite, hence invertible: the inverse
    the code takes is defined.  (`P` only needs to be positive semi-definite here.) -/
theorem kf_S_posDef (H : Mat ℝ m n) (P : Mat ℝ n n) (R : Mat ℝ m m)
    (hP : (toM P).PosSemidef) (hR : (toM R).PosDef) :
    (toM (kfS H P R)).PosDef ∧ IsUnit (toM (kfS H P R)) := by
  rw [toM_kfS]
  exact ⟨KFProofs.S_posDef _ hP hR, (KFProofs.S_posDef _ hP hR).isUnit⟩

/-- Corrected covariance in information form: `(P⁻¹ + Hᵀ R⁻¹ H)⁻¹`, with every inverse defined. -/
theorem kf_cov_information (inv : Mat ℝ m m → Mat ℝ m m) (H : Mat ℝ m n) (P : Mat ℝ n n) (R : Mat ℝ m m)
    (hP : (toM P).PosDef) (hR : (toM R).PosDef) (hinv : InvOn inv (kfS H P R)) :
    toM (kfCorrectCov inv H R P) = ((toM P)⁻¹ + (toM H)ᵀ * (toM R)⁻¹ * toM H)⁻¹
    ∧ IsUnit (toM P) ∧ IsUnit (toM R) ∧ IsUnit ((toM P)⁻¹ + (toM H)ᵀ * (toM R)⁻¹ * toM H) := by
  rw [toM_kfCorrectCov inv H P R hinv]
  obtain ⟨h1, h2⟩ := KFProofs.Cov_information (toM H) hP hR
  exact ⟨h1, hP.isUnit, hR.isUnit, h2⟩

/-- Corrected mean: the gain form `m + K (y − H m)` the code computes, with `K = P Hᵀ S⁻¹`. -/
theorem kf_mean_gain_form (inv : Mat ℝ m m → Mat ℝ m m) (H : Mat ℝ m n) (P : Mat ℝ n n) (R : Mat ℝ m m)
    (y : Vec ℝ m) (x : Vec ℝ n) (hinv : InvOn inv (kfS H P R)) :
    toV (kfCorrectMean inv H R y x P)
      = toV x + (toM P * (toM H)ᵀ * (toM H * toM P * (toM H)ᵀ + toM R)⁻¹) *ᵥ (toV y - (toM H) *ᵥ (toV x)) := by
  rw [toV_kfCorrectMean inv H P R y x hinv]; rfl

/-- Corrected mean in information form: `P⁺ (P⁻¹ m + Hᵀ R⁻¹ y)` — the conjugate posterior mean. -/
theorem kf_mean_information (inv : Mat ℝ m m → Mat ℝ m m) (H : Mat ℝ m n) (P : Mat ℝ n n) (R : Mat ℝ m m)
    (y : Vec ℝ m) (x : Vec ℝ n)
    (hP : (toM P).PosDef) (hR : (toM R).PosDef) (hinv : InvOn inv (kfS H P R)) :
    toV (kfCorrectMean inv H R y x P)
      = (((toM P)⁻¹ + (toM H)ᵀ * (toM R)⁻¹ * toM H)⁻¹) *ᵥ
          ((toM P)⁻¹ *ᵥ toV x + ((toM H)ᵀ * (toM R)⁻¹) *ᵥ toV y) := by
  rw [toV_kfCorrectMean inv H P R y x hinv, KFProofs.mean_information (toM H) hP hR,
    (KFProofs.Cov_information (toM H) hP hR).1]

/-- The corrected covariance is symmetric. -/
theorem kf_cov_symm (inv : Mat ℝ m m → Mat ℝ m m) (H : Mat ℝ m n) (P : Mat ℝ n n) (R : Mat ℝ m m)
    (hP : (toM P).PosSemidef) (hR : (toM R).PosDef) (hinv : InvOn inv (kfS H P R)) :
    (toM (kfCorrectCov inv H R P))ᵀ = toM (kfCorrectCov inv H R P) := by
  rw [toM_kfCorrectCov inv H P R hinv]
  simpa using (KFProofs.Cov_posSemidef (toM H) hP hR).1.eq

/-- The corrected covariance is positive semi-definite (Joseph form), for PSD priors too. -/
theorem kf_cov_posSemidef (inv : Mat ℝ m m → Mat ℝ m m) (H : Mat ℝ m n) (P : Mat ℝ n n) (R : Mat ℝ m m)
    (hP : (toM P).PosSemidef) (hR : (toM R).PosDef) (hinv : InvOn inv (kfS H P R)) :
    (toM (kfCorrectCov inv H R P)).PosSemidef := by
  rw [toM_kfCorrectCov inv H P R hinv]
  exact KFProofs.Cov_posSemidef (toM H) hP hR

/-- The corrected covariance is never larger than the prior: `P − P⁺ ⪰ 0`. -/
theorem kf_cov_le_prior (inv : Mat ℝ m m → Mat ℝ m m) (H : Mat ℝ m n) (P : Mat ℝ n n) (R : Mat ℝ m m)
    (hP : (toM P).PosSemidef) (hR : (toM R).PosDef) (hinv : InvOn inv (kfS H P R)) :
    (toM P - toM (kfCorrectCov inv H R P)).PosSemidef := by
  rw [toM_kfCorrectCov inv H P R hinv]
  exact KFProofs.prior_sub_Cov_posSemidef (toM H) hP hR

/-- Components do not influence one another; the weights of the output mixture are not written. -/
theorem kf_component_independent (inv : Mat ℝ m m → Mat ℝ m m) (H : Mat ℝ m n) (R : Mat ℝ m m) (y : Vec ℝ m)
    (b b' out out' : GM ℝ n k) (i : Fin k) (hm : b.mean i = b'.mean i) (hc : b.cov i = b'.cov i) :
    (kfCorrect inv H R y b out).mean i = (kfCorrect inv H R y b' out').mean i ∧
    (kfCorrect inv H R y b out).cov i = (kfCorrect inv H R y b' out').cov i ∧
    (kfCorrect inv H R y b out).weight = out.weight := by
  simp [kfCorrect, hm, hc]

/-- The whole step, per component: conjugate posterior of component `i`. -/
theorem kf_correct_posterior (inv : Mat ℝ m m → Mat ℝ m m) (H : Mat ℝ m n) (R : Mat ℝ m m) (y : Vec ℝ m)
    (b out : GM ℝ n k) (hR : (toM R).PosDef)
    (hP : ∀ i, (toM (b.cov i)).PosDef) (hinv : ∀ i, InvOn inv (kfS H (b.cov i) R)) (i : Fin k) :
    toM ((kfCorrect inv H R y b out).cov i)
        = ((toM (b.cov i))⁻¹ + (toM H)ᵀ * (toM R)⁻¹ * toM H)⁻¹ ∧
    toV ((kfCorrect inv H R y b out).mean i)
        = (((toM (b.cov i))⁻¹ + (toM H)ᵀ * (toM R)⁻¹ * toM H)⁻¹) *ᵥ
            ((toM (b.cov i))⁻¹ *ᵥ toV (b.mean i) + ((toM H)ᵀ * (toM R)⁻¹) *ᵥ toV y) :=
  ⟨(kf_cov_information inv H (b.cov i) R (hP i) hR (hinv i)).1,
   kf_mean_information inv H (b.cov i) R y (b.mean i) (hP i) hR (hinv i)⟩

/-- The likelihood reported for component `i` (`KFCorrection::getLikelihood`, model `kfLikelihood`:
    the density of the stored innovation under `N(0, S_i)`) is the Gaussian density
    `N(y; H m_i, H P_i Hᵀ + R)`: the same model density evaluated at `y` with mean `H m_i`, and in
    closed form `exp(−½ (m log 2π + log det S + (y − H m)ᵀ S⁻¹ (y − H m)))`, with `det S > 0`
    (the logarithm is defined) and `S` invertible.  `invD` is the inverse routine of the density
    code (contract `InvOK` on `S`). -/
theorem kf_likelihood_eq (invD : InvFn ℝ) (H : Mat ℝ m n) (R : Mat ℝ m m) (y : Vec ℝ m) (b : GM ℝ n k) (i : Fin k)
    (hP : (toM (b.cov i)).PosSemidef) (hR : (toM R).PosDef) (hinv : InvOK invD (kfS H (b.cov i) R)) :
    kfLikelihood invD H R y b i
        = density invD (colBatch y) (H.mulVec (b.mean i)) (kfS H (b.cov i) R) 0 ∧
    0 < (toM (kfS H (b.cov i) R)).det ∧ IsUnit (toM (kfS H (b.cov i) R)) ∧
    kfLikelihood invD H R y b i
        = Real.exp (-(1 / 2) * ((m : ℝ) * Real.log (2 * Real.pi) + Real.log (toM (kfS H (b.cov i) R)).det
            + (toV y - toM H *ᵥ toV (b.mean i)) ⬝ᵥ
                ((toM (kfS H (b.cov i) R))⁻¹ *ᵥ (toV y - toM H *ᵥ toV (b.mean i))))) := by
  have hS := kf_S_posDef H (b.cov i) R hP hR
  have hd1 : dcol (colBatch (kfInnovation H y (b.mean i))) Vec.zero 0 = toV y - toM H *ᵥ toV (b.mean i) := by
    ext j
    have := congrFun (toV_mulVec H (b.mean i)) j
    simp only [toV_apply] at this
    simp [dcol, colBatch, kfInnovation, this]
  have hd2 : dcol (colBatch y) (H.mulVec (b.mean i)) 0 = toV y - toM H *ᵥ toV (b.mean i) := by
    ext j
    have := congrFun (toV_mulVec H (b.mean i)) j
    simp only [toV_apply] at this
    simp [dcol, colBatch, this]
  have e1 : kfLikelihood invD H R y b i
      = Real.exp (logDensity invD (colBatch (kfInnovation H y (b.mean i))) Vec.zero (kfS H (b.cov i) R) 0) := rfl
  have e2 : density invD (colBatch y) (H.mulVec (b.mean i)) (kfS H (b.cov i) R) 0
      = Real.exp (logDensity invD (colBatch y) (H.mulVec (b.mean i)) (kfS H (b.cov i) R) 0) := rfl
  refine ⟨?_, hS.1.det_pos, hS.2, ?_⟩
  · rw [e1, e2, logDensity_formula invD _ _ _ hinv, logDensity_formula invD _ _ _ hinv, hd1, hd2]
  · rw [e1, logDensity_formula invD _ _ _ hinv, hd1]

/-- One step of a Kalman filter history, as far as the covariance is concerned. -/
inductive KFStep (n : Nat) where
  | predict (F Q : Mat ℝ n n)
  | correct (m : Nat) (H : Mat ℝ m n) (R : Mat ℝ m m)

/-- the covariance after one step (`kfPredictCov` / `kfCorrectCov`, the functions tied to the code) -/
noncomputable def kfCovStep (inv : (m : Nat) → Mat ℝ m m → Mat ℝ m m) (P : Mat ℝ n n) : KFStep n → Mat ℝ n n
  | .predict F Q => kfPredictCov F P Q
  | .correct m H R => kfCorrectCov (inv m) H R P

/-- admissible steps: process noise PSD (singular allowed), measurement noise PD -/
def KFStep.OK : KFStep n → Prop
  | .predict _ Q => (toM Q).PosSemidef
  | .correct _ _ R => (toM R).PosDef

/-- History lift: after ANY sequence of predictions and corrections (any length, any models, any
    measurement dimensions, measurements and means play no role) started from a PSD covariance, the
    covariance the filter carries is positive semi-definite and symmetric.  The inverse routine only
    has to invert the matrices that are invertible. -/
theorem kf_history_cov_posSemidef (inv : (m : Nat) → Mat ℝ m m → Mat ℝ m m)
    (hinv : ∀ (m : Nat) (S : Mat ℝ m m), IsUnit (toM S) → InvOn (inv m) S)
    (steps : List (KFStep n)) (P0 : Mat ℝ n n) (hP0 : (toM P0).PosSemidef)
    (hsteps : ∀ s ∈ steps, s.OK) :
    (toM (steps.foldl (kfCovStep inv) P0)).PosSemidef ∧
    (toM (steps.foldl (kfCovStep inv) P0))ᵀ = toM (steps.foldl (kfCovStep inv) P0) := by
  have key : (toM (steps.foldl (kfCovStep inv) P0)).PosSemidef := by
    induction steps generalizing P0 with
    | nil => simpa using hP0
    | cons s rest ih =>
      simp only [List.foldl_cons]
      apply ih
      · cases s with
        | predict F Q =>
          have hQ : (toM Q).PosSemidef := hsteps (.predict F Q) (by simp)
          simp only [kfCovStep]
          have h := hP0.mul_mul_conjTranspose_same (toM F)
          have e : toM (kfPredictCov F P0 Q) = toM F * toM P0 * (toM F)ᵀ + toM Q := by simp [kfPredictCov]
          rw [e]; simpa using h.add hQ
        | correct m H R =>
          have hR : (toM R).PosDef := hsteps (.correct m H R) (by simp)
          simp only [kfCovStep]
          exact kf_cov_posSemidef (inv m) H P0 R hP0 hR (hinv m _ (kf_S_posDef H P0 R hP0 hR).2)
      · intro s' hs'; exact hsteps s' (by simp [hs'])
  exact ⟨key, by simpa using key.1.eq⟩

/-- Non-vacuity: the hypotheses are jointly satisfiable for every PD pair — Mathlib's own inverse
    meets the contract `InvOn` — and a concrete PD instance exists (n = m = 1, P = 2, R = 3). -/
theorem invOn_mathlib_inv (H : Mat ℝ m n) (P : Mat ℝ n n) (R : Mat ℝ m m)
    (hP : (toM P).PosSemidef) (hR : (toM R).PosDef) :
    InvOn (fun S => Mat.of (fun i j => ((toM S)⁻¹) i j)) (kfS H P R) := by
  unfold InvOn
  have hu := (kf_S_posDef H P R hP hR).2
  have : toM (Mat.of (fun i j => ((toM (kfS H P R))⁻¹) i j)) = (toM (kfS H P R))⁻¹ := rfl
  rw [this, Matrix.mul_nonsing_inv _ ((Matrix.isUnit_iff_isUnit_det _).1 hu)]

example : ∃ (P R : Mat ℝ 1 1), (toM P).PosDef ∧ (toM R).PosDef := by
  refine ⟨Mat.of (fun _ _ => 2), Mat.of (fun _ _ => 3), ?_, ?_⟩
  · have : toM (Mat.of (fun _ _ => 2) : Mat ℝ 1 1) = (2 : ℝ) • (1 : Matrix (Fin 1) (Fin 1) ℝ) := by
      ext i j; simp [toM, Subsingleton.elim i j]
    rw [this]; exact Matrix.PosDef.one.smul (by norm_num)
  · have : toM (Mat.of (fun _ _ => 3) : Mat ℝ 1 1) = (3 : ℝ) • (1 : Matrix (Fin 1) (Fin 1) ℝ) := by
      ext i j; simp [toM, Subsingleton.elim i j]
    rw [this]; exact Matrix.PosDef.one.smul (by norm_num)


/-! ## Histories: the composition a `GaussianFilter` runs (`Model/KFHist.lean`) -/

variable {n k : Nat}

/-- admissible step: PSD process noise (singular allowed), PD measurement noise -/
def KFHStep.OK (s : KFHStep ℝ n) : Prop :=
  (toM s.Q).PosSemidef ∧ ∀ z, s.meas = some z → (toM z.R).PosDef

/-- contract of the inverse routine: it inverts what is invertible -/
def InvAll (inv : (m : Nat) → Mat ℝ m m → Mat ℝ m m) : Prop :=
  ∀ (m : Nat) (S : Mat ℝ m m), IsUnit (toM S) → InvOn (inv m) S

/-- all covariances of a belief PSD -/
def GM.PSD (b : GM ℝ n k) : Prop := ∀ i, (toM (b.cov i)).PosSemidef

theorem kfGaussPredict_psd (s : KFHStep ℝ n) (hs : s.OK) (prev out : GM ℝ n k) (h : prev.PSD) :
    (kfGaussPredict s prev out).PSD := by
  unfold kfGaussPredict
  split
  · exact h
  · split
    · exact h
    · intro i
      have e : toM ((kfPredict s.F s.Q s.effExo prev out).cov i) = toM s.F * toM (prev.cov i) * (toM s.F)ᵀ + toM s.Q := by
        simp [kfPredict, kfPredictCov]
      rw [e]
      have := (h i).mul_mul_conjTranspose_same (toM s.F)
      simpa using this.add hs.1

theorem kfGaussCorrect_psd (inv : (m : Nat) → Mat ℝ m m → Mat ℝ m m) (hinv : InvAll inv)
    (s : KFHStep ℝ n) (hs : s.OK) (pred out : GM ℝ n k) (h : pred.PSD) :
    (kfGaussCorrect inv s pred out).PSD := by
  unfold kfGaussCorrect
  split
  · exact h
  · split
    · exact h
    · rename_i z hz
      intro i
      have hR := hs.2 z hz
      exact kf_cov_posSemidef (inv z.m) z.H (pred.cov i) z.R (h i) hR
        (hinv z.m _ (kf_S_posDef z.H (pred.cov i) z.R (h i) hR).2)

/-- **History invariant.**  -/
theorem kf_filter_invariant (inv : (m : Nat) → Mat ℝ m m → Mat ℝ m m) (hinv : InvAll inv)
    (steps : List (KFHStep ℝ n)) (hsteps : ∀ s ∈ steps, s.OK)
    (st0 : KFFilter ℝ n k) (h0 : st0.corr.PSD) :
    ∀ st ∈ kfFilterTrace inv st0 steps, ∀ i,
      (toM (st.pred.cov i)).PosSemidef ∧ (toM (st.pred.cov i))ᵀ = toM (st.pred.cov i) ∧
      (toM (st.corr.cov i)).PosSemidef ∧ (toM (st.corr.cov i))ᵀ = toM (st.corr.cov i) := by
  induction steps generalizing st0 with
  | nil => intro st hst; simp [kfFilterTrace] at hst
  | cons s rest ih =>
    have hs : s.OK := hsteps s (by simp)
    have hp : (kfFilterStep inv st0 s).pred.PSD := kfGaussPredict_psd s hs _ _ h0
    have hc : (kfFilterStep inv st0 s).corr.PSD := kfGaussCorrect_psd inv hinv s hs _ _ hp
    intro st hst
    simp only [kfFilterTrace, List.mem_cons] at hst
    rcases hst with rfl | hst
    · intro i
      exact ⟨hp i, by simpa using (hp i).1.eq, hc i, by simpa using (hc i).1.eq⟩
    · exact ih (fun s' hs' => hsteps s' (by simp [hs'])) _ hc st hst

/-! ### the exact linear-Gaussian Bayes filter (information form) -/

/-- the statistics of one component: mean and covariance -/
abbrev Stat (n : Nat) := (Fin n → ℝ) × Matrix (Fin n) (Fin n) ℝ

/-- time update of the exact filter: `m ↦ F m + u`, `P ↦ F P Fᵀ + Q`, unless the prediction is skipped -/
noncomputable def bayesPredict (s : KFHStep ℝ n) (x : Stat n) : Stat n :=
  if s.skipPred || s.skipState then x
  else (toM s.F *ᵥ x.1 + (match s.effExo with | none => 0 | some g => toV (g (Vec.of x.1))),
        toM s.F * x.2 * (toM s.F)ᵀ + toM s.Q)

/-- measurement update of the exact filter in information form:
    `P⁺ = (P⁻¹ + HᵀR⁻¹H)⁻¹`, `m⁺ = P⁺ (P⁻¹ m + HᵀR⁻¹ y)`; nothing without a measurement -/
noncomputable def bayesUpdate (s : KFHStep ℝ n) (x : Stat n) : Stat n :=
  if s.skipCorr then x
  else match s.meas with
    | none => x
    | some z =>
      ((x.2⁻¹ + (toM z.H)ᵀ * (toM z.R)⁻¹ * toM z.H)⁻¹ *ᵥ (x.2⁻¹ *ᵥ x.1 + ((toM z.H)ᵀ * (toM z.R)⁻¹) *ᵥ toV z.y),
       (x.2⁻¹ + (toM z.H)ᵀ * (toM z.R)⁻¹ * toM z.H)⁻¹)

noncomputable def bayesStep (x : Stat n) (s : KFHStep ℝ n) : Stat n := bayesUpdate s (bayesPredict s x)

/-- the statistics of component `i` of a belief -/
noncomputable def GM.stat (b : GM ℝ n k) (i : Fin k) : Stat n := (toV (b.mean i), toM (b.cov i))

/-- Guard of the information form: the predicted covariance must be invertible.  Sufficient, per step:
    PD process noise, or PSD process noise with an invertible `F` (or a skipped prediction). -/
def KFHStep.StrictOK (s : KFHStep ℝ n) : Prop :=
  ((s.skipPred || s.skipState) = true ∨ (toM s.Q).PosDef ∨ ((toM s.Q).PosSemidef ∧ IsUnit (toM s.F))) ∧
  ∀ z, s.meas = some z → (toM z.R).PosDef

theorem Vec.of_toV (v : Vec ℝ n) : Vec.of (toV v) = v := rfl

theorem kfGaussPredict_stat (s : KFHStep ℝ n) (prev out : GM ℝ n k) (i : Fin k) :
    (kfGaussPredict s prev out).stat i = bayesPredict s (prev.stat i) := by
  unfold kfGaussPredict bayesPredict
  by_cases h1 : s.skipPred
  · simp [h1]
  · by_cases h2 : s.skipState
    · simp [h2]
    · simp only [h1, h2, Bool.false_eq_true, if_false, Bool.or_self]
      unfold GM.stat
      ext : 1
      · cases hE : s.effExo <;> simp [kfPredict, propagateMean, Vec.of_toV]
      · simp [kfPredict, kfPredictCov]

theorem bayesPredict_posDef (s : KFHStep ℝ n) (hs : s.StrictOK) (x : Stat n) (hx : x.2.PosDef) :
    (bayesPredict s x).2.PosDef := by
  unfold bayesPredict
  by_cases h : (s.skipPred || s.skipState) = true
  · simp only [h, if_true]; exact hx
  · simp only [h]
    rcases hs.1 with h' | hQ | ⟨hQ, hF⟩
    · exact absurd h' h
    · exact KFProofs.pred_posDef_of_Q _ hx.posSemidef hQ
    · exact KFProofs.pred_posDef_of_F _ hx hQ hF

theorem kfGaussCorrect_stat (inv : (m : Nat) → Mat ℝ m m → Mat ℝ m m) (hinv : InvAll inv)
    (s : KFHStep ℝ n) (hs : s.StrictOK) (pred out : GM ℝ n k) (i : Fin k) (hP : (toM (pred.cov i)).PosDef) :
    (kfGaussCorrect inv s pred out).stat i = bayesUpdate s (pred.stat i) ∧
    (toM ((kfGaussCorrect inv s pred out).cov i)).PosDef := by
  unfold kfGaussCorrect bayesUpdate
  by_cases h1 : s.skipCorr
  · simp [h1, hP]
  · simp only [h1, Bool.false_eq_true, if_false]
    cases hz : s.meas with
    | none => simp [hP]
    | some z =>
      have hR := hs.2 z hz
      have hi := hinv z.m _ (kf_S_posDef z.H (pred.cov i) z.R hP.posSemidef hR).2
      simp only
      refine ⟨?_, ?_⟩
      · unfold GM.stat
        ext : 1
        · exact kf_mean_information (inv z.m) z.H (pred.cov i) z.R z.y (pred.mean i) hP hR hi
        · exact (kf_cov_information (inv z.m) z.H (pred.cov i) z.R hP hR hi).1
      · show (toM (kfCorrectCov (inv z.m) z.H z.R (pred.cov i))).PosDef
        rw [toM_kfCorrectCov (inv z.m) z.H (pred.cov i) z.R hi]
        exact KFProofs.Cov_posDef _ hP hR

/-- **The n-step posterior is the recursion of the exact linear-Gaussian Bayes filter.** -/
theorem kf_filter_bayes (inv : (m : Nat) → Mat ℝ m m → Mat ℝ m m) (hinv : InvAll inv)
    (steps : List (KFHStep ℝ n)) (hsteps : ∀ s ∈ steps, s.StrictOK)
    (st0 : KFFilter ℝ n k) (i : Fin k) (h0 : (toM (st0.corr.cov i)).PosDef) :
    (kfFilterRun inv st0 steps).corr.stat i = steps.foldl bayesStep (st0.corr.stat i) ∧
    (toM ((kfFilterRun inv st0 steps).corr.cov i)).PosDef := by
  induction steps generalizing st0 with
  | nil => exact ⟨rfl, h0⟩
  | cons s rest ih =>
    have hs := hsteps s (by simp)
    have e1 := kfGaussPredict_stat s st0.corr st0.pred i
    have hp : (toM ((kfGaussPredict s st0.corr st0.pred).cov i)).PosDef := by
      have := bayesPredict_posDef s hs (st0.corr.stat i) h0
      rw [← e1] at this; exact this
    obtain ⟨e2, hc⟩ := kfGaussCorrect_stat inv hinv s hs (kfGaussPredict s st0.corr st0.pred) st0.corr i hp
    have hstep : (kfFilterStep inv st0 s).corr.stat i = bayesStep (st0.corr.stat i) s := by
      unfold bayesStep; rw [← e1]; exact e2
    have := ih (fun s' hs' => hsteps s' (by simp [hs'])) (kfFilterStep inv st0 s) hc
    simp only [kfFilterRun, List.foldl_cons] at this ⊢
    rw [← hstep]; exact this

/-- the step did hand a measurement to `correctStep` -/
def KFHStep.corrects (s : KFHStep ℝ n) : Bool := !s.skipCorr && s.meas.isSome

/-- **A step without measurement (or with the correction skipped) leaves the predicted belief**:
    whatever the history before it, the corrected belief is the predicted one — means, covariances
    and weights — and what `getLikelihood()` reports is unchanged. -/
theorem kf_filter_no_measurement (inv : (m : Nat) → Mat ℝ m m → Mat ℝ m m)
    (steps : List (KFHStep ℝ n)) (s : KFHStep ℝ n) (hs : s.corrects = false) (st0 : KFFilter ℝ n k) :
    (kfFilterRun inv st0 (steps ++ [s])).corr = (kfFilterRun inv st0 (steps ++ [s])).pred ∧
    (kfFilterRun inv st0 (steps ++ [s])).last = (kfFilterRun inv st0 steps).last := by
  simp only [kfFilterRun, List.foldl_append, List.foldl_cons, List.foldl_nil]
  generalize steps.foldl (kfFilterStep inv) st0 = st
  unfold KFHStep.corrects at hs
  by_cases h1 : s.skipCorr
  · simp [kfFilterStep, kfGaussCorrect, kfLastAfter, h1]
  · cases hz : s.meas with
    | none => simp [kfFilterStep, kfGaussCorrect, kfLastAfter, h1, hz]
    | some z => simp [h1, hz] at hs

/-- **Component independence across a whole history**: two filters whose corrected beliefs agree in
    component `i` (whatever the other components, the weights, the predicted beliefs and the
    remembered likelihood data are) agree in component `i` of the predicted and of the corrected
    belief after every step of every history. -/
theorem kf_filter_component_independent (inv : (m : Nat) → Mat ℝ m m → Mat ℝ m m)
    (steps : List (KFHStep ℝ n)) (st0 st0' : KFFilter ℝ n k) (i : Fin k)
    (hm : st0.corr.mean i = st0'.corr.mean i) (hc : st0.corr.cov i = st0'.corr.cov i) :
    List.Forall₂ (fun st st' => st.pred.mean i = st'.pred.mean i ∧ st.pred.cov i = st'.pred.cov i ∧
        st.corr.mean i = st'.corr.mean i ∧ st.corr.cov i = st'.corr.cov i)
      (kfFilterTrace inv st0 steps) (kfFilterTrace inv st0' steps) := by
  induction steps generalizing st0 st0' with
  | nil => exact List.Forall₂.nil
  | cons s rest ih =>
    have hp : (kfGaussPredict s st0.corr st0.pred).mean i = (kfGaussPredict s st0'.corr st0'.pred).mean i ∧
        (kfGaussPredict s st0.corr st0.pred).cov i = (kfGaussPredict s st0'.corr st0'.pred).cov i := by
      unfold kfGaussPredict
      by_cases h1 : s.skipPred <;> by_cases h2 : s.skipState <;> simp [h1, h2, hm, hc, kfPredict]
    have hcr : (kfFilterStep inv st0 s).corr.mean i = (kfFilterStep inv st0' s).corr.mean i ∧
        (kfFilterStep inv st0 s).corr.cov i = (kfFilterStep inv st0' s).corr.cov i := by
      simp only [kfFilterStep, kfGaussCorrect]
      by_cases h1 : s.skipCorr
      · simp [h1, hp.1, hp.2]
      · cases hz : s.meas <;> simp [h1, kfCorrect, hp.1, hp.2]
    simp only [kfFilterTrace]
    exact List.Forall₂.cons ⟨hp.1, hp.2, hcr.1, hcr.2⟩ (ih _ _ hcr.1 hcr.2)

/-- **`getLikelihood()` over a history.**  A filter as constructed reports none; after a history it
    reports one iff some step handed a measurement to `correctStep`; a step that does reports, for
    every component, the density of its own measurement under the *predicted* belief of that step
    (by `kf_likelihood_eq`: `N(y; H m_i, H P_i Hᵀ + R)`); a step that does not leaves the report of
    the history before it (see `kf_filter_no_measurement`). -/
theorem kf_filter_likelihood (inv : (m : Nat) → Mat ℝ m m → Mat ℝ m m) (invD : InvFn ℝ)
    (steps : List (KFHStep ℝ n)) (pred0 corr0 : GM ℝ n k) :
    kfGetLikelihood invD (kfFilterInit pred0 corr0) = none ∧
    ((kfGetLikelihood invD (kfFilterRun inv (kfFilterInit pred0 corr0) steps)).isSome = steps.any KFHStep.corrects) ∧
    (∀ (s : KFHStep ℝ n) (z : KFMeas ℝ n), s.skipCorr = false → s.meas = some z → ∀ st0 : KFFilter ℝ n k,
      kfGetLikelihood invD (kfFilterRun inv st0 (steps ++ [s]))
        = some (fun i => kfLikelihood invD z.H z.R z.y (kfFilterRun inv st0 (steps ++ [s])).pred i)) := by
  refine ⟨rfl, ?_, ?_⟩
  · have gen : ∀ (st0 : KFFilter ℝ n k),
        (kfFilterRun inv st0 steps).last.isSome = (st0.last.isSome || steps.any KFHStep.corrects) := by
      induction steps with
      | nil => intro st0; simp [kfFilterRun]
      | cons s rest ih =>
        intro st0
        have := ih (kfFilterStep inv st0 s)
        simp only [kfFilterRun, List.foldl_cons] at this ⊢
        rw [this]
        simp only [kfFilterStep, kfLastAfter, KFHStep.corrects, List.any_cons]
        by_cases h1 : s.skipCorr
        · simp [h1]
        · cases hz : s.meas <;> simp [h1]
    have := gen (kfFilterInit pred0 corr0)
    simpa [kfGetLikelihood, kfFilterInit] using this
  · intro s z h1 hz st0
    simp only [kfFilterRun, List.foldl_append, List.foldl_cons, List.foldl_nil]
    generalize steps.foldl (kfFilterStep inv) st0 = st
    simp [kfGetLikelihood, kfFilterStep, kfLastAfter, h1, hz]

/-! ### measurement-model plumbing -/

/-- `LinearMeasurementModel::predictedMeasure` followed by `::innovation` on the batch of predicted
    means and a one-column measurement: column `i` is `y − H m_i`, the innovation the correction uses. -/
theorem lin_innovation_col {m c : Nat} (H : Mat ℝ m n) (b : GM ℝ n k) (Y : Mat ℝ m (c + 1)) (i : Fin k) :
    toV (Mat.col (linInnovation (linPredictedMeasure H b.meanBatch) Y) i)
      = toV (kfInnovation H (Mat.col Y 0) (b.mean i)) := by
  ext r
  simp only [toV_apply, Mat.col, Vec.of_apply, linInnovation, Mat.of_apply, linPredictedMeasure, kfInnovation,
    Vec.sub_apply, Mat.mul_apply, Mat.mulVec_apply, GM.meanBatch, neg_sub]

/-- `LTIMeasurementModel`'s constructor accepts exactly: a non-empty `H`, a square `R` with as many
    rows as `H`; otherwise it throws, the first failing test in the order of the source deciding. -/
theorem lti_ctor_ok_iff (hr hc rr rc : Nat) :
    ltiMeasCtor hr hc rr rc = .ok ↔ (0 < hr ∧ 0 < hc ∧ rr = rc ∧ hr = rr) := by
  unfold ltiMeasCtor
  by_cases h1 : hr = 0 <;> by_cases h2 : hc = 0 <;> by_cases h3 : rr = 0 <;> by_cases h4 : rc = 0 <;>
    by_cases h5 : rr = rc <;> by_cases h6 : hr = rr <;> simp [h1, h2, h3, h4, h5, h6] <;> omega

/-- Non-vacuity of the history theorems: Mathlib's inverse meets `InvAll`; a step with `Q = R = 1`,
    `H = 1`, a measurement and nothing skipped is `OK`, `StrictOK` and does correct. -/
theorem invAll_mathlib : InvAll (fun _ S => Mat.of (fun i j => ((toM S)⁻¹) i j)) := by
  intro m S hu
  unfold InvOn
  show toM S * (toM S)⁻¹ = 1
  exact Matrix.mul_nonsing_inv _ ((Matrix.isUnit_iff_isUnit_det _).1 hu)

example : ∃ s : KFHStep ℝ 2, s.OK ∧ s.StrictOK ∧ s.corrects = true := by
  refine ⟨{ F := Mat.one, Q := Mat.one, exo := none, skipPred := false, skipState := false, skipExo := false,
            meas := some { m := 2, H := Mat.one, R := Mat.one, y := Vec.zero }, skipCorr := false }, ?_, ?_, rfl⟩
  · refine ⟨by rw [toM_one]; exact Matrix.PosSemidef.one, ?_⟩
    intro z hz; cases hz; rw [toM_one]; exact Matrix.PosDef.one
  · refine ⟨Or.inr (Or.inl (by rw [toM_one]; exact Matrix.PosDef.one)), ?_⟩
    intro z hz; cases hz; rw [toM_one]; exact Matrix.PosDef.one

end BFL
