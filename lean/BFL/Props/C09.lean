import BFL.Proofs.LifecycleHist
import BFL.Proofs.LifecycleComm
import BFL.Proofs.LifecycleFair
/-
C09 — filter lifecycle: ordered epochs, honoured commands, guaranteed termination.

All theorems are about the transition system `BFL.Life` (BFL/Model/Lifecycle.lean): the
filtering thread of `FilteringAlgorithm::filtering_recursion()` — one move per access to a shared
flag — interleaved in every possible way with the controller's commands (`run`, `reset`,
`reboot` in its two stores, `teardown`, `wait`), spurious wake-ups and arbitrary values of
`run_condition()`.  A schedule is any `List Act`, of any length; `runAll cfg as` is the state
after it, starting right after `boot()`; `.hist` is the ghost history, newest event first.
`Cfg.current` is the code as it is (teardown locks and notifies); the safety theorems hold for
every way of writing `teardown()` (`cfg` arbitrary).
-/
namespace BFL.Life

/-! ## Safety -/

/-- No filtering step starts before `run` was requested: every `StepStart` in the history has a
`run` request **before it**. -/
theorem no_step_before_run (cfg : Cfg) (as : List Act) (k : Nat) (later earlier : List Ev)
    (h : (runAll cfg as).hist = later ++ Ev.stepStart k :: earlier) : Ev.cmdRun ∈ earlier := by
  obtain ⟨as', _, hh⟩ := hist_prefix cfg as later _ earlier h
  have := (inv1_all cfg as').2.2.2 k (by rw [hh]; simp)
  rw [hh] at this
  simpa using this

/-- Epoch shape: the history projected on {Init, StepStart k} is accepted by the automaton of
`(Init Step0 Step1 Step2 …)*` (`shape`: `idle` before the first epoch, `next k` inside an epoch
whose next step must carry number `k`, `bad` = rejected). -/
theorem epoch_shape (cfg : Cfg) (as : List Act) : shape (runAll cfg as).hist ≠ Shape.bad :=
  (inv2_all cfg as).1

/-- The same, read event by event: the Init/Step event just before a `StepStart k` is `Init`
when `k = 0` and `StepStart (k-1)` otherwise; in particular the first such event of a history
is an `Init` and step numbers count from zero within each epoch. -/
theorem epoch_shape_pred (cfg : Cfg) (as : List Act) (k : Nat) (later earlier : List Ev)
    (h : (runAll cfg as).hist = later ++ Ev.stepStart k :: earlier) :
    (workEvents earlier).head? = some (if k = 0 then Ev.init else Ev.stepStart (k - 1)) := by
  have h1 := epoch_shape cfg as
  rw [h] at h1
  exact shape_next_last earlier k (shape_step_pre k earlier (shape_bad_absorbing later _ h1))

/-- The number a step carries is the value `step_number()` returns while the step runs. -/
theorem step_number_in_step (cfg : Cfg) (as : List Act) (h : (runAll cfg as).pc = PC.inStep) :
    (workEvents (runAll cfg as).hist).head? = some (Ev.stepStart (runAll cfg as).stepNumber) :=
  invS_all cfg as h

/-- A reset or reboot is honoured after at most one further step: in any stretch of events that
follows the request and contains no `Init`, at most one step starts. -/
theorem reset_honoured (cfg : Cfg) (as : List Act) (e : Ev) (he : e = Ev.cmdReset ∨ e = Ev.cmdReboot)
    (later seg earlier : List Ev) (h : (runAll cfg as).hist = later ++ seg ++ e :: earlier)
    (hseg : Ev.init ∉ seg) : countSteps seg ≤ 1 := by
  have htr : trigRs e = true := by rcases he with rfl | rfl <;> rfl
  cases seg with
  | nil => simp [countSteps]
  | cons x seg =>
    obtain ⟨as', _, hh⟩ := hist_prefix cfg as later x (seg ++ e :: earlier) (by simpa using h)
    have := rs_tracks cfg as' (x :: seg) e earlier (by simpa using hh) htr
    rw [runMon_rs _ hseg] at this
    exact (this _ rfl).1

/-- After a reboot, a step that is not the (at most one) step still in flight — i.e. a step that
comes after an `Init` that follows the reboot — is preceded by a `run` request issued after the
reboot and by an `Init` issued after that request.  (`rbδ` is the monitor that rejects a new
epoch's step before run-then-Init.) -/
theorem reboot_needs_run_monitor (cfg : Cfg) (as : List Act) (later earlier : List Ev)
    (h : (runAll cfg as).hist = later ++ Ev.cmdReboot :: earlier) : runMon rbδ Rb.a later ≠ Rb.bad := by
  intro hb
  have := rb_tracks cfg as later Ev.cmdReboot earlier h rfl
  rw [hb] at this
  exact this

theorem reboot_needs_run (cfg : Cfg) (as : List Act) (k : Nat) (later seg earlier : List Ev)
    (h : (runAll cfg as).hist = later ++ Ev.stepStart k :: seg ++ Ev.cmdReboot :: earlier)
    (hinit : Ev.init ∈ seg) :
    ∃ s2 s1, seg = s2 ++ Ev.init :: s1 ∧ Ev.cmdRun ∈ s1 := by
  have h1 := reboot_needs_run_monitor cfg as (later ++ Ev.stepStart k :: seg) earlier (by simpa using h)
  have h2 := rb_bad_absorbing later (Ev.stepStart k :: seg) h1
  have h3 : runMon rbδ Rb.a seg ≠ Rb.bad := rb_bad_absorbing [Ev.stepStart k] seg (by simpa using h2)
  apply rb_ok_witness
  rcases rb_after_init seg hinit with hb | hc | hok | hbad
  · simp [runMon_cons, hb, rbδ] at h2
  · simp [runMon_cons, hc, rbδ] at h2
  · exact hok
  · exact absurd hbad h3

/-- At most one step starts after teardown has been requested. -/
theorem teardown_at_most_one_step (cfg : Cfg) (as : List Act) (later earlier : List Ev)
    (h : (runAll cfg as).hist = later ++ Ev.cmdTeardown :: earlier) : countSteps later ≤ 1 := by
  have := td_tracks cfg as later Ev.cmdTeardown earlier h rfl
  rw [runMon_td] at this
  exact this.2.1

/-! ## Termination (current code) -/

/-- Once teardown is requested the thread is never stuck: whenever the controller is not in the
middle of `reboot()` the thread can move, until it has ended. -/
theorem teardown_enabled (as : List Act) (c : Bool)
    (htd : (runAll Cfg.current as).teardown = true) (hmid : (runAll Cfg.current as).mid = false)
    (hpc : (runAll Cfg.current as).pc ≠ PC.done) : (thr (runAll Cfg.current as) c).isSome = true := by
  have hL := nolost_all Cfg.current as
  generalize runAll Cfg.current as = s at *
  obtain ⟨pc, run, reset, td, stp, woken, mid, joined, hist⟩ := s
  simp only [NoLost, Cfg.current] at hL
  simp only at htd hmid hpc
  subst htd; subst hmid
  cases pc <;> simp_all [thr]

/-- After teardown is requested at any moment following boot, the thread ends within 15 of its
own moves (moves made while the controller is not inside `reboot()`), whatever else happens;
then `wait()` returns.  Fairness assumption, explicit: the thread keeps being scheduled
(`turns` counts its turns). -/
theorem teardown_terminates (as rest : List Act) (htd : (runAll Cfg.current as).teardown = true)
    (hfair : 15 ≤ turns Cfg.current (runAll Cfg.current as) rest) :
    (runAll Cfg.current (as ++ rest)).pc = PC.done ∧
    (step Cfg.current (runAll Cfg.current (as ++ rest)) (Act.c Cmd.wait)).joined = true := by
  have hd : (runAll Cfg.current (as ++ rest)).pc = PC.done := by
    rw [runAll, exec_append]
    exact td_terminates_from rest _ (nolost_all _ as) htd (Nat.le_trans (vTd_le _) hfair)
  refine ⟨hd, ?_⟩
  generalize runAll Cfg.current (as ++ rest) = s at *
  simp only [step, ctl, hd]
  cases hj : s.joined <;> simp [hj]

/-- Once the run condition turns false — the thread is past the wait of its epoch and every
later call of `run_condition()` returns false — the thread ends within 9 of its own moves,
whatever commands arrive; then `wait()` returns.  (Holds for every `cfg`.) -/
theorem condition_false_terminates (cfg : Cfg) (as rest : List Act)
    (hpast : PastWait (runAll cfg as).pc) (hfalse : ∀ a ∈ rest, a ≠ Act.t true)
    (hfair : 9 ≤ moves rest) :
    (runAll cfg (as ++ rest)).pc = PC.done ∧
    (step cfg (runAll cfg (as ++ rest)) (Act.c Cmd.wait)).joined = true := by
  have hv : vRc (runAll cfg as).pc ≤ 9 := by
    generalize (runAll cfg as).pc = pc at *
    simp only [PastWait] at hpast
    rcases hpast with h | h | h | h | h | h | h | h | h | h | h | h <;> subst h <;> simp [vRc]
  have hd : (runAll cfg (as ++ rest)).pc = PC.done := by
    rw [runAll, exec_append]
    exact rc_terminates_from cfg rest _ hpast hfalse (Nat.le_trans hv hfair)
  refine ⟨hd, ?_⟩
  generalize runAll cfg (as ++ rest) = s at *
  simp only [step, ctl, hd]
  cases hj : s.joined <;> simp [hj]

/-- The same from any point of the recursion for a filter that is asked to run (`run_` or
`teardown_` set, no `reboot()` in progress or later): 14 thread moves suffice. -/
theorem condition_false_terminates_running (as rest : List Act)
    (hrun : (runAll Cfg.current as).run = true ∨ (runAll Cfg.current as).teardown = true)
    (hmid : (runAll Cfg.current as).mid = false)
    (hfalse : ∀ a ∈ rest, a ≠ Act.t true ∧ a ≠ Act.c Cmd.reboot) (hfair : 14 ≤ moves rest) :
    (runAll Cfg.current (as ++ rest)).pc = PC.done := by
  rw [runAll, exec_append]
  refine going_terminates_from rest _ ⟨nolost_all _ as, hmid, ?_⟩ hfalse (Nat.le_trans (vRc_le _) hfair)
  rcases hrun with h | h
  · exact Or.inl h
  · exact Or.inr (Or.inl h)

/-- A requested reset is honoured by a new epoch: for a filter that is asked to run, not torn
down, with no `reboot()` in progress and the thread not already leaving, as long as the run
condition holds the thread reaches `initialization_step()` within 13 of its own moves, and its
next move is that initialisation.  (Fairness: the thread is scheduled; stated for the thread
running alone.) -/
theorem reset_leads_to_init (as : List Act)
    (hreset : (runAll Cfg.current as).reset = true) (hrun : (runAll Cfg.current as).run = true)
    (htd : (runAll Cfg.current as).teardown = false) (hmid : (runAll Cfg.current as).mid = false)
    (h1 : (runAll Cfg.current as).pc ≠ PC.preFinal) (h2 : (runAll Cfg.current as).pc ≠ PC.done) :
    ∃ m, m ≤ 13 ∧ (runAll Cfg.current (as ++ List.replicate m (Act.t true))).pc = PC.preInit ∧
      ∃ h, (runAll Cfg.current (as ++ List.replicate m (Act.t true) ++ [Act.t true])).hist = Ev.init :: h := by
  have hR : Resetting (runAll Cfg.current as) :=
    ⟨nolost_all _ as, hrun, htd, hmid, h1, h2, Or.inl hreset⟩
  have hv : vInit (runAll Cfg.current as).pc ≤ 13 := by
    generalize (runAll Cfg.current as).pc = pc
    cases pc <;> simp [vInit]
  obtain ⟨m, hm, hpc⟩ := reset_leads_to_init_from 13 _ hR hv
  refine ⟨m, hm, by rw [runAll, exec_append]; exact hpc, ?_⟩
  rw [runAll, exec_append, exec_append]
  simp only [runAll] at hpc
  generalize exec Cfg.current (exec Cfg.current St.boot as) (List.replicate m (Act.t true)) = s at hpc
  obtain ⟨pc, run, reset, td, stp, woken, mid, joined, hist⟩ := s
  have hpc' : pc = PC.preInit := hpc
  subst hpc'
  exact ⟨hist, by simp [exec, step, thr]⟩

/-! ## Liveness under fairness, for every command placement

`reset_leads_to_init` lets the thread run alone.  Here the controller may issue `run`, `reset`,
`wait` and the condition variable may wake spuriously at **every** point of the continuation; the
assumptions are fairness (the thread gets 14 moves), a run condition that holds, and that nobody
asks for the opposite (`Benign`: no `teardown`, no `reboot`). -/

/-- A requested reset — or a `run` request reaching a thread that is on its way to the wait, in
it, or past it — is honoured by a new initialisation within 14 thread moves of **any** benign
continuation: the history gains an `Init`. -/
theorem reset_leads_to_init_fair (as rest : List Act)
    (hrun : (runAll Cfg.current as).run = true) (htd : (runAll Cfg.current as).teardown = false)
    (hmid : (runAll Cfg.current as).mid = false)
    (h1 : (runAll Cfg.current as).pc ≠ PC.preFinal) (h2 : (runAll Cfg.current as).pc ≠ PC.done)
    (hpend : (runAll Cfg.current as).reset = true ∨ (runAll Cfg.current as).pc = PC.top ∨
      (runAll Cfg.current as).pc = PC.zero ∨ (runAll Cfg.current as).pc = PC.preWait ∨
      (runAll Cfg.current as).pc = PC.waiting ∨ (runAll Cfg.current as).pc = PC.preInit ∨
      (runAll Cfg.current as).pc = PC.outD)
    (hben : ∀ a ∈ rest, Benign a) (hfair : 14 ≤ moves rest) :
    ∃ l, (runAll Cfg.current (as ++ rest)).hist = l ++ (runAll Cfg.current as).hist ∧ Ev.init ∈ l := by
  have hR : Resetting (runAll Cfg.current as) := ⟨nolost_all _ as, hrun, htd, hmid, h1, h2, hpend⟩
  have hv : vInit (runAll Cfg.current as).pc + 1 ≤ moves rest := by
    have : vInit (runAll Cfg.current as).pc ≤ 13 := by
      generalize (runAll Cfg.current as).pc = pc
      cases pc <;> simp [vInit]
    omega
  rw [runAll, exec_append]
  exact fair_init_from rest _ hR hben hv

/-- `run()` starts the filter: once `run_` is set (no teardown, no `reboot()` in progress) and the
thread has not yet initialised its epoch — it is before the wait, at its entry with the mutex
held, inside it, or just past it — every benign fair continuation contains the `Init`. -/
theorem run_leads_to_init_fair (as rest : List Act)
    (hrun : (runAll Cfg.current as).run = true) (htd : (runAll Cfg.current as).teardown = false)
    (hmid : (runAll Cfg.current as).mid = false)
    (hpc : (runAll Cfg.current as).pc = PC.top ∨ (runAll Cfg.current as).pc = PC.zero ∨
      (runAll Cfg.current as).pc = PC.preWait ∨ (runAll Cfg.current as).pc = PC.blocking ∨
      (runAll Cfg.current as).pc = PC.waiting ∨ (runAll Cfg.current as).pc = PC.preInit)
    (hben : ∀ a ∈ rest, Benign a) (hfair : 14 ≤ moves rest) :
    ∃ l, (runAll Cfg.current (as ++ rest)).hist = l ++ (runAll Cfg.current as).hist ∧ Ev.init ∈ l := by
  have hL := nolost_all Cfg.current as
  have hb : (runAll Cfg.current as).pc ≠ PC.blocking := by
    intro hpcb
    have := (hL rfl rfl).2 hpcb
    rw [hrun] at this
    exact absurd this.1 (by simp)
  apply reset_leads_to_init_fair as rest hrun htd hmid _ _ _ hben hfair
  · rcases hpc with h | h | h | h | h | h <;> simp [h]
  · rcases hpc with h | h | h | h | h | h <;> simp [h]
  · rcases hpc with h | h | h | h | h | h
    · exact Or.inr (Or.inl h)
    · exact Or.inr (Or.inr (Or.inl h))
    · exact Or.inr (Or.inr (Or.inr (Or.inl h)))
    · exact absurd h hb
    · exact Or.inr (Or.inr (Or.inr (Or.inr (Or.inl h))))
    · exact Or.inr (Or.inr (Or.inr (Or.inr (Or.inr (Or.inl h)))))

/-- The hypotheses are needed.  (1) run condition: with the same pending reset and a condition
that turns false, the thread ends and no `Init` follows the reset.  (2) `run_`: after a
`reboot()` (which clears `run_`) the thread parks and no `Init` follows however long it is
scheduled.  (3) no teardown: a teardown ends the thread without a new epoch. -/
def resetInStep : List Act := [.c .run] ++ List.replicate 9 (.t true) ++ [.c .reset]

theorem fair_init_needs_condition_counterexample :
    (runAll Cfg.current resetInStep).reset = true ∧ (runAll Cfg.current resetInStep).run = true ∧
    (runAll Cfg.current resetInStep).pc = PC.inStep ∧
    (runAll Cfg.current (resetInStep ++ List.replicate 14 (.t false))).pc = PC.done ∧
    Ev.init ∉ (runAll Cfg.current (resetInStep ++ List.replicate 14 (.t false))).hist.takeWhile
      (fun e => decide (e ≠ Ev.cmdReset)) := by decide

theorem fair_init_needs_run_counterexample :
    (runAll Cfg.current ([.c .run] ++ List.replicate 9 (.t true) ++ [.c .reboot, .fin] ++
        List.replicate 16 (.t true))).pc = PC.waiting ∧
    Ev.init ∉ (runAll Cfg.current ([.c .run] ++ List.replicate 9 (.t true) ++ [.c .reboot, .fin] ++
        List.replicate 16 (.t true))).hist.takeWhile (fun e => decide (e ≠ Ev.cmdReboot)) := by decide

theorem fair_init_needs_no_teardown_counterexample :
    (runAll Cfg.current (resetInStep ++ [.c .teardown] ++ List.replicate 14 (.t true))).pc = PC.done ∧
    Ev.init ∉ (runAll Cfg.current (resetInStep ++ [.c .teardown] ++ List.replicate 14 (.t true))).hist.takeWhile
      (fun e => decide (e ≠ Ev.cmdReset)) := by decide

/-- non-vacuity of `reset_leads_to_init_fair`: the reset of `resetInStep` followed by a
continuation in which the controller keeps issuing `run`, `reset`, `wait` between the thread's
moves is benign, fair, and the `Init` is there -/
def benignTail : List Act :=
  [.t true, .c .reset, .t true, .t true, .c .run, .spur, .t true, .c .wait, .t true, .t true, .c .reset,
   .t true, .t true, .t true, .t true, .t true, .t true, .t true, .t true]

example : (∀ a ∈ benignTail, Benign a) ∧ 14 ≤ moves benignTail ∧
    Ev.init ∈ (runAll Cfg.current (resetInStep ++ benignTail)).hist.takeWhile (fun e => decide (e ≠ Ev.cmdRun)) := by
  decide

/-! ## Exactly when a step can still start after a request -/

/-- `teardown_at_most_one_step` is tight only for a thread that has already read `!teardown_`
for its next step: if teardown is set while the thread is anywhere else (inside
`initialization_step()`, inside `run_condition()`, in a step, parked, between epochs …), **no**
step starts any more, whatever the schedule. -/
theorem teardown_no_step_unless_committed (cfg : Cfg) (as rest : List Act)
    (htd : (runAll cfg as).teardown = true)
    (h1 : (runAll cfg as).pc ≠ PC.inC) (h2 : (runAll cfg as).pc ≠ PC.aboutStep) :
    countSteps (runAll cfg (as ++ rest)).hist = countSteps (runAll cfg as).hist := by
  rw [runAll, exec_append]
  exact tdout_exec cfg rest _ ⟨htd, h1, h2⟩

/-- … and the exception is real: teardown requested between the read of `!teardown_` and the
step (pc `inC`) is followed by exactly one more step. -/
def teardownCommitted : List Act := [.c .run] ++ List.replicate 7 (.t true) ++ [.c .teardown]

theorem teardown_committed_step_counterexample :
    (runAll Cfg.current teardownCommitted).teardown = true ∧ (runAll Cfg.current teardownCommitted).pc = PC.inC ∧
    countSteps (runAll Cfg.current teardownCommitted).hist = 0 ∧
    countSteps (runAll Cfg.current (teardownCommitted ++ List.replicate 15 (.t true))).hist = 1 := by decide

/-- The same for reset / reboot: with `reset_` set and the thread not yet committed to a step
(it has not read `!reset_` for it: pc ≠ `aboutStep`), or with the thread outside the stepping
loop, **no** step starts before the next `Init`, whatever the schedule. -/
theorem reset_no_step_unless_committed (cfg : Cfg) (as rest : List Act)
    (h1 : (runAll cfg as).pc ≠ PC.aboutStep)
    (h2 : (runAll cfg as).reset = true ∨ OutsideLoop (runAll cfg as).pc = true) :
    ∃ l, (runAll cfg (as ++ rest)).hist = l ++ (runAll cfg as).hist ∧ (Ev.init ∉ l → countSteps l = 0) := by
  rw [runAll, exec_append]
  exact rsout_exec cfg rest _ ⟨h1, h2⟩

/-! ## The mutex is exclusive; teardown ends a filter that reports "not running" -/

/-- Mutual exclusion on `mtx_run_`: the controller is between the two stores of `reboot()` only while
the filtering thread does not hold the mutex (so the wait predicate is never evaluated on the
intermediate state `reset_ = true, run_` not yet cleared). -/
theorem mutex_exclusive (cfg : Cfg) (as : List Act) :
    ¬ ((runAll cfg as).mid = true ∧ (runAll cfg as).pc = PC.blocking) :=
  fun h => excl_all cfg as h.1 h.2

/-- the wait is passed (entry test or re-evaluation after a wake-up) only while no `reboot()` is in progress -/
theorem wait_not_passed_during_reboot (s s' : St) (c : Bool) (hpc : s.pc = PC.preWait ∨ s.pc = PC.waiting)
    (h : thr s c = some s') : s.mid = false := by
  obtain ⟨pc, run, reset, td, stp, woken, mid, joined, hist⟩ := s
  rcases hpc with hp | hp <;> simp only at hp <;> subst hp <;> cases mid <;> simp_all [thr]

/-- Teardown requested at **any** point of a live thread — parked, inside `initialization_step()`
(seed C09-r4-2's placement), inside a step, inside `run_condition()` … — and `run()` not called
again: after 15 fair turns the thread has ended **and `is_running()` is false**. -/
theorem teardown_ends_not_running (as rest : List Act) (htd : (runAll Cfg.current as).teardown = true)
    (hlive : (runAll Cfg.current as).pc ≠ PC.done) (hnorun : ∀ a ∈ rest, a ≠ Act.c Cmd.run)
    (hfair : 15 ≤ turns Cfg.current (runAll Cfg.current as) rest) :
    (runAll Cfg.current (as ++ rest)).pc = PC.done ∧ (runAll Cfg.current (as ++ rest)).isRunning = false := by
  have hd := (teardown_terminates as rest htd hfair).1
  refine ⟨hd, ?_⟩
  have h0 : EndOff (runAll Cfg.current as) := fun h => absurd h hlive
  have := endoff_exec Cfg.current rest _ hnorun h0
  rw [runAll, exec_append] at hd ⊢
  exact this hd

/-- non-vacuity (and the exception is real): teardown inside `initialization_step()` with `run_` set, 15
turns → ended, not running; a `run()` issued after the end makes `is_running()` true again -/
def teardownInInit : List Act := [.c .run, .t true, .t true, .t true, .t true, .c .teardown]

example : (runAll Cfg.current teardownInInit).pc = PC.inInit ∧ (runAll Cfg.current teardownInInit).run = true ∧
    (runAll Cfg.current (teardownInInit ++ List.replicate 15 (.t true))).pc = PC.done ∧
    (runAll Cfg.current (teardownInInit ++ List.replicate 15 (.t true))).isRunning = false ∧
    (runAll Cfg.current (teardownInInit ++ List.replicate 15 (.t true) ++ [.c .run])).isRunning = true := by decide

/-! ## After the join -/

/-- `wait()` returns only after the thread has ended; from then on, whatever is done, no
initialisation and no step happens, and `is_running()` is false unless `run` was requested
after the thread had ended (after its final `run_ = false`). -/
theorem after_wait_quiescent (cfg : Cfg) (as rest : List Act) (hj : (runAll cfg as).joined = true) :
    (runAll cfg (as ++ rest)).pc = PC.done ∧
    workEvents (runAll cfg (as ++ rest)).hist = workEvents (runAll cfg as).hist ∧
    ((runAll cfg (as ++ rest)).isRunning = true →
      Ev.cmdRun ∈ (runAll cfg (as ++ rest)).hist.takeWhile (fun e => decide (e ≠ Ev.thrDone))) := by
  have hd : (runAll cfg as).pc = PC.done := (invq_all cfg as).1 hj
  have hd' : (runAll cfg (as ++ rest)).pc = PC.done := by
    rw [runAll, exec_append]; exact exec_done cfg rest _ hd
  refine ⟨hd', ?_, fun hr => (invq_all cfg (as ++ rest)).2 hd' hr⟩
  rw [runAll, exec_append]
  exact exec_done_work cfg rest _ hd

/-- `wait()` returns only once the filtering thread has ended: if the join is in the history,
the thread's final store precedes it (so no callback of the thread — initialisation, step, run
condition, schedule point — can come after the return of `wait()`). -/
theorem wait_implies_ended (cfg : Cfg) (as : List Act) (later earlier : List Ev)
    (h : (runAll cfg as).hist = later ++ Ev.joined :: earlier) : Ev.thrDone ∈ earlier := by
  obtain ⟨as', _, hh⟩ := hist_prefix cfg as later _ earlier h
  have hq := (invj_all cfg as').1
  rw [hh] at hq
  have := hq (by simp)
  simpa [List.dropWhile] using this

/-- A `boot()` that fails to create the thread leaves a filter on which commands only set flags:
nothing is ever initialised or stepped, and `wait()` returns. -/
theorem boot_failed_inert (cfg : Cfg) (as : List Act) :
    (exec cfg St.bootFailed as).pc = PC.done ∧ workEvents (exec cfg St.bootFailed as).hist = [] ∧
    ((exec cfg St.bootFailed as).joined = true ∨
      (step cfg (exec cfg St.bootFailed as) (Act.c Cmd.wait)).joined = true) := by
  have hd : (exec cfg St.bootFailed as).pc = PC.done := exec_done cfg as _ rfl
  have hw := exec_done_work cfg as St.bootFailed rfl
  refine ⟨hd, by simpa [St.bootFailed, workEvents] using hw, ?_⟩
  generalize exec cfg St.bootFailed as = s at *
  simp only [step, ctl, hd]
  cases hj' : s.joined <;> simp_all

/-! ## Why scheduling at the hook points loses nothing

Between two flag reads of one loop test the implementation offers no place to hold the thread.
A command issued there commutes with the thread's access unless it writes the very flag being
read (`Indep`), so it can be moved across the silent accesses to the neighbouring place where
the harness can issue it; the state — including the whole history — is the same. -/

theorem command_commutes_with_silent_access (cfg : Cfg) (s : St) (x : Cmd) (c : Bool)
    (h : Indep s.pc x) :
    step cfg (step cfg s (Act.c x)) (Act.t c) = step cfg (step cfg s (Act.t c)) (Act.c x) :=
  cmd_commutes cfg s x c h

theorem reboot_second_store_commutes (cfg : Cfg) (s : St) (c : Bool)
    (h : s.pc = PC.zero ∨ s.pc = PC.incr ∨ s.pc = PC.inB ∨ s.pc = PC.inC ∨ s.pc = PC.outC ∨ s.pc = PC.outD) :
    step cfg (step cfg s Act.fin) (Act.t c) = step cfg (step cfg s (Act.t c)) Act.fin :=
  fin_commutes cfg s c h

/-! ## The repaired defect (fix 56cf611), kept as documentation

Before the fix `teardown()` stored the flag without taking the mutex and without notifying.
The model with that `teardown()` (`Cfg.old`) has the deadlock the real class had:
`boot → teardown → wait` never returns once the thread is parked. -/

/-- the thread runs to the wait and parks (four moves), then teardown is requested -/
def parkThenTeardown : List Act := [.t true, .t true, .t true, .t true, .c .teardown]

theorem old_teardown_deadlock_counterexample :
    (runAll Cfg.old parkThenTeardown).teardown = true ∧
    (runAll Cfg.old parkThenTeardown).pc = PC.waiting ∧
    (runAll Cfg.old parkThenTeardown).mid = false ∧
    ∀ c, thr (runAll Cfg.old parkThenTeardown) c = none := by decide

/-- … and it stays so for ever: however often the thread is scheduled, and whatever `reset`,
`teardown`, `wait` calls follow, the thread never ends (negation of `teardown_terminates` for
the old code). -/
theorem old_teardown_never_terminates_counterexample (rest : List Act) (hq : ∀ a ∈ rest, Quiet a) :
    (runAll Cfg.old (parkThenTeardown ++ rest)).teardown = true ∧
    (runAll Cfg.old (parkThenTeardown ++ rest)).pc = PC.waiting := by
  have hp : Parked (runAll Cfg.old parkThenTeardown) := by unfold Parked; decide
  have h := parked_exec Cfg.old rfl rest _ hq hp
  rw [runAll, exec_append]
  refine ⟨?_, h.1⟩
  clear h hp
  generalize hs : exec Cfg.old St.boot parkThenTeardown = s
  have ht : s.teardown = true := by rw [← hs]; decide
  clear hs
  induction rest generalizing s with
  | nil => simpa [exec] using ht
  | cons a rest ih =>
    rw [exec_cons]
    exact ih (fun x hx => hq x (by simp [hx])) _ (teardown_stays _ s a ht)

/-- Notifying without taking the mutex is not enough (lost wake-up): the request lands between
the predicate evaluation and the block. -/
def teardownInWindow : List Act := [.t true, .t true, .t true, .c .teardown, .t true]

theorem teardown_without_lock_counterexample :
    (runAll ⟨false, true⟩ teardownInWindow).teardown = true ∧
    (runAll ⟨false, true⟩ teardownInWindow).pc = PC.waiting ∧
    ∀ c, thr (runAll ⟨false, true⟩ teardownInWindow) c = none := by decide

/-- Taking the mutex without notifying is not enough either. -/
theorem teardown_without_notify_counterexample :
    (runAll ⟨true, false⟩ parkThenTeardown).teardown = true ∧
    (runAll ⟨true, false⟩ parkThenTeardown).pc = PC.waiting ∧
    ∀ c, thr (runAll ⟨true, false⟩ parkThenTeardown) c = none := by decide

/-- The current code on the same two schedules: the thread can go on (and then terminates by
`teardown_terminates`). -/
theorem current_teardown_wakes :
    (thr (runAll Cfg.current parkThenTeardown) true).map (·.pc) = some PC.preInit ∧
    (runAll Cfg.current teardownInWindow).teardown = false ∧
    (thr (runAll Cfg.current (teardownInWindow ++ [.c .teardown])) true).map (·.pc) = some PC.preInit := by
  decide

/-- By design (not a defect): a filter that was booted but never asked to run, nor torn down,
stays blocked whatever `run_condition()` would return — "once the run condition turns false"
is about a thread that evaluates it. -/
theorem never_run_stays_blocked (rest : List Act) (hq : ∀ a ∈ rest, a = Act.t false ∨ a = Act.c Cmd.wait) :
    (runAll Cfg.current ([.t true, .t true, .t true, .t true] ++ rest)).pc = PC.waiting := by
  have hp : (runAll Cfg.current [.t true, .t true, .t true, .t true]).pc = PC.waiting ∧
      (runAll Cfg.current [.t true, .t true, .t true, .t true]).woken = false ∧
      (runAll Cfg.current [.t true, .t true, .t true, .t true]).run = false ∧
      (runAll Cfg.current [.t true, .t true, .t true, .t true]).teardown = false := by decide
  rw [runAll, exec_append]
  rw [runAll] at hp
  generalize exec Cfg.current St.boot [.t true, .t true, .t true, .t true] = s at hp
  induction rest generalizing s with
  | nil => simpa [exec] using hp.1
  | cons a rest ih =>
    rw [exec_cons]
    apply ih (fun x hx => hq x (by simp [hx]))
    obtain ⟨h1, h2, h3, h4⟩ := hp
    obtain ⟨pc, run, reset, td, stp, woken, mid, joined, hist⟩ := s
    simp only at h1 h2 h3 h4; subst h1; subst h2; subst h3; subst h4
    rcases hq a (by simp) with rfl | rfl <;> simp [step, thr, ctl]

/-! ## Non-vacuity: the hypotheses of the theorems are met by concrete schedules -/

/-- boot, run, then the thread initialises and makes two steps -/
def demoRun : List Act := [.c .run] ++ List.replicate 19 (.t true)

example : (runAll Cfg.current demoRun).hist.filter isStep = [Ev.stepStart 1, Ev.stepStart 0] := by decide

/-- a reset that arrives between the decision to step and the step: exactly one further step,
then a new epoch -/
def demoReset : List Act := [.c .run] ++ List.replicate 8 (.t true) ++ [.c .reset] ++ List.replicate 16 (.t true)

example : ∃ later seg earlier, (runAll Cfg.current demoReset).hist = later ++ seg ++ Ev.cmdReset :: earlier ∧
    Ev.init ∉ seg ∧ countSteps seg = 1 ∧ Ev.init ∈ later :=
  ⟨((runAll Cfg.current demoReset).hist.take 2), ((runAll Cfg.current demoReset).hist.drop 2).take 4,
   (runAll Cfg.current demoReset).hist.drop 7, by decide⟩

/-- teardown while a step is about to start: `teardown_terminates` applies with 15 turns -/
def demoTeardown : List Act := [.c .run] ++ List.replicate 8 (.t true) ++ [.c .teardown]

example : (runAll Cfg.current demoTeardown).teardown = true ∧
    15 ≤ turns Cfg.current (runAll Cfg.current demoTeardown) (List.replicate 15 (.t true)) ∧
    countSteps ((runAll Cfg.current (demoTeardown ++ List.replicate 15 (.t true))).hist.takeWhile
      (fun e => decide (e ≠ Ev.cmdTeardown))) = 1 := by decide

/-- the join after it, and a `run` after the end: the exception of `after_wait_quiescent` is real -/
example : (runAll Cfg.current (demoTeardown ++ List.replicate 15 (.t true) ++ [.c .wait])).joined = true ∧
    (runAll Cfg.current (demoTeardown ++ List.replicate 15 (.t true) ++ [.c .wait])).isRunning = false ∧
    (runAll Cfg.current (demoTeardown ++ List.replicate 15 (.t true) ++ [.c .wait, .c .run])).isRunning = true := by
  decide

/-- reboot during a step, then run: the monitor of `reboot_needs_run` reaches `ok` -/
def demoReboot : List Act :=
  [.c .run] ++ List.replicate 8 (.t true) ++ [.c .reboot, .fin] ++ List.replicate 15 (.t true) ++
  [.c .run] ++ List.replicate 8 (.t true)

example : ∃ later earlier, (runAll Cfg.current demoReboot).hist = later ++ Ev.cmdReboot :: earlier ∧
    runMon rbδ Rb.a later = Rb.ok ∧ countSteps later = 2 :=
  ⟨(runAll Cfg.current demoReboot).hist.takeWhile (fun e => decide (e ≠ Ev.cmdReboot)),
   ((runAll Cfg.current demoReboot).hist.dropWhile (fun e => decide (e ≠ Ev.cmdReboot))).tail, by decide⟩

/-- the exception is real: a reset that lands after the read of `!reset_` (pc `aboutStep`) is
followed by one step before the new `Init` -/
theorem reset_committed_step_counterexample :
    (runAll Cfg.current ([.c .run] ++ List.replicate 8 (.t true))).pc = PC.aboutStep ∧
    countSteps ((runAll Cfg.current demoReset).hist.takeWhile (fun e => decide (e ≠ Ev.cmdReset))) = 1 := by decide

/-! ## A consumer of the step number: `SIS::filtering_step()` -/

/-- `SIS::filtering_step()` predicts unless `step_number() == 0` (`sisPredicts`).  Along every
schedule the steps that skip the prediction are exactly the first steps after an initialisation:
the step that starts with number `k` does not predict iff the Init/Step event before it is an
`Init` (with `step_number_in_step`: `k` is what `step_number()` returns while the step runs). -/
theorem sis_prediction_skipped_exactly_after_init (cfg : Cfg) (as : List Act) (k : Nat)
    (later earlier : List Ev) (h : (runAll cfg as).hist = later ++ Ev.stepStart k :: earlier) :
    sisPredicts k = false ↔ (workEvents earlier).head? = some Ev.init := by
  rw [epoch_shape_pred cfg as k later earlier h]
  by_cases hk : k = 0
  · subst hk; simp [sisPredicts]
  · simp [sisPredicts, hk]

/-- non-vacuity: in `demoRun` the first step does not predict, the second does -/
example : (runAll Cfg.current demoRun).hist.filter isStep = [Ev.stepStart 1, Ev.stepStart 0] ∧
    sisPredicts 0 = false ∧ sisPredicts 1 = true := by decide

end BFL.Life
