import BFL.Model.HistorySpec
import BFL.Proofs.HistoryMove
/-
The deque model `HistBuf` refines the specification `HistSpec` (append-only log + counter): every operation
commutes with the abstraction `HistSpec.abs`, for single buffers and for pairs with hand-over.
-/
namespace BFL
namespace HistSpec
variable {β : Type}

theorem histBuf_ext {a b : HistBuf β} (h1 : a.items = b.items) (h2 : a.window = b.window) : a = b := by
  cases a; cases b; simp_all

/-- the invariant of the specification state: the counter is bounded by the log and by the window -/
structure SInv (s : HistSpec β) : Prop where
  le_log : s.keep ≤ s.log.length
  le_win : s.keep ≤ s.window

theorem sinv_init : SInv (init : HistSpec β) := ⟨by simp [init], by simp [init]⟩

theorem sinv_movedFrom : SInv (movedFrom : HistSpec β) := ⟨by simp [movedFrom], by simp [movedFrom]⟩

theorem view_length {s : HistSpec β} (h : SInv s) : s.view.length = s.keep := by
  simp only [view, List.length_take]
  exact Nat.min_eq_left h.le_log

theorem sinv_setW {s : HistSpec β} (h : SInv s) (w : Nat) : SInv (s.setW w) := by
  have := h.le_log
  constructor <;> simp only [setW] <;> omega

theorem sinv_step {s : HistSpec β} (h : SInv s) (o : HistBuf.Op β) : SInv (step s o) := by
  have h1 := h.le_log
  have h2 := h.le_win
  cases o with
  | add x => constructor <;> simp only [step, List.length_cons] <;> omega
  | set w => exact sinv_setW h w
  | dec => exact sinv_setW h _
  | inc => exact sinv_setW h _
  | clear => constructor <;> simp [step]

theorem abs_setW {s : HistSpec β} (h : SInv s) (w : Nat) : (s.setW w).abs = (s.abs.setWindow w).1 := by
  have hl : s.abs.items.length ≤ s.abs.window := by
    show s.view.length ≤ s.window
    rw [view_length h]; exact h.le_win
  apply histBuf_ext
  · rw [HistBuf.setWindow_items _ _ hl, HistBuf.setWindow_window]
    show (s.setW w).view = s.view.take _
    simp only [view, setW, newWindow, abs, List.take_take]
    congr 1
    exact Nat.min_comm _ _
  · rw [HistBuf.setWindow_window]
    rfl

/-- every operation commutes with the abstraction -/
theorem abs_step {s : HistSpec β} (h : SInv s) (o : HistBuf.Op β) : (step s o).abs = HistBuf.step s.abs o := by
  cases o with
  | add x =>
    show (step s (.add x)).abs = s.abs.add x
    have hl : s.abs.items.length ≤ s.abs.window := by
      show s.view.length ≤ s.window
      rw [view_length h]; exact h.le_win
    by_cases hw : 1 ≤ s.window
    · apply histBuf_ext
      · rw [HistBuf.add_items _ _ hw hl]
        show (x :: s.log).take (min (s.keep + 1) s.window) = (x :: s.log.take s.keep).take s.window
        have h1 : x :: s.log.take s.keep = (x :: s.log).take (s.keep + 1) := by rw [List.take_succ_cons]
        rw [h1, List.take_take]
        congr 1
        exact Nat.min_comm _ _
      · rw [HistBuf.add_window]; rfl
    · have hw0 : s.window = 0 := by omega
      have hk0 : s.keep = 0 := by have := h.le_win; omega
      apply histBuf_ext
      · simp [step, abs, view, HistBuf.add, hw0, hk0]
      · rw [HistBuf.add_window]; rfl
  | set w => exact abs_setW h w
  | dec => exact abs_setW h _
  | inc => exact abs_setW h _
  | clear => simp [step, abs, view, HistBuf.step, HistBuf.clear]

theorem abs_init : (init : HistSpec β).abs = HistBuf.init := by simp [init, abs, view, HistBuf.init]

theorem abs_movedFrom : (movedFrom : HistSpec β).abs = HistBuf.movedFrom := by
  simp [movedFrom, abs, view, HistBuf.movedFrom]

theorem abs_foldl {s : HistSpec β} (h : SInv s) (ops : List (HistBuf.Op β)) :
    (ops.foldl step s).abs = ops.foldl HistBuf.step s.abs ∧ SInv (ops.foldl step s) := by
  induction ops generalizing s with
  | nil => exact ⟨rfl, h⟩
  | cons o os ih =>
    simp only [List.foldl_cons]
    rw [← abs_step h o]
    exact ih (sinv_step h o)

/-- **refinement**: after every operation sequence the deque model is the abstraction of the specification -/
theorem abs_run (ops : List (HistBuf.Op β)) : (run ops).abs = HistBuf.run ops ∧ SInv (run ops) := by
  have := abs_foldl (sinv_init : SInv (init : HistSpec β)) ops
  rw [abs_init] at this
  exact this

/-- `n` additions in a row: the log grows, the counter rises up to the window -/
theorem foldl_adds (s : HistSpec β) (hk : s.keep ≤ s.window) (xs : List β) :
    (xs.map HistBuf.Op.add).foldl step s
      = ⟨xs.reverse ++ s.log, min (s.keep + xs.length) s.window, s.window⟩ := by
  induction xs generalizing s with
  | nil =>
    cases s with
    | mk log keep window => simp at hk ⊢; omega
  | cons x xs ih =>
    have hk' : (step s (.add x)).keep ≤ (step s (.add x)).window := by simp only [step]; omega
    simp only [List.map_cons, List.foldl_cons]
    rw [ih _ hk']
    simp only [step, List.reverse_cons, List.append_assoc, List.singleton_append, List.length_cons]
    congr 1
    omega

/-! ### pairs with hand-over -/

def absP (p : Pair β) : HistBuf.Pair β := ⟨p.a.abs, p.b.abs⟩

theorem absP_get (p : Pair β) (i : Bool) : (absP p).get i = (p.get i).abs := by
  cases i <;> rfl

theorem absP_set (p : Pair β) (i : Bool) (s : HistSpec β) : absP (p.set i s) = (absP p).set i s.abs := by
  cases i <;> rfl

theorem Pair.get_set (p : Pair β) (i j : Bool) (s : HistSpec β) :
    (p.set i s).get j = if j = i then s else p.get j := by
  cases i <;> cases j <;> rfl

theorem sinv_step2 {p : Pair β} (hp : ∀ i, SInv (p.get i)) (o : HistBuf.Op2 β) : ∀ i, SInv ((step2 p o).get i) := by
  intro k
  cases o with
  | on i o =>
    simp only [step2, Pair.get_set]
    split
    · exact sinv_step (hp i) o
    · exact hp k
  | moveCtor i =>
    simp only [step2, Pair.get_set]
    split
    · exact sinv_movedFrom
    · split
      · exact hp i
      · exact hp k
  | moveAssign i j =>
    simp only [step2]
    split
    · exact hp k
    · simp only [Pair.get_set]
      split
      · exact sinv_movedFrom
      · split
        · exact hp i
        · exact hp k

theorem absP_step2 {p : Pair β} (hp : ∀ i, SInv (p.get i)) (o : HistBuf.Op2 β) :
    absP (step2 p o) = HistBuf.step2 (absP p) o := by
  cases o with
  | on i o =>
    simp only [step2, HistBuf.step2, absP_set, absP_get, abs_step (hp i) o]
  | moveCtor i =>
    simp only [step2, HistBuf.step2, HistBuf.moveOut, absP_set, absP_get, abs_movedFrom]
  | moveAssign i j =>
    simp only [step2, HistBuf.step2, HistBuf.moveOut]
    split
    · rfl
    · simp only [absP_set, absP_get, abs_movedFrom]

theorem absP_run2 (ops : List (HistBuf.Op2 β)) :
    absP (run2 ops) = HistBuf.run2 ops ∧ ∀ i, SInv ((run2 ops).get i) := by
  have key : ∀ (p : Pair β), (∀ i, SInv (p.get i)) →
      absP (ops.foldl step2 p) = ops.foldl HistBuf.step2 (absP p) ∧ ∀ i, SInv ((ops.foldl step2 p).get i) := by
    induction ops with
    | nil => intro p hp; exact ⟨rfl, hp⟩
    | cons o os ih =>
      intro p hp
      simp only [List.foldl_cons]
      rw [← absP_step2 hp o]
      exact ih _ (sinv_step2 hp o)
  have h0 : ∀ i, SInv ((⟨init, init⟩ : Pair β).get i) := by
    intro i; cases i <;> exact sinv_init
  have := key ⟨init, init⟩ h0
  simp only [absP, abs_init] at this
  exact this

end HistSpec
end BFL
