// Correspondence harness for C16: the shipped models and initialisers, called in-process.
//   WhiteNoiseAcceleration, AdditiveStateModel::motion, LinearStateModel::propagate,
//   LTIStateModel / LTIMeasurementModel / LinearModel constructors, SimulatedStateModel,
//   SimulatedLinearSensor, InitSurveillanceAreaGrid.
// Random draws are observed with a twin std::mt19937_64 + std::normal_distribution run in lock-step.
#include "common.hpp"
#include <BayesFilters/WhiteNoiseAcceleration.h>
#include <BayesFilters/LTIStateModel.h>
#include <BayesFilters/LTIMeasurementModel.h>
#include <BayesFilters/LinearModel.h>
#include <BayesFilters/SimulatedStateModel.h>
#include <BayesFilters/AdditiveStateModel.h>
#include <BayesFilters/SimulatedLinearSensor.h>
#include <BayesFilters/InitSurveillanceAreaGrid.h>
#include <BayesFilters/ExogenousModel.h>
#include <BayesFilters/ParticleSet.h>
#include <BayesFilters/any.h>
#include <BayesFilters/Agent.h>
#include <memory>
#include <random>

using namespace bfl;
using namespace Eigen;
using vh::Toks; using vh::Out;

typedef WhiteNoiseAcceleration WNA;

static WNA::Dim dimOf(long d) {
    if (d == 1) return WNA::Dim::OneD;
    if (d == 2) return WNA::Dim::TwoD;
    if (d == 3) return WNA::Dim::ThreeD;
    throw vh::BadArgs("dim");
}

// twin of the generators the classes own
struct Twin {
    std::mt19937_64 gen; std::normal_distribution<double> dist;
    explicit Twin(unsigned int seed) : gen(std::mt19937_64(seed)), dist(std::normal_distribution<double>(0.0, 1.0)) {}
    double next() { return dist(gen); }
    MatrixXd mat(long r, long c) { MatrixXd m(r, c); for (long i = 0; i < m.size(); ++i) *(m.data() + i) = next(); return m; }
};

// the library reports a reset on std::cout, which is this harness's protocol channel
struct Mute {
    std::streambuf* old; std::ostringstream sink;
    Mute() { old = std::cout.rdbuf(sink.rdbuf()); }
    ~Mute() { std::cout.rdbuf(old); }
};

static void outShaped(Out& o, const MatrixXd& m) { o.n(m.rows()); o.n(m.cols()); o.m(m); }

// u(x) = G x + g, column-wise
struct HExo : public ExogenousModel {
    HExo(const MatrixXd& G, const VectorXd& g) : G_(G), g_(g) {}
    void propagate(const Ref<const MatrixXd>& cur, Ref<MatrixXd> prop) override { prop = (G_ * cur).colwise() + g_; }
    bool setProperty(const std::string&) override { return false; }
    VectorDescription getStateDescription() const override { return VectorDescription(g_.size()); }
    MatrixXd G_; VectorXd g_;
};

// deterministic state model defined here: motion(x) = A x + b
struct HAff : public StateModel {
    HAff(const MatrixXd& A, const VectorXd& b, std::size_t lin, std::size_t circ, bool quat = false) : A_(A), b_(b), lin_(lin), circ_(circ), quat_(quat) {}
    void propagate(const Ref<const MatrixXd>& cur, Ref<MatrixXd> prop) override { prop = (A_ * cur).colwise() + b_; }
    void motion(const Ref<const MatrixXd>& cur, Ref<MatrixXd> mot) override { mot = (A_ * cur).colwise() + b_; }
    bool setProperty(const std::string&) override { return false; }
    VectorDescription descr() const { return VectorDescription(lin_, circ_, 0, quat_ ? VectorDescription::CircularType::Quaternion : VectorDescription::CircularType::Euler); }
    VectorDescription getInputDescription() override { return descr(); }
    VectorDescription getStateDescription() override { return descr(); }
    MatrixXd A_; VectorXd b_; std::size_t lin_, circ_; bool quat_;
};

// The same motion, offered by a class that derives from AdditiveStateModel and overrides the virtual motion():
// whoever holds it as a StateModel must go through motion().  propagate() and getNoiseSample() are deliberately NOT
// a decomposition of motion() (a user model may clamp, saturate, wrap ... inside motion()), so a caller that
// re-assembles "propagate + noise sample" instead of calling motion() is told apart.
struct HAffAdd : public AdditiveStateModel {
    HAffAdd(const MatrixXd& A, const VectorXd& b, std::size_t lin, std::size_t circ, bool quat = false) : A_(A), b_(b), lin_(lin), circ_(circ), quat_(quat) {}
    void propagate(const Ref<const MatrixXd>& cur, Ref<MatrixXd> prop) override { prop = cur.array() + 1.0; }
    void motion(const Ref<const MatrixXd>& cur, Ref<MatrixXd> mot) override { mot = (A_ * cur).colwise() + b_; }
    MatrixXd getNoiseSample(const std::size_t num) override { return MatrixXd::Constant(A_.rows(), num, 0.5); }
    MatrixXd getNoiseCovarianceMatrix() override { return MatrixXd::Identity(A_.rows(), A_.rows()); }
    bool setProperty(const std::string&) override { return false; }
    VectorDescription descr() const { return VectorDescription(lin_, circ_, 0, quat_ ? VectorDescription::CircularType::Quaternion : VectorDescription::CircularType::Euler); }
    VectorDescription getInputDescription() override { return descr(); }
    VectorDescription getStateDescription() override { return descr(); }
    MatrixXd A_; VectorXd b_; std::size_t lin_, circ_; bool quat_;
};

struct HLTIState : public LTIStateModel {
    HLTIState(const MatrixXd& F, const MatrixXd& Q) : LTIStateModel(F, Q) {}
    VectorDescription getStateDescription() override { return VectorDescription(getStateTransitionMatrix().rows()); }
};

struct HLTIMeas : public LTIMeasurementModel {
    HLTIMeas(const MatrixXd& H, const MatrixXd& R) : LTIMeasurementModel(H, R) {}
    bool freeze(const Data&) override { return true; }
    std::pair<bool, Data> measure(const Data&) const override { return std::make_pair(false, Data()); }
};

struct HLin : public LinearModel {
    HLin(const LinearMatrixComponent& c, const MatrixXd& R, unsigned int seed) : LinearModel(c, R, seed) {}
    bool freeze(const Data&) override { return true; }
    std::pair<bool, Data> measure(const Data&) const override { return std::make_pair(false, Data()); }
    MatrixXd sample(int num) const { return getNoiseSample(num).second; }
};

static std::string rejectTag(const std::string& msg) {
    auto has = [&](const char* s) { return msg.find(s) != std::string::npos; };
    if (has("State transition matrix dimensions cannot be 0")) return "F0";
    if (has("Measurement matrix dimensions cannot be 0")) return "H0";
    if (has("Noise covariance matrix dimensions cannot be 0")) return "Q0";
    if (has("State transition matrix must be a square")) return "Fsq";
    if (has("Noise covariance matrix must be a square")) return "Qsq";
    if (has("Number of rows")) return "mismatch";
    if (has("Index component out of bound")) return "index";
    return "other";
}

static MatrixXd fillMat(long r, long c, double base) {
    MatrixXd m(r, c);
    for (long j = 0; j < c; ++j) for (long i = 0; i < r; ++i) m(i, j) = (i == j ? base + 1.0 : 0.25) + 0.125 * i;
    return m;
}

static MatrixXd spdMat(long r, long c) {
    MatrixXd m(r, c);
    for (long j = 0; j < c; ++j) for (long i = 0; i < r; ++i) m(i, j) = (i == j ? 2.0 + 0.5 * i : 0.25);
    return m;
}

// ---------------------------------------------------------------- white-noise acceleration

static std::string wna_fq(Toks& t) {
    long d = t.nat(); double T = t.dbl(), q = t.dbl(); t.done();
    WNA m(dimOf(d), T, q);
    MatrixXd F = m.getStateTransitionMatrix(), Q = m.getNoiseCovarianceMatrix();
    VectorDescription sd = m.getStateDescription(), id = m.getInputDescription();
    Out o; o.s("ok"); outShaped(o, F); outShaped(o, Q);
    o.n(sd.linear_components()); o.n(sd.circular_components()); o.n(sd.noise_components());
    o.n(id.linear_components()); o.n(id.circular_components()); o.n(id.noise_components());
    o.n(sd.total_size());
    return o.str();
}

// square-root probe: one call with n columns on a fresh object, with the draws it consumed
static void probeWna(Out& o, long d, double T, double q, long n) {
    const unsigned int ps = 777;
    WNA p(dimOf(d), T, q, ps); Twin tw(ps);
    MatrixXd Y = p.getNoiseSample(n);
    MatrixXd Z = tw.mat(n, n);
    o.s("P"); outShaped(o, Y); outShaped(o, Z);
}

static std::string wna_samp(Toks& t) {
    long d = t.nat(); double T = t.dbl(), q = t.dbl(); unsigned int seed = (unsigned int)t.nat();
    long k = t.nat(); std::vector<long> cs; for (long i = 0; i < k; ++i) cs.push_back(t.nat());
    t.done();
    WNA a(dimOf(d), T, q, seed), b(dimOf(d), T, q, seed), c(dimOf(d), T, q, seed + 1);
    Twin tw(seed);
    long n = a.getStateDescription().total_size();
    Out o; o.s("ok"); o.n(n); outShaped(o, a.getNoiseCovarianceMatrix());
    probeWna(o, d, T, q, n);
    bool repro = true, differs = false; long total = 0;
    o.n(k);
    for (long c_ : cs) {
        MatrixXd Y = a.getNoiseSample(c_), Yb = b.getNoiseSample(c_), Yc = c.getNoiseSample(c_);
        MatrixXd Z = tw.mat(n, c_);
        outShaped(o, Y); outShaped(o, Z);
        if (!vh::same_bits(Y, Yb)) repro = false;
        if (!vh::same_bits(Y, Yc)) differs = true;
        total += Y.size();
    }
    o.s(repro ? "repro" : "norepro"); o.s(total == 0 ? "nodraws" : (differs ? "differs" : "same"));
    return o.str();
}

// k successive motion calls on ONE object, batch sizes chosen by the caller (non-monotone)
static std::string wna_motion(Toks& t) {
    long d = t.nat(); double T = t.dbl(), q = t.dbl(); unsigned int seed = (unsigned int)t.nat();
    bool skip = t.flag(), exo = t.flag(), exoskip = t.flag();
    WNA m(dimOf(d), T, q, seed); Twin tw(seed);
    long n = m.getStateDescription().total_size();
    if (exo) { MatrixXd G = t.mat(n, n); VectorXd g = t.vec(n); m.add_exogenous_model(std::unique_ptr<ExogenousModel>(new HExo(G, g))); }
    long k = t.nat();
    std::vector<MatrixXd> Xs, outs;
    for (long b = 0; b < k; ++b) { long N = t.nat(); Xs.push_back(t.mat(n, N)); outs.push_back(t.mat(n, N)); }
    t.done();
    if (skip) m.skip("state", true);
    if (exo && exoskip) m.skip("exogenous", true);
    Out o; o.s("ok"); o.n(k);
    for (long b = 0; b < k; ++b) {
        MatrixXd X0 = Xs[b];
        m.motion(Xs[b], outs[b]);
        MatrixXd Z = tw.mat(n, Xs[b].cols());
        outShaped(o, outs[b]); outShaped(o, Z); o.s(vh::same_bits(Xs[b], X0) ? "in-same" : "in-modified");
    }
    // the next call continues the same stream
    MatrixXd Ynext = m.getNoiseSample(1); MatrixXd Znext = tw.mat(n, 1);
    outShaped(o, Ynext); outShaped(o, Znext);
    probeWna(o, d, T, q, n);
    return o.str();
}

// k successive getTransitionProbability calls on ONE object with different batch sizes
static std::string wna_trans(Toks& t) {
    long d = t.nat(); double T = t.dbl(), q = t.dbl(); long k = t.nat();
    WNA m(dimOf(d), T, q);
    long n = m.getStateDescription().total_size();
    std::vector<MatrixXd> prevs, curs;
    for (long b = 0; b < k; ++b) { long N = t.nat(); prevs.push_back(t.mat(n, N)); curs.push_back(t.mat(n, N)); }
    t.done();
    Out o; o.s("ok"); o.n(k);
    for (long b = 0; b < k; ++b) {
        VectorXd p = m.getTransitionProbability(prevs[b], curs[b]);
        o.n(p.size()); o.m(p);
    }
    return o.str();
}

// aliasing (same matrix as input and output) and command histories that net to nothing
static std::string wna_motion_x(Toks& t) {
    long d = t.nat(); double T = t.dbl(), q = t.dbl(); unsigned int seed = (unsigned int)t.nat();
    std::string mode = t.tok(); bool exo = t.flag(); long N = t.nat();
    WNA m(dimOf(d), T, q, seed); Twin tw(seed);
    long n = m.getStateDescription().total_size();
    MatrixXd X = t.mat(n, N);
    if (exo) { MatrixXd G = t.mat(n, n); VectorXd g = t.vec(n); m.add_exogenous_model(std::unique_ptr<ExogenousModel>(new HExo(G, g))); }
    t.done();
    MatrixXd out = MatrixXd::Constant(n, N, 4242.0);
    if (mode == "toggle") {
        m.skip("state", true); m.skip("state", false);
        if (exo) { m.skip("exogenous", true); m.skip("exogenous", false); }
        m.setProperty("reset"); m.setSamplingTime(T);
        m.motion(X, out);
    } else if (mode == "alias") {
        out = X;
        m.motion(out, out);
    } else throw vh::BadArgs("mode");
    MatrixXd Z = tw.mat(n, N);
    Out o; o.s("ok"); outShaped(o, out); outShaped(o, Z);
    probeWna(o, d, T, q, n);
    return o.str();
}

struct HAgent : public Agent {
    bool bufferData() override { return true; }
    Data getData() const override { return Data(); }
};

// setProperty / setSamplingTime plumbing; every getter queried twice
static std::string wna_plumb(Toks& t) {
    long d = t.nat(); double T = t.dbl(), q = t.dbl(), T2 = t.dbl(); t.done();
    WNA m(dimOf(d), T, q);
    Out o; o.s("ok");
    outShaped(o, m.getStateTransitionMatrix()); outShaped(o, m.getNoiseCovarianceMatrix());
    outShaped(o, m.getStateTransitionMatrix()); outShaped(o, m.getNoiseCovarianceMatrix());
    o.n(m.setProperty("reset") ? 1 : 0); o.n(m.setProperty("anything") ? 1 : 0);
    o.n(m.setSamplingTime(T2) ? 1 : 0);
    outShaped(o, m.getStateTransitionMatrix()); outShaped(o, m.getNoiseCovarianceMatrix());
    HAgent a; o.n(a.setProperty("reset") ? 1 : 0);
    long n = m.getStateDescription().total_size();
    HLTIState l(m.getStateTransitionMatrix(), m.getNoiseCovarianceMatrix());
    o.n(l.setProperty("reset") ? 1 : 0); o.n(l.setSamplingTime(T2) ? 1 : 0);
    o.s((vh::same_bits(l.getStateTransitionMatrix(), m.getStateTransitionMatrix()) && l.getNoiseCovarianceMatrix().rows() == n) ? "lti-same" : "lti-changed");
    return o.str();
}

// a moved WhiteNoiseAcceleration (move construction, move assignment, use through the base class)
static std::string wna_move(Toks& t) {
    long d = t.nat(); double T = t.dbl(), q = t.dbl(); long d2 = t.nat(); double T2 = t.dbl(), q2 = t.dbl();
    unsigned int seed = (unsigned int)t.nat(); long mode = t.nat(), c1 = t.nat(), c2 = t.nat(); t.done();
    std::unique_ptr<WNA> a(new WNA(dimOf(d), T, q, seed)); Twin tw(seed);
    long n = a->getStateDescription().total_size();
    MatrixXd Y1 = a->getNoiseSample(c1); MatrixXd Z1 = tw.mat(n, c1);
    std::unique_ptr<StateModel> b;
    if (mode == 0) b.reset(new WNA(std::move(*a)));
    else { WNA* w = new WNA(dimOf(d2), T2, q2, seed + 5); w->getNoiseSample(2); *w = std::move(*a); b.reset(w); }
    a.reset();                                   // the source is gone: the target must own everything it uses
    LinearStateModel* lb = dynamic_cast<LinearStateModel*>(b.get());
    Out o; o.s("ok"); o.n(b->getStateDescription().total_size());
    outShaped(o, lb->getStateTransitionMatrix()); outShaped(o, b->getNoiseCovarianceMatrix());
    outShaped(o, Y1); outShaped(o, Z1);
    MatrixXd Y2 = b->getNoiseSample(c2); MatrixXd Z2 = tw.mat(n, c2);
    outShaped(o, Y2); outShaped(o, Z2);
    probeWna(o, d, T, q, n);
    return o.str();
}

// a moved LTIStateModel: matrices, and what happens to the attached exogenous model / skip flag
static std::string lti_move(Toks& t) {
    long n = t.nat(), mode = t.nat(); t.done();
    MatrixXd F = fillMat(n, n, 1.0), Q = spdMat(n, n);
    HLTIState a(F, Q);
    a.add_exogenous_model(std::unique_ptr<ExogenousModel>(new HExo(MatrixXd::Identity(n, n), VectorXd::Ones(n))));
    a.skip("state", true);
    Out o; o.s("ok");
    if (mode == 0) {
        HLTIState b(std::move(a));
        o.s((vh::same_bits(b.getStateTransitionMatrix(), F) && vh::same_bits(b.getNoiseCovarianceMatrix(), Q)) ? "stored" : "altered");
        o.n(b.have_exogenous_model() ? 1 : 0); o.n(b.is_skipping() ? 1 : 0);
    } else {
        HLTIState b(MatrixXd::Identity(n + 1, n + 1), MatrixXd::Identity(n + 1, n + 1));
        b = std::move(a);
        o.s((vh::same_bits(b.getStateTransitionMatrix(), F) && vh::same_bits(b.getNoiseCovarianceMatrix(), Q)) ? "stored" : "altered");
        o.n(b.have_exogenous_model() ? 1 : 0); o.n(b.is_skipping() ? 1 : 0);
    }
    return o.str();
}

// ---------------------------------------------------------------- constructors

static std::string lti_state(Toks& t) {
    long fr = t.nat(), fc = t.nat(), qr = t.nat(), qc = t.nat(); t.done();
    MatrixXd F = fillMat(fr, fc, 1.0), Q = spdMat(qr, qc);
    try {
        HLTIState m(F, Q);
        bool same = vh::same_bits(m.getStateTransitionMatrix(), F) && vh::same_bits(m.getNoiseCovarianceMatrix(), Q)
                    && vh::same_bits(m.getJacobian(), F);
        return std::string("accept ") + (same ? "stored" : "altered");
    } catch (const std::runtime_error& e) { return "reject " + rejectTag(e.what()); }
}

static std::string lti_meas(Toks& t) {
    long hr = t.nat(), hc = t.nat(), rr = t.nat(), rc = t.nat(); t.done();
    MatrixXd H = fillMat(hr, hc, 1.0), R = spdMat(rr, rc);
    try {
        HLTIMeas m(H, R);
        bool same = vh::same_bits(m.getMeasurementMatrix(), H) && m.getNoiseCovarianceMatrix().first
                    && vh::same_bits(m.getNoiseCovarianceMatrix().second, R);
        return std::string("accept ") + (same ? "stored" : "altered");
    } catch (const std::runtime_error& e) { return "reject " + rejectTag(e.what()); }
}

static LinearModel::LinearMatrixComponent readComp(Toks& t, long& n, long& m) {
    n = t.nat(); m = t.nat();
    std::vector<std::size_t> idx; for (long i = 0; i < m; ++i) idx.push_back((std::size_t)t.unat());
    return std::make_pair((std::size_t)n, idx);
}

static std::string linmodel(Toks& t) {
    long n, m; auto comp = readComp(t, n, m);
    long rr = t.nat(), rc = t.nat(); t.done();
    MatrixXd R = spdMat(rr, rc);
    try {
        HLin lm(comp, R, 1);
        MatrixXd H = lm.getMeasurementMatrix();
        bool same = lm.getNoiseCovarianceMatrix().first && vh::same_bits(lm.getNoiseCovarianceMatrix().second, R);
        Out o; o.s("accept"); outShaped(o, H); o.s(same ? "stored" : "altered");
        return o.str();
    } catch (const std::runtime_error& e) { return "reject " + rejectTag(e.what()); }
}

// noise samples of the linear sensor model: probe + k successive calls, twin draws
static std::string lin_samp(Toks& t) {
    long n, m; auto comp = readComp(t, n, m);
    MatrixXd R = t.mat(m, m); unsigned int seed = (unsigned int)t.nat();
    long k = t.nat(); std::vector<long> cs; for (long i = 0; i < k; ++i) cs.push_back(t.nat());
    t.done();
    HLin a(comp, R, seed), b(comp, R, seed), c(comp, R, seed + 1), p(comp, R, 777);
    Twin tw(seed), tp(777);
    Out o; o.s("ok"); o.n(m);
    { MatrixXd Y = p.sample(m); MatrixXd Z = tp.mat(m, m); o.s("P"); outShaped(o, Y); outShaped(o, Z); }
    bool repro = true, differs = false; long total = 0;
    o.n(k);
    for (long c_ : cs) {
        MatrixXd Y = a.sample(c_), Yb = b.sample(c_), Yc = c.sample(c_);
        MatrixXd Z = tw.mat(m, c_);
        outShaped(o, Y); outShaped(o, Z);
        if (!vh::same_bits(Y, Yb)) repro = false;
        if (!vh::same_bits(Y, Yc)) differs = true;
        total += Y.size();
    }
    o.s(repro ? "repro" : "norepro"); o.s(total == 0 ? "nodraws" : (differs ? "differs" : "same"));
    return o.str();
}

// ---------------------------------------------------------------- simulated trajectory / sensor

struct Traj {
    std::unique_ptr<SimulatedStateModel> sim;
    long n = 0, L = 0;
    bool wna = false; long d = 0; double T = 0, q = 0; unsigned int seed = 0;
    std::size_t lin = 0, circ = 0;
};

static Traj readTraj(Toks& t) {
    Traj r; std::string kind = t.tok();
    if (kind == "aff") {
        r.n = t.nat(); r.L = t.nat(); r.lin = t.nat(); r.circ = t.nat(); bool quat = t.flag();
        MatrixXd A = t.mat(r.n, r.n); VectorXd b = t.vec(r.n), x0 = t.vec(r.n);
        // trajectories of even length are served by the AdditiveStateModel-derived twin of the same motion
        if (r.L % 2 == 0) r.sim.reset(new SimulatedStateModel(std::unique_ptr<StateModel>(new HAffAdd(A, b, r.lin, r.circ, quat)), x0, (unsigned int)r.L));
        else r.sim.reset(new SimulatedStateModel(std::unique_ptr<StateModel>(new HAff(A, b, r.lin, r.circ, quat)), x0, (unsigned int)r.L));
    } else if (kind == "wna") {
        r.wna = true; r.d = t.nat(); r.T = t.dbl(); r.q = t.dbl(); r.seed = (unsigned int)t.nat(); r.L = t.nat();
        std::unique_ptr<WNA> m(new WNA(dimOf(r.d), r.T, r.q, r.seed));
        r.n = m->getStateDescription().total_size(); r.lin = r.n; r.circ = 0;
        VectorXd x0 = t.vec(r.n);
        r.sim.reset(new SimulatedStateModel(std::move(m), x0, (unsigned int)r.L));
    } else throw vh::BadArgs("traj");
    return r;
}

// the draws the trajectory construction consumed, and the square-root probe
static void trajExtras(Out& o, const Traj& r) {
    if (!r.wna) return;
    Twin tw(r.seed);
    long steps = r.L > 0 ? r.L - 1 : 0;
    MatrixXd Z = tw.mat(r.n, steps);
    o.s("Z"); outShaped(o, Z);
    probeWna(o, r.d, r.T, r.q, r.n);
}

static void outData(Out& o, const Data& dta) {
    if (!dta.has_value()) { o.s("g").n(0); return; }
    MatrixXd x = any::any_cast<MatrixXd>(dta);
    if (x.cols() != 1) { o.s("gbad"); outShaped(o, x); return; }
    o.s("g").n(x.rows()); o.m(x);
}

static std::string sim(Toks& t) {
    Traj r = readTraj(t);
    long nops = t.nat(); std::vector<std::string> ops; for (long i = 0; i < nops; ++i) ops.push_back(t.tok());
    t.done();
    Out o; o.s("ok");
    for (const std::string& op : ops) {
        if (op == "b") o.s(r.sim->bufferData() ? "T" : "F");
        else if (op == "g") outData(o, r.sim->getData());
        else if (op == "r") { Mute mu; bool ok = r.sim->setProperty("reset"); o.s(ok ? "T" : "F"); }
        else if (op == "u") { Mute mu; bool ok = r.sim->setProperty("restart"); o.s(ok ? "T" : "F"); }
        else throw vh::BadArgs("op");
    }
    o.s("|"); trajExtras(o, r);
    return o.str();
}

static std::string sensor(Toks& t) {
    Traj r = readTraj(t);
    long n, m; auto comp = readComp(t, n, m);
    MatrixXd R = t.mat(m, m); unsigned int sseed = (unsigned int)t.nat();
    long nops = t.nat(); std::vector<std::string> ops; for (long i = 0; i < nops; ++i) ops.push_back(t.tok());
    t.done();
    SimulatedStateModel* raw = r.sim.get();
    std::unique_ptr<SimulatedLinearSensor> s;
    try { s.reset(new SimulatedLinearSensor(std::move(r.sim), comp, R, sseed)); }
    catch (const std::runtime_error& e) { return "reject " + rejectTag(e.what()); }
    Twin tw(sseed);
    Out o; o.s("ok");
    VectorDescription id = s->getInputDescription(), md = s->getMeasurementDescription();
    o.n(id.linear_components()); o.n(id.circular_components()); o.n(id.noise_components());
    o.n(id.circular_type == VectorDescription::CircularType::Quaternion ? 1 : 0); o.n(id.total_size()); o.n(id.dof_size());
    o.n(md.linear_components()); o.n(md.circular_components()); o.n(md.noise_components());
    o.n(md.circular_type == VectorDescription::CircularType::Quaternion ? 1 : 0); o.n(md.total_size());
    {   // queries are idempotent
        VectorDescription id2 = s->getInputDescription(), md2 = s->getMeasurementDescription();
        bool same = id2.total_size() == id.total_size() && id2.noise_components() == id.noise_components() && md2.total_size() == md.total_size()
                    && vh::same_bits(s->getMeasurementMatrix(), s->getMeasurementMatrix());
        o.s(same ? "q-same" : "q-differs");
    }
    outShaped(o, s->getMeasurementMatrix());
    std::vector<double> draws;
    for (const std::string& op : ops) {
        if (op == "f") {
            bool ok = s->freeze();
            o.s(ok ? "T" : "F");
            // one window of twin draws per freeze call; the check decides which windows were consumed
            for (long i = 0; i < m; ++i) draws.push_back(tw.next());
        } else if (op == "m") {
            std::pair<bool, Data> y = s->measure();
            o.s(y.first ? "m" : "mF");
            if (!y.second.has_value()) o.n(0);
            else { MatrixXd v = any::any_cast<MatrixXd>(y.second); if (v.size() == 0) o.n(0); else if (v.cols() != 1) { o.s("bad"); outShaped(o, v); } else { o.n(v.rows()); o.m(v); } }
        } else if (op == "r") { Mute mu; bool ok = raw->setProperty("reset"); o.s(ok ? "T" : "F"); }
        else if (op == "b") o.s(raw->bufferData() ? "T" : "F");
        else throw vh::BadArgs("op");
    }
    // the stream continues where the model says it does: one more draw of each generator
    o.s("|"); o.s("D").n((long)draws.size()); for (double x : draws) o.d(x);
    { HLin p(comp, R, 777); Twin tp(777); MatrixXd Y = p.sample(m); MatrixXd Z = tp.mat(m, m); o.s("PR"); outShaped(o, Y); outShaped(o, Z); }
    trajExtras(o, r);
    return o.str();
}

// ---------------------------------------------------------------- grid initialiser

static std::string grid(Toks& t) {
    bool ctor2 = t.flag();
    double xinf = t.dbl(), xsup = t.dbl(), yinf = t.dbl(), ysup = t.dbl();
    long nx = t.nat(), ny = t.nat(), R = t.nat(), N = t.nat();
    MatrixXd st = t.mat(R, N); VectorXd w = t.vec(N); t.done();
    ParticleSet ps(N, R);
    ps.state() = st; ps.weight() = w;
    std::unique_ptr<InitSurveillanceAreaGrid> g;
    if (ctor2) g.reset(new InitSurveillanceAreaGrid(xsup, ysup, (unsigned int)nx, (unsigned int)ny));
    else g.reset(new InitSurveillanceAreaGrid(xinf, xsup, yinf, ysup, (unsigned int)nx, (unsigned int)ny));
    bool ok = g->initialize(ps);
    Out o; o.s("ok"); o.s(ok ? "T" : "F");
    MatrixXd s2 = ps.state(); VectorXd w2 = ps.weight();
    outShaped(o, s2); o.n(w2.size()); o.m(w2);
    // a second call of the same object on an identical set must do the same
    ParticleSet again(N, R);
    again.state() = st; again.weight() = w;
    bool ok2 = g->initialize(again);
    MatrixXd s3 = again.state(); MatrixXd w3 = again.weight(), w2m = w2;
    o.s((ok2 == ok && vh::same_bits(s2, s3) && vh::same_bits(w2m, w3)) ? "again-same" : "again-differs");
    // a copy of the initialiser behaves as the original
    InitSurveillanceAreaGrid cp(*g);
    g.reset();
    ParticleSet third(N, R);
    third.state() = st; third.weight() = w;
    bool ok3 = cp.initialize(third);
    MatrixXd s4 = third.state(), w4 = third.weight();
    o.s((ok3 == ok && vh::same_bits(s2, s4) && vh::same_bits(w2m, w4)) ? "copy-same" : "copy-differs");
    return o.str();
}

int main() {
    return vh::run([](const std::string& op, Toks& t, std::string& out) {
        if (op == "wna_fq") { out = wna_fq(t); return true; }
        if (op == "wna_samp") { out = wna_samp(t); return true; }
        if (op == "wna_motion") { out = wna_motion(t); return true; }
        if (op == "wna_trans") { out = wna_trans(t); return true; }
        if (op == "wna_motion_x") { out = wna_motion_x(t); return true; }
        if (op == "wna_plumb") { out = wna_plumb(t); return true; }
        if (op == "wna_move") { out = wna_move(t); return true; }
        if (op == "lti_move") { out = lti_move(t); return true; }
        if (op == "lti_state") { out = lti_state(t); return true; }
        if (op == "lti_meas") { out = lti_meas(t); return true; }
        if (op == "linmodel") { out = linmodel(t); return true; }
        if (op == "lin_samp") { out = lin_samp(t); return true; }
        if (op == "sim") { out = sim(t); return true; }
        if (op == "sensor") { out = sensor(t); return true; }
        if (op == "grid") { out = grid(t); return true; }
        return false;
    });
}
