/-
Model of `bfl::any::any` (src/BayesFilters/include/BayesFilters/any.h, a port of boost::any;
`bfl::Data = any::any`, Data.h), transcribed member function by member function.

The C++ object `any` owns a raw pointer `placeholder* content` to a heap-allocated
`holder<ValueType>` (null when empty).  The model makes the heap explicit:

* a heap `Id → Option Val` of holder cells (a cell stores the held value together with its
  dynamic type tag — what `holder<T>::type()` returns), a bump allocator `next`, and a ghost
  log of allocations (`new holder`), frees (`delete content`), copy- and move-constructions of
  held objects;
* objects (`any` instances): the named containers of a pool and one temporary (`any(rhs)`,
  `any()` inside the assignment operators and `reset`) — each `dead` (not constructed /
  destroyed) or `live` with `content : Option Id`;
* primitive member functions (constructors, `swap`, destructor) as state transformers and the
  composite ones (`operator=` ×3, `reset`) as the same compositions the C++ source writes;
* overload resolution (which constructor / assignment operator a given argument category
  selects, including the `enable_if` constraints of the perfect-forwarding constructor) as the
  functions `ctorFromAny`, `ctorFromVal`, `assignFromAny`, `assignFromVal`.

Core Lean only (no Mathlib): the driver executes these very definitions.
-/
namespace BFL.AnyBox

/-- Held types of the pool: `int`, `double`, `std::string`, `Eigen::MatrixXd`, instance-counting probe. -/
inductive Tag where
  | int | dbl | str | mat | probe
  | thr        -- a probe whose copy constructor throws on demand
  deriving DecidableEq, Repr, Inhabited

/-- A value of a held type: its type tag and an integer code naming the value
    (`int`: the number, `double`: code + 0.5, string / matrix: a payload built from the code,
    probe: its id).  Code `-1` for string / matrix / probe is the moved-from state. -/
structure Val where
  tag : Tag
  code : Int
  deriving DecidableEq, Repr, Inhabited

/-- State in which the move constructor of the held type leaves its source
    (`int`, `double`: unchanged; `std::string`: empty; `MatrixXd`: 0×0; probe: id −1). -/
def movedFrom (v : Val) : Val :=
  match v.tag with
  | .int => v
  | .dbl => v
  | .str => { v with code := -1 }
  | .mat => { v with code := -1 }
  | .probe => { v with code := -1 }
  | .thr => { v with code := -1 }

abbrev Id := Nat

/-- `any` objects: the named containers of the pool and the one temporary the member functions create. -/
inductive Obj where
  | named (k : Nat)
  | tmp
  deriving DecidableEq, Repr

/-- An object is not constructed / destroyed (`dead`) or alive with its `content` pointer. -/
inductive Slot where
  | dead
  | live (content : Option Id)
  deriving DecidableEq, Repr

/-- Ghost history. -/
inductive Ev where
  | alloc (i : Id)     -- `new holder<T>(…)` returned cell i
  | free (i : Id)      -- `delete content` on cell i
  | copy (t : Tag)     -- a copy construction of an object of held type t
  | move (t : Tag)     -- a move construction of an object of held type t
  deriving DecidableEq, Repr

structure St where
  heap : Id → Option Val
  next : Id
  objs : Obj → Slot
  log : List Ev          -- newest first

def upd {α β : Type} [DecidableEq α] (f : α → β) (a : α) (b : β) : α → β :=
  fun x => if x = a then b else f x

def init : St := { heap := fun _ => none, next := 0, objs := fun _ => .dead, log := [] }

/-- `content` of a live object (`none` = `nullptr`; also `none` for a dead object, which no operation reads). -/
def content (s : St) (o : Obj) : Option Id :=
  match s.objs o with
  | .live c => c
  | .dead => none

def isLive (s : St) (o : Obj) : Bool :=
  match s.objs o with
  | .live _ => true
  | .dead => false

/-- write the `content` member (also: begin the lifetime of `o` with that content) -/
def setContent (s : St) (o : Obj) (c : Option Id) : St :=
  { s with objs := upd s.objs o (.live c) }

def logEv (s : St) (e : Ev) : St := { s with log := e :: s.log }

/-- `new holder<T>(value)`: a fresh cell `s.next` holding `v`; `how` records whether the held
    member was copy- or move-constructed (`holder(const T&)` / `holder(T&&)`). -/
def newHolder (s : St) (v : Val) (how : Ev) : St :=
  { heap := upd s.heap s.next (some v), next := s.next + 1, objs := s.objs,
    log := how :: .alloc s.next :: s.log }

/-- `delete p` (deleting a null pointer does nothing) -/
def deletePtr (s : St) (p : Option Id) : St :=
  match p with
  | none => s
  | some i => { s with heap := upd s.heap i none, log := .free i :: s.log }

/-! ### Constructors, `swap`, destructor (any.h:85-140, 203-228) -/

/-- `any() noexcept : content(nullptr)` -/
def ctorDefault (s : St) (o : Obj) : St := setContent s o none

/-- `any(const any& other) : content(other.content ? other.content->clone() : nullptr)`,
    `holder::clone() { return new holder(held); }` -/
def ctorCopy (s : St) (o src : Obj) : St :=
  match content s src with
  | none => setContent s o none
  | some i =>
    match s.heap i with
    | none => setContent s o none          -- dangling `content`: excluded by the invariant `Own`
    | some v => setContent (newHolder s v (.copy v.tag)) o (some s.next)

/-- `any(any&& other) noexcept : content(other.content) { other.content = nullptr; }` -/
def ctorMove (s : St) (o src : Obj) : St :=
  setContent (setContent s o (content s src)) src none

/-- `any(const ValueType& value) : content(new holder<T>(value))` — `holder(const T&)` copies. -/
def ctorValCopy (s : St) (o : Obj) (v : Val) : St :=
  setContent (newHolder s v (.copy v.tag)) o (some s.next)

/-- `any(ValueType&& value, …) : content(new holder<T>(static_cast<ValueType&&>(value)))` with an
    rvalue argument — `holder(T&&)` moves. -/
def ctorValMove (s : St) (o : Obj) (v : Val) : St :=
  setContent (newHolder s v (.move v.tag)) o (some s.next)

/-- `any& swap(any& rhs) noexcept { std::swap(content, rhs.content); }`
    (`tmp = a; a = b; b = tmp`, also when both are the same object). -/
def swap (s : St) (a b : Obj) : St :=
  let ca := content s a
  let cb := content s b
  setContent (setContent s a cb) b ca

/-- `~any() noexcept { delete content; }` — then the object's lifetime ends. -/
def dtor (s : St) (o : Obj) : St :=
  let s' := deletePtr s (content s o)
  { s' with objs := upd s'.objs o .dead }

/-! ### Overload resolution -/

/-- Value category and constness of a call argument of type `U`: `U&`, `const U&`, `U&&`, `const U&&`. -/
inductive Cat where
  | lref | clref | rref | crref
  deriving DecidableEq, Repr, Inhabited

/-- Construction of an `any` from an `any` argument.
    * `any&&`: the move constructor (a non-template beats the forwarding template on a tie).
    * `const any&`: the copy constructor (beats the `const ValueType&` template on a tie).
    * `any&` (non-const lvalue): the forwarding constructor would be an exact match with
      `ValueType = any&` but is disabled by `!is_same<any&, ValueType>`; the copy constructor remains.
    * `const any&&`: the forwarding constructor with `ValueType = const any` is disabled by
      `!is_const<ValueType>`; the copy constructor binds the const rvalue. -/
def ctorFromAny (s : St) (o src : Obj) : Cat → St
  | .rref => ctorMove s o src
  | .clref => ctorCopy s o src
  | .lref => ctorCopy s o src
  | .crref => ctorCopy s o src

/-- Construction of an `any` from a value of a held type `T`.
    * `T&&`: forwarding constructor with `ValueType = T`, `holder<T>(static_cast<T&&>(value))` moves.
    * `T&`: forwarding constructor with `ValueType = T&` (`decay` gives `holder<T>`;
      `static_cast<T&>(value)` is an lvalue, so `holder(const T&)` copies).
    * `const T&`: `any(const ValueType&)` (more specialised than the forwarding one), copies.
    * `const T&&`: forwarding constructor disabled by `!is_const<ValueType>`; `any(const ValueType&)` copies. -/
def ctorFromVal (s : St) (o : Obj) (v : Val) : Cat → St
  | .rref => ctorValMove s o v
  | .lref => ctorValCopy s o v
  | .clref => ctorValCopy s o v
  | .crref => ctorValCopy s o v

/-- The caller's value object after it was passed to a constructor / assignment. -/
def srcAfter (v : Val) : Cat → Val
  | .rref => movedFrom v
  | _ => v

/-! ### Assignment operators and `reset` (any.h:152-215) -/

/-- `any& operator=(const any& rhs) { any(rhs).swap(*this); return *this; }`
    (the temporary is destroyed at the end of the full expression). -/
def assignCopy (s : St) (a b : Obj) : St :=
  dtor (swap (ctorCopy s .tmp b) .tmp a) .tmp

/-- `any& operator=(any&& rhs) noexcept { if (this == &rhs) return *this;
     rhs.swap(*this); any().swap(rhs); return *this; }` -/
def assignMove (s : St) (a b : Obj) : St :=
  if a = b then s
  else dtor (swap (ctorDefault (swap s b a) .tmp) .tmp b) .tmp

/-- `template <class ValueType> any& operator=(ValueType&& rhs)
     { any(static_cast<ValueType&&>(rhs)).swap(*this); return *this; }` with an `any` argument
    (selected for `any&` and `const any&&`, where it is a better match than `operator=(const any&)`). -/
def assignTemplateAny (s : St) (a b : Obj) (c : Cat) : St :=
  dtor (swap (ctorFromAny s .tmp b c) .tmp a) .tmp

/-- Assignment `a = b` from an `any` of the given category. -/
def assignFromAny (s : St) (a b : Obj) : Cat → St
  | .clref => assignCopy s a b
  | .rref => assignMove s a b
  | .lref => assignTemplateAny s a b .lref
  | .crref => assignTemplateAny s a b .crref

/-- Assignment `a = value` (always the template `operator=`). -/
def assignFromVal (s : St) (a : Obj) (v : Val) (c : Cat) : St :=
  dtor (swap (ctorFromVal s .tmp v c) .tmp a) .tmp

/-- `void reset() noexcept { any().swap(*this); }` -/
def reset (s : St) (a : Obj) : St :=
  dtor (swap (ctorDefault s .tmp) .tmp a) .tmp

/-! ### Observers and casts (any.h:235-249, 351-427) -/

/-- `bool has_value() const noexcept { return content; }` -/
def hasValue (s : St) (o : Obj) : Bool := (content s o).isSome

/-- `type()`: `content ? content->type() : typeid(void)`; `none` is `void`. -/
def typeOf (s : St) (o : Obj) : Option Tag :=
  match content s o with
  | none => none
  | some i =>
    match s.heap i with
    | none => none                        -- dangling `content`: excluded by `Own`
    | some v => some v.tag

/-- `any_cast<T>(any* operand)`:
    `operand && operand->type() == typeid(T) ? &static_cast<holder<T>*>(operand->content)->held : nullptr`.
    The result is the cell whose `held` member the pointer designates. -/
def castPtr (s : St) (operand : Option Obj) (t : Tag) : Option Id :=
  match operand with
  | none => none
  | some o => if typeOf s o = some t then content s o else none

/-- `any_cast<T>(const any* operand)`: `any_cast<T>(const_cast<any*>(operand))`. -/
def castPtrConst (s : St) (operand : Option Obj) (t : Tag) : Option Id := castPtr s operand t

/-- The object a cast pointer designates. -/
def deref (s : St) (p : Option Id) : Option Val := p.bind s.heap

/-- `any_cast<T&>(any&)`: pointer form on `addressof(operand)`; null ⇒ `throw bad_any_cast()` (`none`). -/
def castRef (s : St) (o : Obj) (t : Tag) : Option Id := castPtr s (some o) t

/-- Forms of the value-returning cast. -/
inductive VForm where
  | lval      -- `T x = any_cast<T>(a)`             (any&): copy-initialised from `*result`
  | clval     -- `T x = any_cast<T>(ca)`            (const any&): `any_cast<const T&>(const_cast<any&>(operand))`, then copied
  | rval      -- `T x = any_cast<T>(std::move(a))`  (any&&): `return any_cast<T>(operand)` — operand is an lvalue there: copies
  | rvalMove  -- `T x = any_cast<T&&>(std::move(a))`: returns `T&&`; `x` is move-constructed from the held object
  deriving DecidableEq, Repr, Inhabited

/-- Copying forms: on success one copy construction of the held type; the container is unchanged. -/
def castCopy (s : St) (o : Obj) (t : Tag) : St × Option Val :=
  match castRef s o t with
  | none => (s, none)                      -- throws bad_any_cast
  | some i =>
    match s.heap i with
    | none => (s, none)                    -- dangling: excluded by `Own`
    | some v => (logEv s (.copy v.tag), some v)

/-- Moving form: the held object is left moved-from; the container stays non-empty. -/
def castMoveOut (s : St) (o : Obj) (t : Tag) : St × Option Val :=
  match castRef s o t with
  | none => (s, none)
  | some i =>
    match s.heap i with
    | none => (s, none)
    | some v => ({ s with heap := upd s.heap i (some (movedFrom v)), log := .move v.tag :: s.log }, some v)

def castValue (s : St) (o : Obj) (t : Tag) : VForm → St × Option Val
  | .lval => castCopy s o t
  | .clval => castCopy s o t
  | .rval => castCopy s o t
  | .rvalMove => castMoveOut s o t

/-- `if (T* p = any_cast<T>(&a)) *p = v;` — mutation of the held object through the pointer form. -/
def poke (s : St) (o : Obj) (v : Val) : St :=
  match castPtr s (some o) v.tag with
  | none => s
  | some i => { s with heap := upd s.heap i (some v) }

/-- `any_cast<T&>(a) = v;` — mutation of the held object through the reference form; `false`: the
    cast threw `bad_any_cast` and nothing was written. -/
def pokeRef (s : St) (o : Obj) (v : Val) : St × Bool :=
  match castRef s o v.tag with
  | none => (s, false)
  | some i => ({ s with heap := upd s.heap i (some v) }, true)

/-- The value held by a container (`none` when empty). -/
def held (s : St) (o : Obj) : Option Val := deref s (content s o)

/-! ### Operations on a pool of `n` named containers -/

inductive Op where
  | dflt (k : Nat)                              -- construct `any()` in slot k
  | ctorAny (k src : Nat) (c : Cat)             -- construct slot k from the any in slot src
  | ctorVal (k : Nat) (c : Cat) (v : Val)       -- construct slot k from a value
  | asgnAny (a b : Nat) (c : Cat)               -- a = b
  | asgnVal (a : Nat) (c : Cat) (v : Val)       -- a = value
  | reset (a : Nat)
  | swap (a b : Nat) (free : Bool)              -- a.swap(b) / swap(a, b) (`lhs.swap(rhs)`)
  | destroy (a : Nat)                           -- ~any()
  | poke (a : Nat) (v : Val)
  | pokeRef (a : Nat) (v : Val)                 -- any_cast<T&>(a) = v
  | castVal (a : Nat) (t : Tag) (f : VForm)
  | castPtr (a : Option Nat) (t : Tag) (const : Bool)   -- `none`: null pointer argument
  deriving Repr, Inhabited

inductive Out where
  | invalid                 -- precondition of the call not met (destroyed container, construction over a live one): not executed
  | done
  | src (v : Val)           -- the caller's value object after the call
  | cast (r : Option Val)   -- `none`: nullptr / bad_any_cast
  | threw                   -- the copy constructor of a held object threw; its exception left the call
  deriving DecidableEq, Repr, Inhabited

def liveN (s : St) (k : Nat) : Bool := isLive s (.named k)

/-- slot k may be constructed: inside the pool and not alive -/
def freeN (n : Nat) (s : St) (k : Nat) : Bool := decide (k < n) && !liveN s k

def step (n : Nat) (s : St) : Op → St × Out
  | .dflt k =>
    if freeN n s k then (ctorDefault s (.named k), .done) else (s, .invalid)
  | .ctorAny k src c =>
    if freeN n s k && liveN s src then (ctorFromAny s (.named k) (.named src) c, .done) else (s, .invalid)
  | .ctorVal k c v =>
    if freeN n s k then (ctorFromVal s (.named k) v c, .src (srcAfter v c)) else (s, .invalid)
  | .asgnAny a b c =>
    if liveN s a && liveN s b then (assignFromAny s (.named a) (.named b) c, .done) else (s, .invalid)
  | .asgnVal a c v =>
    if liveN s a then (assignFromVal s (.named a) v c, .src (srcAfter v c)) else (s, .invalid)
  | .reset a =>
    if liveN s a then (reset s (.named a), .done) else (s, .invalid)
  | .swap a b _ =>
    if liveN s a && liveN s b then (swap s (.named a) (.named b), .done) else (s, .invalid)
  | .destroy a =>
    if liveN s a then (dtor s (.named a), .done) else (s, .invalid)
  | .poke a v =>
    if liveN s a then (poke s (.named a) v, .done) else (s, .invalid)
  | .pokeRef a v =>
    if liveN s a then
      let r := pokeRef s (.named a) v
      (r.1, if r.2 then .done else .cast none)
    else (s, .invalid)
  | .castVal a t f =>
    if liveN s a then
      let r := castValue s (.named a) t f
      (r.1, .cast r.2)
    else (s, .invalid)
  | .castPtr none t c =>
    (s, .cast (deref s (if c then castPtrConst s none t else castPtr s none t)))
  | .castPtr (some a) t c =>
    if liveN s a then
      (s, .cast (deref s (if c then castPtrConst s (some (.named a)) t else castPtr s (some (.named a)) t)))
    else (s, .invalid)

def run (n : Nat) (s : St) (ops : List Op) : St :=
  ops.foldl (fun s op => (step n s op).1) s

/-- destroy every container of the pool that is still alive -/
def destroyAll (n : Nat) (s : St) : St :=
  run n s ((List.range n).map Op.destroy)

/-! ### Exceptions thrown by the copy constructor of a held type

Where `any.h` copy-constructs a held object: in `new holder<T>(value)` (value construction from an lvalue /
const rvalue, and `clone()` inside the copy constructor — hence inside every copy-and-swap assignment, whose
temporary is built *before* anything is swapped), and in the return statement of the copying value casts.
`copied` names the value an operation copy-constructs first, if it does; `stepThrow` is the operation when
that copy construction throws: for the `new` expressions storage was obtained and is released again by the
new-expression, no `any` comes to life (neither the container under construction nor the temporary of an
assignment), the exception leaves the call before `swap`; for the value casts nothing happened at all. -/

/-- storage for a holder obtained and released again because the constructor of the held member threw -/
def failedNew (s : St) : St :=
  { s with next := s.next + 1, log := .free s.next :: .alloc s.next :: s.log }

def copied (n : Nat) (s : St) : Op → Option Val
  | .ctorAny k src c =>
    if freeN n s k && liveN s src && decide (c ≠ .rref) then held s (.named src) else none
  | .ctorVal k c v => if freeN n s k && decide (c ≠ .rref) then some v else none
  | .asgnAny a b c =>
    if liveN s a && liveN s b && decide (c ≠ .rref) then held s (.named b) else none
  | .asgnVal a c v => if liveN s a && decide (c ≠ .rref) then some v else none
  | .castVal a t f =>
    if liveN s a && decide (f ≠ .rvalMove) && decide (typeOf s (.named a) = some t) then held s (.named a) else none
  | _ => none

def stepThrow (n : Nat) (s : St) (op : Op) : St × Out :=
  match copied n s op with
  | none => step n s op                      -- no held object is copy-constructed: nothing can throw
  | some _ =>
    match op with
    | .castVal _ _ _ => (s, .threw)
    | _ => (failedNew s, .threw)

/-- An operation, optionally run while the copy constructor of the `thr` probe is armed to throw. -/
def stepX (n : Nat) (s : St) (x : Op × Bool) : St × Out :=
  match x.2, copied n s x.1 with
  | true, some v => if v.tag = .thr then stepThrow n s x.1 else step n s x.1
  | _, _ => step n s x.1

def runX (n : Nat) (s : St) (xs : List (Op × Bool)) : St :=
  xs.foldl (fun s x => (stepX n s x).1) s

/-! ### What a client can observe of one slot (printed by the driver, compared with the harness) -/

def allTags : List Tag := [.int, .dbl, .str, .mat, .probe, .thr]

structure SlotView where
  hasValue : Bool
  type : Option Tag
  ptr : List (Option Val)      -- per tag of `allTags`: `*any_cast<T>(&a)` or null
  cptr : List (Option Val)     -- per tag: `*any_cast<T>(&const a)` or null
  ref : List (Option Val)      -- per tag: `any_cast<const T&>(a)` or bad_any_cast
  deriving DecidableEq, Repr

def viewSlot (s : St) (k : Nat) : Option SlotView :=
  if liveN s k then
    let o := Obj.named k
    some { hasValue := hasValue s o, type := typeOf s o,
           ptr := allTags.map fun t => deref s (castPtr s (some o) t),
           cptr := allTags.map fun t => deref s (castPtrConst s (some o) t),
           ref := allTags.map fun t => deref s (castRef s o t) }
  else none

/-- number of events of the log satisfying `p` -/
def countEv (s : St) (p : Ev → Bool) : Nat := s.log.countP p

def liveCells (s : St) : List Id := (List.range s.next).filter fun i => (s.heap i).isSome

def liveOfTag (s : St) (t : Tag) : Nat :=
  ((List.range s.next).filter fun i => match s.heap i with | some v => v.tag == t | none => false).length

/-! ### Specification predicates (used by the theorems of BFL/Props/C20.lean) -/

/-- Ownership discipline of the heap of holder cells.
    * `inj`: two objects never point to the same cell (no aliasing, no shallow copy);
    * `live`: a `content` pointer never designates a freed / never allocated cell (no use after free);
    * `owned`: every allocated cell is the `content` of some live object (nothing is orphaned = leaked);
    * `fresh`: cells at or above the allocation counter are unallocated;
    * `allocOnce`, `freeOnce`: in the ghost log every cell below the counter was allocated exactly once,
      and freed exactly once if it is no longer allocated and never otherwise (no double free). -/
structure Own (s : St) : Prop where
  inj : ∀ a b i, content s a = some i → content s b = some i → a = b
  live : ∀ a i, content s a = some i → s.heap i ≠ none
  owned : ∀ i, s.heap i ≠ none → ∃ a, content s a = some i
  fresh : ∀ i, s.next ≤ i → s.heap i = none
  allocOnce : ∀ i, s.log.count (.alloc i) = if i < s.next then 1 else 0
  freeOnce : ∀ i, s.log.count (.free i) = if i < s.next ∧ s.heap i = none then 1 else 0

/-- State between two client operations on a pool of `n` containers: ownership holds, the temporary
    does not exist, nothing lives outside the pool. -/
structure Inv (n : Nat) (s : St) : Prop where
  own : Own s
  tmpDead : isLive s .tmp = false
  bound : ∀ k, n ≤ k → isLive s (.named k) = false

/-! ### Value-semantic specification: what a client may rely on, with no heap and no pointers -/

/-- Abstract state of a pool: slot k is destroyed (`none`), empty (`some none`) or holds a value. -/
abbrev APool := Nat → Option (Option Val)

def specStep (n : Nat) (p : APool) : Op → APool × Out
  | .dflt k =>
    if k < n ∧ p k = none then (upd p k (some none), .done) else (p, .invalid)
  | .ctorAny k src c =>
    if k < n ∧ p k = none ∧ (p src).isSome = true then
      ((match c with
        | .rref => upd (upd p k (p src)) src (some none)     -- moved: the source is left empty
        | _ => upd p k (p src)), .done)                       -- copied: the source keeps its value
    else (p, .invalid)
  | .ctorVal k c v =>
    if k < n ∧ p k = none then (upd p k (some (some v)), .src (srcAfter v c)) else (p, .invalid)
  | .asgnAny a b c =>
    if (p a).isSome = true ∧ (p b).isSome = true then
      ((match c with
        | .rref => if a = b then p else upd (upd p a (p b)) b (some none)
        | _ => upd p a (p b)), .done)
    else (p, .invalid)
  | .asgnVal a c v =>
    if (p a).isSome = true then (upd p a (some (some v)), .src (srcAfter v c)) else (p, .invalid)
  | .reset a =>
    if (p a).isSome = true then (upd p a (some none), .done) else (p, .invalid)
  | .swap a b _ =>
    if (p a).isSome = true ∧ (p b).isSome = true then (upd (upd p a (p b)) b (p a), .done) else (p, .invalid)
  | .destroy a =>
    if (p a).isSome = true then (upd p a none, .done) else (p, .invalid)
  | .poke a v =>
    match p a with
    | none => (p, .invalid)
    | some none => (p, .done)
    | some (some w) => if w.tag = v.tag then (upd p a (some (some v)), .done) else (p, .done)
  | .pokeRef a v =>
    match p a with
    | none => (p, .invalid)
    | some none => (p, .cast none)
    | some (some w) => if w.tag = v.tag then (upd p a (some (some v)), .done) else (p, .cast none)
  | .castVal a t f =>
    match p a with
    | none => (p, .invalid)
    | some none => (p, .cast none)
    | some (some w) =>
      if w.tag = t then
        ((if f = .rvalMove then upd p a (some (some (movedFrom w))) else p), .cast (some w))
      else (p, .cast none)
  | .castPtr none _ _ => (p, .cast none)
  | .castPtr (some a) t _ =>
    match p a with
    | none => (p, .invalid)
    | some none => (p, .cast none)
    | some (some w) => (p, .cast (if w.tag = t then some w else none))

def specRun (n : Nat) (p : APool) (ops : List Op) : APool :=
  ops.foldl (fun p op => (specStep n p op).1) p

/-- What the heap model shows of its pool to a client. -/
def absPool (s : St) : APool :=
  fun k => bif liveN s k then some (held s (.named k)) else none

/-! ### The specification with exceptions, and what a client observes of the abstract pool

`specCopied` reads off the abstract pool which held value an operation copy-constructs (the counterpart of
`copied`); `specStepX` is the specification of an operation that may be run with the throwing probe armed: a
throwing operation changes nothing.  `specViewSlot` / `specLiveOfTag` are what a client observes of a slot and
how many held objects of a type are alive, as functions of the abstract pool alone.  The driver entry `anyspec`
executes these (no heap, no pointers) on the same case lines as the implementation. -/

def aHeld (p : APool) (k : Nat) : Option Val := (p k).join

def specCopied (n : Nat) (p : APool) : Op → Option Val
  | .ctorAny k src c =>
    if (decide (k < n) && (p k).isNone) && (p src).isSome && decide (c ≠ .rref) then aHeld p src else none
  | .ctorVal k c v => if (decide (k < n) && (p k).isNone) && decide (c ≠ .rref) then some v else none
  | .asgnAny a b c =>
    if (p a).isSome && (p b).isSome && decide (c ≠ .rref) then aHeld p b else none
  | .asgnVal a c v => if (p a).isSome && decide (c ≠ .rref) then some v else none
  | .castVal a t f =>
    if (p a).isSome && decide (f ≠ .rvalMove) && decide ((aHeld p a).map (·.tag) = some t) then aHeld p a else none
  | _ => none

def specStepX (n : Nat) (p : APool) (x : Op × Bool) : APool × Out :=
  match x.2, specCopied n p x.1 with
  | true, some v => if v.tag = .thr then (p, .threw) else specStep n p x.1
  | _, _ => specStep n p x.1

def specRunX (n : Nat) (p : APool) (xs : List (Op × Bool)) : APool :=
  xs.foldl (fun p x => (specStepX n p x).1) p

def specViewSlot (p : APool) (k : Nat) : Option SlotView :=
  match p k with
  | none => none
  | some h =>
    let cast := allTags.map fun t => if h.map (·.tag) = some t then h else none
    some { hasValue := h.isSome, type := h.map (·.tag), ptr := cast, cptr := cast, ref := cast }

def specLiveOfTag (n : Nat) (p : APool) (t : Tag) : Nat :=
  ((List.range n).filter fun k => match aHeld p k with | some v => v.tag == t | none => false).length

end BFL.AnyBox
