#!/usr/bin/env python3
"""Rewrites the generated part of DESIGN.md section 13.3 (between the AS-BUILT markers) from
manifest.d/, obligations/, seeded/*/meta.json and known_findings.txt."""
import glob, json, os, re, subprocess
V = os.path.dirname(os.path.dirname(os.path.abspath(__file__)))
props = [json.loads(l) for l in open(os.path.join(V, "properties.jsonl"))]
known = [l for l in open(os.path.join(V, "known_findings.txt")) if l.startswith("known:")]
out = []
out.append("| id | title | theorems audited | level | known findings | seeded changes (caught / run) | harmless rewrites (silent / run) | notes |")
out.append("|---|---|---|---|---|---|---|---|")
for p in props:
    pid = p["id"]
    mf = os.path.join(V, "manifest.d", pid + ".json")
    of = os.path.join(V, "obligations", pid + ".json")
    nob = len(json.load(open(of))) if os.path.exists(of) else 0
    lvl = "not built" if not os.path.exists(mf) else ("proof (partial)" if json.load(open(mf))["text"].startswith("PARTIAL") else "proof")
    kn = sum(1 for l in known if ("property=%s " % pid) in l)
    caught = run = hsilent = hrun = 0
    for d in glob.glob(os.path.join(V, "seeded", pid + "-*")):
        m = json.load(open(os.path.join(d, "meta.json")))
        for q, r in m.get("checks_run", {}).items():
            if q == pid and m.get("kind") == "harmless":
                hrun += 1
                hsilent += 1 if (r.get("exit") == 0 and not r.get("detected")) else 0
            elif q == pid:
                run += 1
                caught += 1 if r.get("detected") else 0
    out.append("| %s | %s | %d | %s | %d | %d / %d | %d / %d | `design-notes/%s.md` |" % (pid, p["title"], nob, lvl, kn, caught, run, hsilent, hrun, pid))
out.append("")
out.append("What each check proves, what it trusts and which mutations it was tried against is written per property in")
out.append("`design-notes/Cxx.md` (by the builder of that property) and summarised in `manifest.d/Cxx.json` → `MANIFEST.json`.")
out.append("")
out.append("**Seeded changes** (independent sub-agents that saw only the property text and a scratch copy of the repository;")
out.append("each confirmed before use: compiles, 13/13 shipped tests pass, demonstration fails with / passes without; kept in")
out.append("`seeded/<id>/`). `tools/seedtool.py run <id>` applies the patch to a scratch copy of `/repo` and runs the quick check.")
out.append("")
out.append(subprocess.check_output(["python3", os.path.join(V, "tools", "seedtable.py")], text=True))
# ---- section 13.2: repaired defects and known findings, from known_findings.txt
fx = ["| commit | property | what failed (repaired by a `fix:` commit in /repo) |", "|---|---|---|"]
kn = ["| property | key | what fails (not repaired; printed as KNOWN-FINDING) |", "|---|---|---|"]
for l in open(os.path.join(V, "known_findings.txt")):
    m = re.match(r"fixed:\s+property=(\S+)\s+(\S+)\s+(.*)", l)
    if m:
        fx.append("| %s | %s | %s |" % (m.group(2), m.group(1), m.group(3).strip().replace("|", "/")))
    m = re.match(r"known:\s+property=(\S+)\s+key=(\S+)\s+(.*)", l)
    if m:
        kn.append("| %s | `%s` | %s |" % (m.group(1), m.group(2), m.group(3).strip().replace("|", "/")))
fixtxt = "\n".join(fx) + "\n\n" + "\n".join(kn)
txt = "\n".join(out)
p = os.path.join(V, "DESIGN.md")
s = open(p).read()
a, b = "<!-- AS-BUILT-BEGIN -->", "<!-- AS-BUILT-END -->"
if a not in s:
    s = s.replace("(filled in per property below; details in `design-notes/Cxx.md`)", a + "\n" + b)
s = s[:s.index(a) + len(a)] + "\n" + txt + "\n" + s[s.index(b):]
a2, b2 = "<!-- FIXES-BEGIN -->", "<!-- FIXES-END -->"
if a2 in s:
    s = s[:s.index(a2) + len(a2)] + "\n" + fixtxt + "\n" + s[s.index(b2):]
open(p, "w").write(s)
print("DESIGN.md sections 13.2/13.3 regenerated")
