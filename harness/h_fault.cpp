// Correspondence harness for C12: the real correction classes driven by a *scripted* measurement /
// likelihood model (every method through which unavailability can be signalled consumes a validity
// script and logs the call; values returned with "invalid" are nevertheless usable, the worst case
// for a dropped early return).
//
//   fault <class> <seed> <n> <m> <k> <sub> fz=<bits> me=<bits> pr=<bits> in=<bits> no=<bits> li=<bits>
//     class: kf | ukfa | ukfg | ukfgo (generic, update_weights_online) | sukf | glik | bootg | boots | gpf-<kf|ukfa|ukfg|sukf>-<g|s>
//     bits : string of 0/1 consumed call by call ('-' = empty; exhausted = valid)
//     sub  : SUKF measurement_sub_size (ignored by the other classes)
//     optional trailing token reps=<r>: r successive correct() calls on the same object (fresh belief each
//     time), the scripts being consumed across the calls
//     or ep=<e0>/<e1>/...: one correct() call per epoch on the same object; during epoch i the methods named in
//     e_i (e.g. `no`, `mepr`, `-` = none) answer "unavailable" however often -- or whether at all -- they are asked
//     (sis-*: one epoch per filtering step; <steps> must equal the number of epochs)
//     optional token degen=1 (belief with -inf / 0 weights, a zero covariance, duplicated components);
//     optional tokens deco=1 (models wrapped in a forwarding decorator), move=1 (correction handed over by move
//     construction), massign=1 (bootstrap / gpf: by move assignment);
//     optional token alias=1: in-place calls correct(b, b) (the signature allows it); labels then compare b after the
//     call with a copy taken before it (twins are called in place too); last field is `alias`
//   -> r0:<label>:<calls>:<same|modified|alias> r1:...
//     label: pred     corrected belief identical bit-for-bit, every field, to the predicted one
//            full     identical to a twin object with an all-valid model (same data, same seed)
//            partial  (gpf) identical to a twin whose wrapped Gaussian correction is switched off:
//                     positions redrawn / weights updated around the uncorrected Gaussians
//            none / some (glik) failure reported / value reported (= twin's value)
//            unrestored (gpf, in place) wrapped correction and redrawn positions left in the object, weights untouched
//            other    none of these;   ambiguous=a=b  references coincide on this input
//     calls: me1,pr0,...  method + answer, in call order ('-' = none)
//
//   fault sis-<bootg|boots> <seed> <n> <m> <k> <steps> fz=.. me=.. pr=.. in=.. no=.. li=..
//     the real SIS filter (boot / run / wait, own thread) for <steps> steps
//   -> s0:<label>:<calls> s1:...      label: pred | corrected | normpred (freeze ok, likelihood invalid)
#include "common.hpp"
#include <cmath>
#include <BayesFilters/KFCorrection.h>
#include <BayesFilters/UKFCorrection.h>
#include <BayesFilters/SUKFCorrection.h>
#include <BayesFilters/BootstrapCorrection.h>
#include <BayesFilters/GPFCorrection.h>
#include <BayesFilters/GaussianLikelihood.h>
#include <BayesFilters/LinearMeasurementModel.h>
#include <BayesFilters/LTIStateModel.h>
#include <BayesFilters/DrawParticles.h>
#include <BayesFilters/ParticleSetInitialization.h>
#include <BayesFilters/Resampling.h>
#include <BayesFilters/SIS.h>
#include <BayesFilters/utils.h>
#include <memory>
#include <limits>

using namespace bfl;
using namespace Eigen;
using vh::Toks; using vh::Out;

// ---------------------------------------------------------------- deterministic data
struct Rng {
    uint64_t s;
    explicit Rng(uint64_t seed) : s(seed * 0x9E3779B97F4A7C15ull + 0x7654321ull) {}
    uint64_t next() { uint64_t z = (s += 0x9E3779B97F4A7C15ull); z = (z ^ (z >> 30)) * 0xBF58476D1CE4E5B9ull; z = (z ^ (z >> 27)) * 0x94D049BB133111EBull; return z ^ (z >> 31); }
    double dy(double r) { long q = 64; long span = (long)(r * q); long v = (long)(next() % (2 * span + 1)) - span; if (v == 0) v = 1; return (double)v / q; }
    double pos(double lo, double hi) { return lo + (hi - lo) * (double)(next() % 1000 + 1) / 1001.0; }
};

static long g_step = 0;

struct Data12 {
    long n, m, k;
    MatrixXd F, Q, H, R; VectorXd y;
    Data12(uint64_t seed, long n_, long m_, long k_) : n(n_), m(m_), k(k_) {
        Rng r(seed);
        F = MatrixXd(n, n); for (long j = 0; j < n; ++j) for (long i = 0; i < n; ++i) F(i, j) = (i == j) ? r.pos(0.5, 0.9375) : r.dy(0.5);
        MatrixXd B(n, n); for (long j = 0; j < n; ++j) for (long i = 0; i < n; ++i) B(i, j) = r.dy(0.5);
        Q = B * B.transpose(); for (long i = 0; i < n; ++i) Q(i, i) += 0.25;
        H = MatrixXd(m, n); for (long j = 0; j < n; ++j) for (long i = 0; i < m; ++i) H(i, j) = (i == j) ? r.pos(0.75, 1.5) : r.dy(0.75);
        MatrixXd C(m, m); for (long j = 0; j < m; ++j) for (long i = 0; i < m; ++i) C(i, j) = r.dy(0.5);
        R = C * C.transpose(); for (long i = 0; i < m; ++i) R(i, i) += 0.5;
        y = VectorXd(m); for (long i = 0; i < m; ++i) y(i) = r.dy(3.0);
    }
};

// ---------------------------------------------------------------- the script
struct Script {
    std::vector<bool> v[6]; size_t pos[6] = {0, 0, 0, 0, 0, 0};
    // epoch mode: availability is a state of the model during one correct() call / filtering step
    // (the same answer however often -- or whether at all -- the method is asked)
    std::vector<std::vector<bool>> epochs; bool epoch = false; bool unavail[6] = {false, false, false, false, false, false};
    std::vector<std::string> log;
    static const char* name(int i) { static const char* nm[6] = {"fz", "me", "pr", "in", "no", "li"}; return nm[i]; }
    void begin(long rep) {
        if (epochs.empty()) return;
        epoch = true;
        for (int i = 0; i < 6; ++i) unavail[i] = rep < (long)epochs.size() ? (bool)epochs[rep][i] : false;
    }
    bool answer(int i) {
        bool a = epoch ? !unavail[i] : (pos[i] < v[i].size() ? (bool)v[i][pos[i]] : true);
        ++pos[i]; log.push_back(std::string(name(i)) + (a ? "1" : "0")); return a;
    }
    std::string take_log() { std::string s; for (auto& e : log) { if (!s.empty()) s += ","; s += e; } log.clear(); return s.empty() ? "-" : s; }
};
enum { FZ = 0, ME = 1, PR = 2, IN = 3, NO = 4, LI = 5 };

static void parse_scripts(Toks& t, Script& s) {
    for (int i = 0; i < 6; ++i) {
        std::string tok = t.tok();
        if (tok.size() < 4 || tok.substr(0, 2) != Script::name(i) || tok[2] != '=') throw vh::BadArgs("script:" + tok);
        std::string bits = tok.substr(3);
        if (bits == "-") continue;
        for (char c : bits) { if (c != '0' && c != '1') throw vh::BadArgs("bits:" + tok); s.v[i].push_back(c == '1'); }
    }
}

// Linear-Gaussian measurement model whose every validity answer comes from the script.  Handles
// plain states (n rows) and states augmented with measurement noise (n + m rows, generic UKF).
struct SModel : public LinearMeasurementModel {
    SModel(const Data12& d, std::shared_ptr<Script> s) : H_(d.H), R_(d.R), y_(d.y), s_(s) {}
    bool freeze(const Data&) override { return s_->answer(FZ); }
    std::pair<bool, Data> measure(const Data&) const override { bool v = s_->answer(ME); MatrixXd y = y_; return std::make_pair(v, Data(y)); }
    std::pair<bool, Data> predictedMeasure(const Ref<const MatrixXd>& cur) const override {
        bool v = s_->answer(PR);
        MatrixXd p;
        if (cur.rows() == H_.cols() + H_.rows()) p = H_ * cur.topRows(H_.cols()) + cur.bottomRows(H_.rows());
        else p = H_ * cur;
        return std::make_pair(v, Data(std::move(p)));
    }
    std::pair<bool, Data> innovation(const Data& pred, const Data& meas) const override {
        bool v = s_->answer(IN);
        std::pair<bool, Data> r = LinearMeasurementModel::innovation(pred, meas);
        return std::make_pair(v, std::move(r.second));
    }
    std::pair<bool, MatrixXd> getNoiseCovarianceMatrix() const override { bool v = s_->answer(NO); return std::make_pair(v, R_); }
    MatrixXd getMeasurementMatrix() const override { return H_; }
    VectorDescription getInputDescription() const override { return VectorDescription(H_.cols(), 0, R_.rows()); }
    VectorDescription getMeasurementDescription() const override { return VectorDescription(H_.rows()); }
    MatrixXd H_, R_; VectorXd y_; std::shared_ptr<Script> s_;
};

// Forwarding wrapper in the manner of src/MeasurementModelDecorator.cpp (which is not part of the build and whose
// header does not compile: `getOutputSize() const override` overrides nothing): every call, including the
// descriptions the unscented corrections need, goes to the wrapped model through the base-class interface.
struct HDeco : public LinearMeasurementModel {
    explicit HDeco(std::unique_ptr<LinearMeasurementModel> m) : m_(std::move(m)) {}
    bool freeze(const Data& d) override { return m_->freeze(d); }
    std::pair<bool, Data> measure(const Data& d) const override { return m_->measure(d); }
    std::pair<bool, Data> predictedMeasure(const Ref<const MatrixXd>& c) const override { return m_->predictedMeasure(c); }
    std::pair<bool, Data> innovation(const Data& p, const Data& y) const override { return m_->innovation(p, y); }
    std::pair<bool, MatrixXd> getNoiseCovarianceMatrix() const override { return m_->getNoiseCovarianceMatrix(); }
    MatrixXd getMeasurementMatrix() const override { return m_->getMeasurementMatrix(); }
    VectorDescription getInputDescription() const override { return m_->getInputDescription(); }
    VectorDescription getMeasurementDescription() const override { return m_->getMeasurementDescription(); }
    std::unique_ptr<LinearMeasurementModel> m_;
};

static bool g_degen = false;     // degenerate belief: -inf and 0 weights, a singular (zero) covariance, duplicated components
static bool g_deco = false;      // wrap every scripted model in the forwarding decorator
static bool g_move = false;      // hand the correction over by move construction before using it
static bool g_massign = false;   // (bootstrap, gpf) hand over by move assignment into an object built around all-valid models

// A user likelihood model that signals availability itself.
struct SLik : public LikelihoodModel {
    SLik(const Data12& d, std::shared_ptr<Script> s) : H_(d.H), y_(d.y), s_(s) {}
    std::pair<bool, VectorXd> likelihood(const MeasurementModel&, const Ref<const MatrixXd>& states) override {
        bool v = s_->answer(LI);
        VectorXd l(states.cols());
        for (long i = 0; i < states.cols(); ++i) l(i) = 1.0 / (1.5 + (H_ * states.col(i) - y_).squaredNorm());
        return std::make_pair(v, l);
    }
    MatrixXd H_; VectorXd y_; std::shared_ptr<Script> s_;
};

struct HState : public LTIStateModel {
    HState(const MatrixXd& F, const MatrixXd& Q) : LTIStateModel(F, Q), n_(F.rows()) {}
    VectorDescription getStateDescription() override { return VectorDescription(n_); }
    MatrixXd getNoiseSample(const std::size_t num) override {
        MatrixXd z(n_, (long)num); Rng r(0xABCDEFull + (uint64_t)g_step * 7919ull);
        for (long j = 0; j < (long)num; ++j) for (long i = 0; i < n_; ++i) z(i, j) = r.dy(1.0);
        return z;
    }
    VectorXd getTransitionProbability(const Ref<const MatrixXd>& prev, const Ref<const MatrixXd>& cur) override {
        VectorXd p(prev.cols());
        for (long i = 0; i < prev.cols(); ++i) p(i) = 1.0 / (1.0 + (cur.col(i) - prev.col(i)).squaredNorm());
        return p;
    }
    long n_;
};

// ---------------------------------------------------------------- beliefs
// covariances symmetric only up to rounding (what F P F^T + Q leaves behind): three cases out of four carry a one-ulp
// asymmetry in some off-diagonal entries, so that "untouched" is observable bit for bit (a symmetrisation
// 0.5 (P + P^T) applied on the failure path changes such a belief and no other)
static bool g_asym = false;
// negative zeros and denormals in every field (seed % 8 >= 4): "identical to the predicted one" is bit-for-bit, so a
// restore written as x + 0.0, x * 1.0, a copy through a flush-to-zero path or a comparison-based "copy only if
// different" (-0.0 == 0.0) is observable only on such content.  Never every entry of a field.
static bool g_noncanon = false;
static void uncanonGM(GaussianMixture& b) {
    long n = b.dim, k = b.components;
    if (n > 1 || k > 1) b.mean(0)(0) = -0.0;
    if (n > 1) b.mean(k - 1)(n - 1) = 4.9406564584124654e-324 * 3;
    if (n > 2) b.mean(0)(1) = -2.2250738585072014e-308 / 4;
    if (k > 1 && !std::isinf(b.weight(k - 1))) b.weight(k - 1) = -0.0;
    if (n > 1) { b.covariance(0)(0, n - 1) = -0.0; b.covariance(0)(n - 1, 0) = 0.0; }      // equal as numbers, not as bits
}
static void fillGM(GaussianMixture& b, Rng& r) {
    long n = b.dim, k = b.components;
    for (long c = 0; c < k; ++c) {
        for (long i = 0; i < n; ++i) b.mean(c)(i) = r.dy(4.0);
        MatrixXd B(n, n); for (long j = 0; j < n; ++j) for (long i = 0; i < n; ++i) B(i, j) = r.dy(1.0);
        MatrixXd P = B * B.transpose(); for (long i = 0; i < n; ++i) P(i, i) += 0.5 + 0.125 * c;
        if (g_asym) for (long j = 0; j < n; ++j) for (long i = 0; i < j; ++i) if ((i + j + c) % 2 == 0) P(i, j) = std::nextafter(P(i, j), 1.0e300);
        b.covariance(c) = P;
        b.weight(c) = -r.pos(0.1, 3.0);
    }
    if (g_degen) {
        b.weight(0) = -std::numeric_limits<double>::infinity();
        if (k > 1) { b.weight(k - 1) = 0.0; b.mean(k - 1) = b.mean(0); b.covariance(k - 1) = b.covariance(0); }   // exact duplicate of component 0
        if (k > 2) b.covariance(1).setZero();                                                                  // singular
    }
    if (g_noncanon) uncanonGM(b);
}
static void fillPS(ParticleSet& b, Rng& r) {
    fillGM(b, r);
    for (long c = 0; c < (long)b.components; ++c) for (long i = 0; i < (long)b.dim; ++i) b.state(c, i) = r.dy(4.0);
    if (g_noncanon) {
        if (b.components > 1) b.state(0, 0) = -0.0;
        if (b.dim > 1 && b.components > 1) b.state(b.components - 1, b.dim - 1) = -4.9406564584124654e-324;
        if (b.components > 2) b.state(1, 0) = 2.2250738585072014e-308 / 8;
    }
}
static void poisonGM(GaussianMixture& b) { b.mean().setConstant(12345.0); b.covariance().setConstant(-54321.0); b.weight().setConstant(777.0); }
static void poisonPS(ParticleSet& b) { poisonGM(b); b.state().setConstant(999.0); }
static bool sameGM(const GaussianMixture& a, const GaussianMixture& b) {
    return a.components == b.components && a.dim == b.dim && a.dim_linear == b.dim_linear && a.dim_circular == b.dim_circular &&
           a.dim_noise == b.dim_noise && a.dim_covariance == b.dim_covariance && a.use_quaternion == b.use_quaternion &&
           vh::same_bits(a.mean(), b.mean()) && vh::same_bits(a.covariance(), b.covariance()) && vh::same_bits(a.weight(), b.weight());
}
static bool samePS(const ParticleSet& a, const ParticleSet& b) { return sameGM(a, b) && vh::same_bits(a.state(), b.state()); }

// pre=<mode>: instead of poison the output container holds a partial copy of the predicted belief (a filter re-uses its
// buffers): 0 same mean, 1 same covariances, 2 all but the weights, 3 all but one covariance entry,
// 4 (particle sets) same positions and weights, 5 all but one position entry.  Twins get the same content.
static int g_pre = -1;
static void prefillGM(GaussianMixture& out, const GaussianMixture& in, int mode) {
    out = in;
    if (mode == 0) { out.covariance().setConstant(-54321.0); out.weight().setConstant(777.0); }
    else if (mode == 1) { out.mean().setConstant(12345.0); out.weight().setConstant(777.0); }
    else if (mode == 2) { out.weight().setConstant(777.0); }
    else { out.covariance()(out.covariance().rows() - 1, out.covariance().cols() - 1) += 0.5; }
}
static void prefillPS(ParticleSet& out, const ParticleSet& in, int mode) {
    out = in;
    if (mode <= 3) { prefillGM(out, in, mode); if (mode == 1) out.state().setConstant(999.0); }
    else if (mode == 4) { out.mean().setConstant(12345.0); out.covariance().setConstant(-54321.0); }
    else { out.state()(out.state().rows() - 1, out.state().cols() - 1) += 0.5; }
}

static std::string pick(const std::vector<std::pair<std::string, bool>>& hits) {
    std::string lab; int n = 0;
    for (auto& h : hits) if (h.second) { if (n == 0) lab = h.first; ++n; }
    if (n == 0) return "other";
    if (n > 1) { std::string a = "ambiguous"; for (auto& h : hits) if (h.second) a += "=" + h.first; return a; }
    return lab;
}

// ---------------------------------------------------------------- builders
static const double UA = 1.0, UB = 2.0, UK = 0.0;

static std::unique_ptr<LinearMeasurementModel> mkModel(const Data12& d, std::shared_ptr<Script> s) {
    std::unique_ptr<LinearMeasurementModel> m(new SModel(d, s));
    if (g_deco) m.reset(new HDeco(std::move(m)));
    return m;
}

static std::unique_ptr<GaussianCorrection> mkGauss(const std::string& kind, const Data12& d, std::shared_ptr<Script> s, long sub) {
    if (kind == "kf") {
        std::unique_ptr<KFCorrection> c(new KFCorrection(mkModel(d, s)));
        if (g_move) c.reset(new KFCorrection(std::move(*c)));
        return std::unique_ptr<GaussianCorrection>(std::move(c));
    }
    if (kind == "ukfa" || kind == "ukfg" || kind == "ukfgo") {
        std::unique_ptr<UKFCorrection> c;
        if (kind == "ukfa") c.reset(new UKFCorrection(std::unique_ptr<AdditiveMeasurementModel>(mkModel(d, s)), UA, UB, UK));
        else c.reset(new UKFCorrection(std::unique_ptr<MeasurementModel>(mkModel(d, s)), UA, UB, UK, kind == "ukfgo"));   // ukfgo: update_weights_online
        if (g_move) c.reset(new UKFCorrection(std::move(*c)));
        return std::unique_ptr<GaussianCorrection>(std::move(c));
    }
    if (kind == "sukf") {
        std::unique_ptr<SUKFCorrection> c(new SUKFCorrection(std::unique_ptr<AdditiveMeasurementModel>(mkModel(d, s)), UA, UB, UK, (size_t)sub, false));
        if (g_move) c.reset(new SUKFCorrection(std::move(*c)));
        return std::unique_ptr<GaussianCorrection>(std::move(c));
    }
    throw vh::BadArgs("gauss:" + kind);
}
static std::unique_ptr<LikelihoodModel> mkLik(char kind, const Data12& d, std::shared_ptr<Script> s) {
    if (kind == 'g') return std::unique_ptr<LikelihoodModel>(new GaussianLikelihood());
    if (kind == 's') return std::unique_ptr<LikelihoodModel>(new SLik(d, s));
    throw vh::BadArgs("lik");
}
static std::unique_ptr<StateModel> mkState(const Data12& d) { return std::unique_ptr<StateModel>(new HState(d.F, d.Q)); }

// ---------------------------------------------------------------- single corrections
static std::string gauss_case(const std::string& cls, uint64_t seed, const Data12& d, long sub, std::shared_ptr<Script> s, long reps, bool alias) {
    long n = d.n, k = d.k;
    std::shared_ptr<Script> ok(new Script());
    std::unique_ptr<GaussianCorrection> c = mkGauss(cls, d, s, sub);
    bool gm = g_move, gd = g_deco; g_move = false; g_deco = false;      // the twin is a plain object
    std::unique_ptr<GaussianCorrection> twin = mkGauss(cls, d, ok, sub);
    g_move = gm; g_deco = gd;
    Rng r(seed ^ 0x55aa);
    Out o;
    for (long rep = 0; rep < reps; ++rep) {
        s->begin(rep);
        GaussianMixture pred(k, n), in(k, n), out(k, n), ref(k, n);
        fillGM(pred, r); in = pred;
        poisonGM(out); poisonGM(ref);
        if (g_pre >= 0 && !alias) { prefillGM(out, in, g_pre > 3 ? g_pre - 4 : g_pre); prefillGM(ref, in, g_pre > 3 ? g_pre - 4 : g_pre); }
        bool sizefail = (cls == "sukf" && d.m % sub != 0);
        bool full = false;
        std::string log;
        if (alias) {
            // in-place call: the same object is the predicted and the corrected belief
            c->correct(pred, pred);
            log = s->take_log();
            if (!sizefail) { ref = in; twin->correct(ref, ref); full = sameGM(pred, ref); }
            o.s("r" + std::to_string(rep) + ":" + pick({{"pred", sameGM(pred, in)}, {"full", full}}) + ":" + log + ":alias");
            continue;
        }
        c->correct(pred, out);
        log = s->take_log();
        if (!sizefail) { twin->correct(in, ref); full = sameGM(out, ref); }
        o.s("r" + std::to_string(rep) + ":" + pick({{"pred", sameGM(out, in)}, {"full", full}}) + ":" + log + ":" + (sameGM(pred, in) ? "same" : "modified"));
    }
    return o.str();
}

static std::string glik_case(uint64_t seed, const Data12& d, std::shared_ptr<Script> s, long reps) {
    std::shared_ptr<Script> ok(new Script());
    std::unique_ptr<LinearMeasurementModel> mmp = mkModel(d, s); MeasurementModel& mm = *mmp; SModel mmok(d, ok);
    GaussianLikelihood gl, gl2;
    LikelihoodModel& l = gl; LikelihoodModel& l2 = gl2;
    Rng r(seed ^ 0x55aa);
    Out o;
    for (long rep = 0; rep < reps; ++rep) {
        s->begin(rep);
        MatrixXd states(d.n, d.k); for (long j = 0; j < d.k; ++j) for (long i = 0; i < d.n; ++i) states(i, j) = r.dy(4.0);
        bool v, v2; VectorXd val, val2;
        std::tie(v, val) = l.likelihood(mm, states);
        std::string log = s->take_log();
        std::tie(v2, val2) = l2.likelihood(mmok, states);
        std::string lab = !v ? "none" : ((val.size() == val2.size() && vh::same_bits(val, val2)) ? "some" : "other");
        o.s("r" + std::to_string(rep) + ":" + lab + ":" + log + ":same");
    }
    return o.str();
}

static std::string part_case(const std::string& cls, uint64_t seed, const Data12& d, long sub, std::shared_ptr<Script> s, long reps, bool alias) {
    long n = d.n, k = d.k;
    std::shared_ptr<Script> ok(new Script()), ok2(new Script());
    std::unique_ptr<PFCorrection> c, twin, twin_partial;
    if (cls == "bootg" || cls == "boots") {
        char lk = cls[4];
        std::unique_ptr<BootstrapCorrection> b(new BootstrapCorrection(std::unique_ptr<MeasurementModel>(mkModel(d, s)), mkLik(lk, d, s)));
        if (g_move) b.reset(new BootstrapCorrection(std::move(*b)));
        if (g_massign) {
            std::shared_ptr<Script> other(new Script());
            std::unique_ptr<BootstrapCorrection> a(new BootstrapCorrection(std::unique_ptr<MeasurementModel>(new SModel(d, other)), mkLik(lk, d, other)));
            *a = std::move(*b); b = std::move(a);
        }
        c = std::move(b);
        twin.reset(new BootstrapCorrection(std::unique_ptr<MeasurementModel>(new SModel(d, ok)), mkLik(lk, d, ok)));
    } else if (cls.compare(0, 4, "gpf-") == 0) {
        size_t dash = cls.rfind('-'); if (dash == 3 || dash + 2 != cls.size()) throw vh::BadArgs("gpf:" + cls);
        std::string w = cls.substr(4, dash - 4); char lk = cls[dash + 1];
        std::unique_ptr<GPFCorrection> g(new GPFCorrection(mkLik(lk, d, s), mkGauss(w, d, s, sub), mkState(d), (unsigned)seed));
        if (g_move) g.reset(new GPFCorrection(std::move(*g)));
        if (g_massign) {
            std::shared_ptr<Script> other(new Script());
            std::unique_ptr<GPFCorrection> a(new GPFCorrection(mkLik(lk, d, other), mkGauss(w, d, other, sub), mkState(d), (unsigned)seed + 17u));
            *a = std::move(*g); g = std::move(a);
        }
        c = std::move(g);
        bool gm = g_move, gd = g_deco; g_move = false; g_deco = false;      // twins are plain objects
        twin.reset(new GPFCorrection(mkLik(lk, d, ok), mkGauss(w, d, ok, sub), mkState(d), (unsigned)seed));
        std::unique_ptr<GaussianCorrection> off = mkGauss(w, d, ok2, sub); off->skip(true);
        twin_partial.reset(new GPFCorrection(mkLik(lk, d, ok2), std::move(off), mkState(d), (unsigned)seed));
        g_move = gm; g_deco = gd;
    } else throw vh::BadArgs("class:" + cls);
    Rng r(seed ^ 0x55aa);
    Out o;
    for (long rep = 0; rep < reps; ++rep) {
        s->begin(rep);
        ParticleSet pred(k, n), in(k, n), out(k, n), ref(k, n), refp(k, n);
        fillPS(pred, r); in = pred;
        poisonPS(out); poisonPS(ref); poisonPS(refp);
        if (g_pre >= 0 && !alias) { prefillPS(out, in, g_pre); prefillPS(ref, in, g_pre); prefillPS(refp, in, g_pre); }
        if (alias) {
            // in-place call: the same object is the predicted and the corrected particle set
            c->correct(pred, pred);
            std::string log = s->take_log();
            ref = in; twin->correct(ref, ref);
            std::vector<std::pair<std::string, bool>> hits = {{"pred", samePS(pred, in)}, {"full", samePS(pred, ref)}};
            if (twin_partial) {
                refp = in; twin_partial->correct(refp, refp); hits.push_back({"partial", samePS(pred, refp)});
                // GPF in place, likelihood unavailable, `corr = pred` a self-assignment: Gaussians and positions as
                // after wrapped correction + sampling (wrapped succeeded: twin; wrapped gave up: partial twin), weights untouched
                auto unrestored = [&](const ParticleSet& t) {
                    return vh::same_bits(pred.mean(), t.mean()) && vh::same_bits(pred.covariance(), t.covariance()) &&
                           vh::same_bits(pred.state(), t.state()) && vh::same_bits(pred.weight(), in.weight()) && !samePS(pred, in);
                };
                hits.push_back({"unrestored", unrestored(ref) || unrestored(refp)});
            }
            o.s("r" + std::to_string(rep) + ":" + pick(hits) + ":" + log + ":alias");
            continue;
        }
        c->correct(pred, out);
        std::string log = s->take_log();
        twin->correct(in, ref);      // all three objects draw the same number of normals per call (GPF): they stay in step
        std::vector<std::pair<std::string, bool>> hits = {{"pred", samePS(out, in)}, {"full", samePS(out, ref)}};
        if (twin_partial) { twin_partial->correct(in, refp); hits.push_back({"partial", samePS(out, refp)}); }
        o.s("r" + std::to_string(rep) + ":" + pick(hits) + ":" + log + ":" + (samePS(pred, in) ? "same" : "modified"));
    }
    return o.str();
}

// ---------------------------------------------------------------- the real SIS, own thread
struct HInit : public ParticleSetInitialization {
    explicit HInit(uint64_t seed) : seed_(seed) {}
    bool initialize(ParticleSet& p) override { Rng r(seed_ ^ 0x55aa); fillPS(p, r); return true; }
    uint64_t seed_;
};

struct HSIS : public SIS {
    HSIS(unsigned N, size_t n, unsigned steps, uint64_t seed, std::unique_ptr<PFPrediction> p, std::unique_ptr<PFCorrection> c,
         std::unique_ptr<PFCorrection> twin, std::shared_ptr<Script> s)
        : SIS(N, n, std::unique_ptr<ParticleSetInitialization>(new HInit(seed)), std::move(p), std::move(c), std::unique_ptr<Resampling>(new Resampling(1))),
          steps_(steps), twin_(std::move(twin)), s_(s) {}
    bool run_condition() override { return step_number() < steps_; }
    void filtering_step() override { g_step = (long)step_number() + 1; s_->log.clear(); s_->begin((long)step_number()); SIS::filtering_step(); }
    // SIS::filtering_step calls log() right after the correction phase, before resampling
    void log() override {
        long k = pred_particle_.components, n = pred_particle_.dim;
        std::string calls = s_->take_log();
        ParticleSet ref(k, n), refn(k, n);
        poisonPS(ref);
        twin_->correct(pred_particle_, ref);
        ref.weight().array() -= utils::log_sum_exp(ref.weight());
        refn = pred_particle_;
        refn.weight().array() -= utils::log_sum_exp(refn.weight());
        std::string lab = pick({{"pred", samePS(cor_particle_, pred_particle_)}, {"corrected", samePS(cor_particle_, ref)}, {"normpred", samePS(cor_particle_, refn)}});
        out_.push_back("s" + std::to_string(step_number()) + ":" + lab + ":" + calls);
    }
    unsigned steps_; std::unique_ptr<PFCorrection> twin_; std::shared_ptr<Script> s_;
    std::vector<std::string> out_;
};

static std::string sis_case(const std::string& cls, uint64_t seed, const Data12& d, long steps, std::shared_ptr<Script> s) {
    if (cls != "sis-bootg" && cls != "sis-boots") throw vh::BadArgs("sis:" + cls);
    if (steps < 1 || steps > 8) throw vh::BadArgs("steps");
    char lk = cls[8];
    std::shared_ptr<Script> ok(new Script());
    std::unique_ptr<PFCorrection> c(new BootstrapCorrection(std::unique_ptr<MeasurementModel>(new SModel(d, s)), mkLik(lk, d, s)));
    std::unique_ptr<PFCorrection> twin(new BootstrapCorrection(std::unique_ptr<MeasurementModel>(new SModel(d, ok)), mkLik(lk, d, ok)));
    std::unique_ptr<PFPrediction> p(new DrawParticles(mkState(d)));
    HSIS f((unsigned)d.k, (size_t)d.n, (unsigned)steps, seed, std::move(p), std::move(c), std::move(twin), s);
    if (!f.boot()) return "boot-failed";
    f.run();
    if (!f.wait()) return "wait-failed";
    Out o; for (auto& x : f.out_) o.s(x);
    if (f.out_.empty()) o.s("no-steps");
    return o.str();
}

static std::string fault_case(Toks& t) {
    std::string cls = t.tok(); uint64_t seed = (uint64_t)t.nat(); long n = t.nat(), m = t.nat(), k = t.nat(), sub = t.nat();
    if (n < 1 || n > 6 || m < 1 || m > 6 || k < 1 || k > 8 || sub < 1 || sub > 8) throw vh::BadArgs("size");
    std::shared_ptr<Script> s(new Script()); parse_scripts(t, *s);
    long reps = 1; bool alias = false; g_deco = g_move = g_massign = g_degen = false; g_pre = -1;
    while (!t.empty()) {
        std::string rt = t.tok();
        if (rt == "alias=1") alias = true;
        else if (rt == "deco=1") g_deco = true;
        else if (rt == "degen=1") g_degen = true;
        else if (rt.compare(0, 4, "pre=") == 0 && rt.size() == 5 && rt[4] >= '0' && rt[4] <= '5') g_pre = rt[4] - '0';
        else if (rt == "move=1") g_move = true;
        else if (rt == "massign=1") g_massign = true;
        else if (rt == "alias=0") alias = false;
        else if (rt.compare(0, 5, "reps=") == 0) reps = std::atol(rt.c_str() + 5);
        else if (rt.compare(0, 3, "ep=") == 0) {
            // ep=<e0>/<e1>/...   e = '-' or a concatenation of method codes unavailable during that call
            std::string rest = rt.substr(3); size_t a = 0;
            while (true) {
                size_t b = rest.find('/', a); std::string e = rest.substr(a, b == std::string::npos ? std::string::npos : b - a);
                std::vector<bool> un(6, false);
                if (e != "-") {
                    if (e.empty() || e.size() % 2) throw vh::BadArgs("ep:" + e);
                    for (size_t i = 0; i < e.size(); i += 2) { int f = -1; for (int j = 0; j < 6; ++j) if (e.substr(i, 2) == Script::name(j)) f = j; if (f < 0) throw vh::BadArgs("ep:" + e); un[f] = true; }
                }
                s->epochs.push_back(un);
                if (b == std::string::npos) break;
                a = b + 1;
            }
            reps = (long)s->epochs.size();
        } else throw vh::BadArgs("trailing:" + rt);
    }
    if (reps < 1 || reps > 8) throw vh::BadArgs("reps");
    Data12 d(seed, n, m, k);
    g_asym = (seed % 4 != 0);
    g_noncanon = (seed % 8 >= 4);
    g_step = 0;
    if (cls == "kf" || cls == "ukfa" || cls == "ukfg" || cls == "ukfgo" || cls == "sukf") return gauss_case(cls, seed, d, sub, s, reps, alias);
    if (cls == "glik") return glik_case(seed, d, s, reps);
    if (cls.compare(0, 4, "sis-") == 0) return sis_case(cls, seed, d, sub, s);
    return part_case(cls, seed, d, sub, s, reps, alias);
}

int main() {
    return vh::run([](const std::string& op, Toks& t, std::string& out) {
        if (op == "fault") { out = fault_case(t); return true; }
        return false;
    });
}
