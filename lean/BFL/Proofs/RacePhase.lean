import BFL.Proofs.Race
/-
C10 — thread creation and join.  A whole-program execution is
    (controller only) ++ [spawn] ++ (concurrent phase) ++ [join] ++ (controller only):
before `boot()` creates the thread and after `wait()` has joined it only the controller exists
(constructors, destructors, set-up code — arbitrary accesses, not constrained by the table).
In the adjacency form a race needs two *adjacent* access events of different threads; the
creation and join events sit between the phases, so every race of the whole program is a race of
the concurrent phase.
-/
namespace BFL.Race

inductive PEv
  | ev (e : Ev)
  | spawn
  | join
  deriving DecidableEq

/-- adjacency in a list -/
def Adj {α : Type} (l : List α) (a b : α) : Prop := ∃ p s, l = p ++ a :: b :: s

theorem adj_cons {α : Type} (x : α) (l : List α) (a b : α) :
    Adj (x :: l) a b ↔ (x = a ∧ l.head? = some b) ∨ Adj l a b := by
  constructor
  · rintro ⟨p, s, h⟩
    cases p with
    | nil =>
      simp only [List.nil_append, List.cons.injEq] at h
      exact Or.inl ⟨h.1, by rw [h.2]; rfl⟩
    | cons y ys =>
      simp only [List.cons_append, List.cons.injEq] at h
      exact Or.inr ⟨ys, s, h.2⟩
  · rintro (⟨rfl, h⟩ | ⟨p, s, h⟩)
    · cases l with
      | nil => simp at h
      | cons y ys =>
        simp only [List.head?_cons, Option.some.injEq] at h
        subst h
        exact ⟨[], ys, rfl⟩
    · exact ⟨x :: p, s, by rw [h]; rfl⟩

theorem adj_append {α : Type} (l₁ l₂ : List α) (a b : α) :
    Adj (l₁ ++ l₂) a b ↔ Adj l₁ a b ∨ Adj l₂ a b ∨ (l₁.getLast? = some a ∧ l₂.head? = some b) := by
  induction l₁ with
  | nil => simp [Adj]
  | cons x xs ih =>
    rw [List.cons_append, adj_cons, adj_cons, ih]
    cases xs with
    | nil =>
      simp only [List.nil_append, List.head?_nil, List.getLast?_singleton, Option.some.injEq]
      constructor
      · rintro (⟨rfl, h⟩ | h | h | ⟨h, _⟩)
        · exact Or.inr (Or.inr ⟨rfl, h⟩)
        · obtain ⟨p, s, h⟩ := h; cases p <;> simp at h
        · exact Or.inr (Or.inl h)
        · simp at h
      · rintro ((⟨_, h⟩ | h) | h | ⟨rfl, h⟩)
        · simp at h
        · obtain ⟨p, s, h⟩ := h; cases p <;> simp at h
        · exact Or.inr (Or.inr (Or.inl h))
        · exact Or.inl ⟨rfl, h⟩
    | cons y ys =>
      simp only [List.cons_append, List.head?_cons, List.getLast?_cons_cons]
      constructor
      · rintro (h | h | h | h)
        · exact Or.inl (Or.inl h)
        · exact Or.inl (Or.inr h)
        · exact Or.inr (Or.inl h)
        · exact Or.inr (Or.inr h)
      · rintro ((h | h) | h | h)
        · exact Or.inl h
        · exact Or.inr (Or.inl h)
        · exact Or.inr (Or.inr (Or.inl h))
        · exact Or.inr (Or.inr (Or.inr h))

theorem adj_mem {α : Type} {l : List α} {a b : α} (h : Adj l a b) : a ∈ l ∧ b ∈ l := by
  obtain ⟨p, s, rfl⟩ := h
  simp

theorem adj_map_ev (l : List Ev) (a b : Ev) : Adj (l.map PEv.ev) (.ev a) (.ev b) ↔ Adj l a b := by
  constructor
  · rintro ⟨p, s, h⟩
    rw [List.map_eq_append_iff] at h
    obtain ⟨p', r, rfl, _, hr⟩ := h
    rw [List.map_eq_cons_iff] at hr
    obtain ⟨a', r', rfl, ha, hr'⟩ := hr
    rw [List.map_eq_cons_iff] at hr'
    obtain ⟨b', s', rfl, hb, _⟩ := hr'
    cases ha; cases hb
    exact ⟨p', s', rfl⟩
  · rintro ⟨p, s, rfl⟩
    exact ⟨p.map .ev, s.map .ev, by simp⟩

def Ev.tid : Ev → Tid
  | .acc t _ _ _ => t
  | .lock t _ => t
  | .unlock t _ => t

theorem conflict_tid {a b : Ev} (h : conflict a b) : a.tid ≠ b.tid := by
  cases a <;> cases b <;> simp [conflict] at h
  exact h.1

theorem no_conflict_single {l : List Ev} {t : Tid} (hl : ∀ e ∈ l, e.tid = t) {a b : Ev} (h : Adj l a b) :
    ¬ conflict a b := by
  intro hc
  have := adj_mem h
  exact conflict_tid hc (by rw [hl a this.1, hl b this.2])

/-- a whole-program execution: set-up by the controller, thread creation, the concurrent phase,
    join, tear-down by the controller -/
def program (pre mid post : List Ev) : List PEv :=
  pre.map .ev ++ (PEv.spawn :: (mid.map .ev ++ (PEv.join :: post.map .ev)))

/-- data race of a whole-program execution on member `f` -/
def PRaceOnField (f : Nat) (tr : List PEv) : Prop :=
  ∃ o a b, Adj tr (.ev a) (.ev b) ∧ conflict a b ∧ a.loc? = some (o, f)

/-- **Creation / join.**  Two adjacent conflicting accesses of a whole-program execution lie in the
    concurrent phase. -/
theorem phase_adj (pre mid post : List Ev) (hpre : ∀ e ∈ pre, e.tid = .controller)
    (hpost : ∀ e ∈ post, e.tid = .controller) {a b : Ev}
    (h : Adj (program pre mid post) (.ev a) (.ev b)) (hc : conflict a b) : Adj mid a b := by
  unfold program at h
  rw [adj_append] at h
  rcases h with h | h | ⟨_, h⟩
  · exact absurd hc (no_conflict_single hpre ((adj_map_ev ..).1 h))
  · rw [adj_cons] at h
    rcases h with ⟨h, _⟩ | h
    · cases h
    · rw [adj_append] at h
      rcases h with h | h | ⟨_, h⟩
      · exact (adj_map_ev ..).1 h
      · rw [adj_cons] at h
        rcases h with ⟨h, _⟩ | h
        · cases h
        · exact absurd hc (no_conflict_single hpost ((adj_map_ev ..).1 h))
      · simp at h
  · simp at h

theorem raceOn_of_adj {mid : List Ev} {a b : Ev} {l : Loc} (h : Adj mid a b) (hc : conflict a b)
    (hl : a.loc? = some l) : RaceOn l mid := by
  obtain ⟨p, s, rfl⟩ := h
  exact ⟨p, a, b, s, rfl, hc, hl⟩

/-- whole-program form of lockset soundness: whatever the controller does before creating the
    thread and after joining it, a disciplined member does not race -/
theorem lockset_sound_program (T : Table) (f : Nat) (hok : FieldOK T f) (pre mid post : List Ev)
    (hpre : ∀ e ∈ pre, e.tid = .controller) (hpost : ∀ e ∈ post, e.tid = .controller)
    (hwf : WF mid) (hc : Conforms T mid) : ¬ PRaceOnField f (program pre mid post) := by
  rintro ⟨o, a, b, hadj, hconf, hloc⟩
  have h := phase_adj pre mid post hpre hpost hadj hconf
  exact lockset_sound T f hok hwf hc ⟨o, raceOn_of_adj h hconf hloc⟩

end BFL.Race
