import BFL.Model.AnyBoxMem
import BFL.Proofs.AnyBoxHist
/-
C20 helper lemmas, part 7: operations during which `operator new` fails; histories with faults.
-/
namespace BFL.AnyBox

/-- what the operation does when its j-th allocation fails -/
theorem stepNoMem_cases (n : Nat) (s : St) (op : Op) (j : Nat) :
    ((news n s op).length ≤ j ∧ stepNoMem n s op j = step n s op) ∨
    (j < (news n s op).length ∧ (stepNoMem n s op j).2 = .threw ∧
      ((stepNoMem n s op j).1 = s ∨ (stepNoMem n s op j).1 = failedNew s)) := by
  unfold stepNoMem
  cases h : (news n s op)[j]? with
  | none =>
    left
    exact ⟨List.getElem?_eq_none_iff.1 h, rfl⟩
  | some k =>
    right
    have hj : j < (news n s op).length := by
      by_contra hge
      rw [List.getElem?_eq_none_iff.2 (Nat.le_of_not_lt hge)] at h
      cases h
    refine ⟨hj, ?_⟩
    cases k with
    | holder => exact ⟨rfl, Or.inl rfl⟩
    | value => cases op <;> simp

/-- when the storage of the holder itself cannot be obtained, nothing at all has happened -/
theorem stepNoMem_holder {n : Nat} {s : St} {op : Op} {j : Nat} (h : (news n s op)[j]? = some .holder) :
    stepNoMem n s op j = (s, .threw) := by
  unfold stepNoMem; rw [h]

theorem inv_stepNoMem {n : Nat} {s : St} (op : Op) (j : Nat) (h : Inv n s) : Inv n (stepNoMem n s op j).1 := by
  rcases stepNoMem_cases n s op j with ⟨_, e⟩ | ⟨_, _, e | e⟩ <;> rw [e]
  · exact inv_step op h
  · exact h
  · exact inv_failedNew h

theorem inv_stepF {n : Nat} {s : St} (x : Op × Fault) (h : Inv n s) : Inv n (stepF n s x).1 := by
  obtain ⟨op, f⟩ := x
  cases f with
  | none => exact inv_step op h
  | copyThrows => exact inv_stepX (op, true) h
  | newFails j => exact inv_stepNoMem op j h

theorem inv_runF {n : Nat} (xs : List (Op × Fault)) {s : St} (h : Inv n s) : Inv n (runF n s xs) := by
  induction xs generalizing s with
  | nil => exact h
  | cons x rest ih => exact ih (inv_stepF x h)

theorem hasValue_abs {s : St} (hown : Own s) (k : Nat) : hasValue s (.named k) = (held s (.named k)).isSome := by
  unfold hasValue
  cases hc : content s (.named k) with
  | none => simp [held_of_content_none hc]
  | some i =>
    cases hh : s.heap i with
    | none => exact absurd hh (hown.live _ i hc)
    | some v => simp [held_def, hc, hh]

/-- the allocations of an operation can be read off the abstract pool -/
theorem specNews_eq {n : Nat} {s : St} (h : Inv n s) (op : Op) : specNews n (absPool s) op = news n s op := by
  cases op <;>
    simp only [specNews, news, ← freeN_abs, absPool_isSome, aHeld_absPool, hasValue_abs h.own, specCopied_eq]

theorem stepF_refines {n : Nat} {s : St} (h : Inv n s) (x : Op × Fault) :
    absPool (stepF n s x).1 = (specStepF n (absPool s) x).1 ∧
    (stepF n s x).2 = (specStepF n (absPool s) x).2 := by
  obtain ⟨op, f⟩ := x
  cases f with
  | none => exact step_refines h op
  | copyThrows => exact stepX_refines h (op, true)
  | newFails j =>
    show absPool (stepNoMem n s op j).1 = (specStepF n (absPool s) (op, .newFails j)).1 ∧
      (stepNoMem n s op j).2 = (specStepF n (absPool s) (op, .newFails j)).2
    simp only [specStepF, specNews_eq h]
    rcases stepNoMem_cases n s op j with ⟨hle, e⟩ | ⟨hlt, h1, e⟩
    · rw [e, if_neg (Nat.not_lt.2 hle)]
      exact step_refines h op
    · rw [if_pos hlt]
      refine ⟨?_, h1⟩
      rcases e with e | e <;> rw [e]
      exact absPool_failedNew s

theorem runF_refines {n : Nat} (xs : List (Op × Fault)) {s : St} (h : Inv n s) :
    absPool (runF n s xs) = specRunF n (absPool s) xs := by
  induction xs generalizing s with
  | nil => rfl
  | cons x rest ih =>
    show absPool (runF n (stepF n s x).1 rest) = specRunF n (specStepF n (absPool s) x).1 rest
    rw [ih (inv_stepF x h), (stepF_refines h x).1]

/-- histories with the throwing probe armed are histories with faults -/
def faultOfArmed (x : Op × Bool) : Op × Fault := (x.1, if x.2 then .copyThrows else .none)

theorem stepF_of_armed (n : Nat) (s : St) (x : Op × Bool) : stepF n s (faultOfArmed x) = stepX n s x := by
  obtain ⟨op, b⟩ := x
  cases b with
  | true => rfl
  | false => simp [faultOfArmed, stepF, stepX]

theorem runF_of_armed (n : Nat) (xs : List (Op × Bool)) (s : St) : runF n s (xs.map faultOfArmed) = runX n s xs := by
  induction xs generalizing s with
  | nil => rfl
  | cons x rest ih =>
    show runF n (stepF n s (faultOfArmed x)).1 (rest.map faultOfArmed) = runX n (stepX n s x).1 rest
    rw [stepF_of_armed, ih]

end BFL.AnyBox
