import BFL.Model.History
/-
Specification of `bfl::HistoryBuffer`, against which the deque model `HistBuf` is proved to be a refinement
(`BFL/Proofs/HistorySpec.lean`, `BFL.C17.buffer_refines_spec`): nothing is ever removed from storage.

  log     everything added since the last `clear`, newest first (append-only)
  keep    how many of them are still retained: a counter
  window  the window

The content the buffer shows is `log.take keep` — "the `keep` most recent estimates, newest first".
`addElement` raises the counter up to the window, a window change lowers it to the new window, `clear`
resets counter and log.  For a window that does not change after the last `clear` this gives
`keep = min(count, window)` (`BFL.C17.buffer_last_min_count_window`).

The window evolves as in the code (`HistBuf.clampWindow`, the early return for an unchanged request, the wrapping
`unsigned` arithmetic of `window_ ∓ 1`): that part is shared with the model on purpose; the refinement is about
the content.

No Mathlib: this file is linked into the driver (`hbs`), which runs the specification beside the deque model
and the real `HistoryBuffer` on the same operation sequences.
-/
namespace BFL

structure HistSpec (β : Type) where
  log : List β
  keep : Nat
  window : Nat

namespace HistSpec
variable {β : Type}

/-- a freshly constructed buffer -/
def init : HistSpec β := ⟨[], 0, 5⟩

/-- what `getHistoryBuffer()` shows: the `keep` most recent additions, newest first -/
def view (s : HistSpec β) : List β := s.log.take s.keep

/-- the window after a request `w`: unchanged when equal, otherwise the request clamped to [2, 30] -/
def newWindow (cur w : Nat) : Nat := if w = cur then cur else HistBuf.clampWindow w

def setW (s : HistSpec β) (w : Nat) : HistSpec β :=
  ⟨s.log, min s.keep (newWindow s.window w), newWindow s.window w⟩

def step (s : HistSpec β) : HistBuf.Op β → HistSpec β
  | .add x => ⟨x :: s.log, min (s.keep + 1) s.window, s.window⟩
  | .set w => s.setW w
  | .dec => s.setW (HistBuf.uintSub1 s.window)
  | .inc => s.setW (HistBuf.uintAdd1 s.window)
  | .clear => ⟨[], 0, s.window⟩

def run (ops : List (HistBuf.Op β)) : HistSpec β := ops.foldl step init

/-- the deque state a specification state stands for -/
def abs (s : HistSpec β) : HistBuf β := ⟨s.view, s.window⟩

/-- the documented moved-from state: nothing retained, window 0 -/
def movedFrom : HistSpec β := ⟨[], 0, 0⟩

/-- two buffers with hand-over, as `HistBuf.Pair` -/
structure Pair (β : Type) where
  a : HistSpec β
  b : HistSpec β

def Pair.get (p : Pair β) : Bool → HistSpec β
  | false => p.a
  | true => p.b

def Pair.set (p : Pair β) : Bool → HistSpec β → Pair β
  | false, h => { p with a := h }
  | true, h => { p with b := h }

def step2 (p : Pair β) : HistBuf.Op2 β → Pair β
  | .on i o => p.set i (step (p.get i) o)
  | .moveCtor i => (p.set (!i) (p.get i)).set i movedFrom
  | .moveAssign i j => if i = j then p else (p.set j (p.get i)).set i movedFrom

def run2 (ops : List (HistBuf.Op2 β)) : Pair β := ops.foldl step2 ⟨init, init⟩

end HistSpec
end BFL
