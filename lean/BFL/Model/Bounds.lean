import BFL.Model.Bounds.Algebra
import BFL.Model.Bounds.Models
import BFL.Model.Bounds.Sigma
import BFL.Model.Bounds.Particles
import BFL.Model.Bounds.Cases
import BFL.Model.Bounds.Filters
import BFL.Model.Bounds.Handover
/-
C14 — shape algebra and transcriptions (see the files of `BFL/Model/Bounds/`):
  Algebra    side conditions, writer monad, Eigen operations
  Models     WhiteNoiseAcceleration, LinearModel, SimulatedStateModel, SimulatedLinearSensor, HistoryBuffer, InitSurveillanceAreaGrid
  Sigma      GaussianMixture, sigma_point, unscented_transform (+ overloads), KF / UKF / SUKF correction
  Particles  ParticleSet, Resampling, ResamplingWithPrior, EstimatesExtraction, GPFCorrection sampling, closure lifetimes
  Cases      one case + documented precondition per harness entry point
-/
