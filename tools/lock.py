#!/usr/bin/env python3
"""Re-fingerprint the statements of the property theorems:  python3 tools/lock.py C01 [C02 ...]
A deliberate, manual action (never run by a check): the lock is what stops a statement from being
weakened quietly to make a proof pass."""
import json, os, sys
sys.path.insert(0, os.path.dirname(os.path.dirname(os.path.abspath(__file__))))
import vlib

for prop in sys.argv[1:]:
    lockp = vlib.VERIF / "locks" / (prop + ".json")
    lock = {}
    a = vlib.audit(prop)
    if not a.get("build_ok"):
        print(a["log"]); sys.exit(1)
    for o in a["obligations"]:
        if o.get("stmt_hash"):
            lock[o["name"]] = {"property": prop, "hash": o["stmt_hash"], "statement": o["statement"]}
            print("locked", o["name"], o["axioms"])
        else:
            print("NOT locked", o["name"], o["why"]); print(a.get("audit_log", ""))
    lockp.write_text(json.dumps(lock, indent=1, sort_keys=True) + "\n")
