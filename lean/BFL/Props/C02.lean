import BFL.Model.KF
import BFL.Bridge.Mat
import Mathlib.LinearAlgebra.Matrix.PosDef
import Mathlib.Algebra.Order.Star.Real
/-
C02 — Kalman prediction is the exact linear-Gaussian time update.

Theorems about the model `BFL.kfPredict` (BFL/Model/KF.lean) over ℝ, for all dimensions,
component counts, arbitrary square `F`, symmetric PSD `P`, `Q`, with and without an
exogenous model (`exo : Option (state ↦ contribution)`).
-/
namespace BFL
open Matrix

variable {n k : Nat}

/-- Predicted mean without exogenous model: `F m`. -/
theorem kfp_mean_plain (F : Mat ℝ n n) (x : Vec ℝ n) :
    toV (propagateMean F none x) = toM F *ᵥ toV x := by
  simp [propagateMean]

/-- Predicted mean with an exogenous model contributing `u = g x`: `F m + u`. -/
theorem kfp_mean_exogenous (F : Mat ℝ n n) (g : Vec ℝ n → Vec ℝ n) (x : Vec ℝ n) :
    toV (propagateMean F (some g) x) = toM F *ᵥ toV x + toV (g x) := by
  simp [propagateMean]

/-- The exogenous contribution enters additively: result = result without it + `u`. -/
theorem kfp_exogenous_additive (F : Mat ℝ n n) (g : Vec ℝ n → Vec ℝ n) (x : Vec ℝ n) :
    toV (propagateMean F (some g) x) = toV (propagateMean F none x) + toV (g x) := by
  simp [propagateMean]

/-- Predicted covariance: `F P Fᵀ + Q`. -/
theorem kfp_cov (F P Q : Mat ℝ n n) :
    toM (kfPredictCov F P Q) = toM F * toM P * (toM F)ᵀ + toM Q := by
  simp [kfPredictCov]

/-- Symmetric whenever `P` and `Q` are. -/
theorem kfp_symm (F P Q : Mat ℝ n n) (hP : (toM P)ᵀ = toM P) (hQ : (toM Q)ᵀ = toM Q) :
    (toM (kfPredictCov F P Q))ᵀ = toM (kfPredictCov F P Q) := by
  rw [kfp_cov]
  simp [Matrix.transpose_mul, hP, hQ, Matrix.mul_assoc]

/-- Positive semi-definite whenever `P` and `Q` are (singular `P`, `Q` allowed). -/
theorem kfp_posSemidef (F P Q : Mat ℝ n n) (hP : (toM P).PosSemidef) (hQ : (toM Q).PosSemidef) :
    (toM (kfPredictCov F P Q)).PosSemidef := by
  rw [kfp_cov]
  have h := hP.mul_mul_conjTranspose_same (toM F)
  simpa using h.add hQ

/-- The step on a mixture: component `i` of the output is the time update of component `i` of
    the input and nothing else; weights of the output mixture are not written. -/
theorem kfp_step (F Q : Mat ℝ n n) (exo : Option (Vec ℝ n → Vec ℝ n)) (b out : GM ℝ n k) (i : Fin k) :
    toV ((kfPredict F Q exo b out).mean i)
        = toM F *ᵥ toV (b.mean i) + (match exo with | none => 0 | some g => toV (g (b.mean i))) ∧
    toM ((kfPredict F Q exo b out).cov i) = toM F * toM (b.cov i) * (toM F)ᵀ + toM Q ∧
    (kfPredict F Q exo b out).weight = out.weight := by
  refine ⟨?_, kfp_cov F (b.cov i) Q, rfl⟩
  cases exo <;> simp [kfPredict, propagateMean]

/-- Components do not influence one another. -/
theorem kfp_component_independent (F Q : Mat ℝ n n) (exo : Option (Vec ℝ n → Vec ℝ n))
    (b b' out out' : GM ℝ n k) (i : Fin k) (hm : b.mean i = b'.mean i) (hc : b.cov i = b'.cov i) :
    (kfPredict F Q exo b out).mean i = (kfPredict F Q exo b' out').mean i ∧
    (kfPredict F Q exo b out).cov i = (kfPredict F Q exo b' out').cov i := by
  simp [kfPredict, hm, hc]

/-- Non-vacuity of the PSD hypotheses: `P = Q = 0` (singular) and `P = Q = 1`. -/
example : (toM (Mat.zero : Mat ℝ 2 2)).PosSemidef ∧ (toM (Mat.one : Mat ℝ 2 2)).PosSemidef := by
  constructor
  · rw [toM_zero]; exact Matrix.PosSemidef.zero
  · rw [toM_one]; exact Matrix.PosSemidef.one

end BFL
