import BFL.Model.Density
import BFL.Bridge.Mat
import BFL.Bridge.Transc
import BFL.Proofs.Density
/-
`log_sum_exp` of the model over ℝ and over `Ext ℝ` (entries `−∞`): helper lemmas.
-/
namespace BFL
open Matrix

/-! ### over ℝ -/

theorem vmax_spec {n : Nat} (x : Vec ℝ (n + 1)) : (∀ i, x i ≤ vmax x) ∧ ∃ i, vmax x = x i := by
  have h := DensityProofs.foldmax_spec n (fun i => x i.succ) (x 0)
  simp only at h
  obtain ⟨h1, h2, h3⟩ := h
  unfold vmax
  refine ⟨fun i => ?_, ?_⟩
  · refine Fin.cases ?_ (fun j => ?_) i
    · exact h1
    · exact h2 j
  · rcases h3 with h | ⟨j, hj⟩
    · exact ⟨0, h⟩
    · exact ⟨j.succ, hj⟩

theorem logSumExp_real {n : Nat} (x : Vec ℝ (n + 1)) :
    logSumExp x = vmax x + Real.log (∑ i, Real.exp (x i - vmax x)) := by
  simp [logSumExp, fsum_eq_sum]

/-! ### over `Ext ℝ` -/
namespace Ext

@[simp] theorem fin_lt_fin (a b : ℝ) : ((Ext.fin a : Ext ℝ) < Ext.fin b) ↔ a < b := Iff.rfl
@[simp] theorem negInf_lt_fin (b : ℝ) : ((Ext.negInf : Ext ℝ) < Ext.fin b) ↔ True := Iff.rfl
@[simp] theorem not_lt_negInf (x : Ext ℝ) : ¬ (x < Ext.negInf) := by cases x <;> exact fun h => h
@[simp] theorem not_lt_nan (x : Ext ℝ) : ¬ (x < Ext.nan) := by cases x <;> exact fun h => h
@[simp] theorem not_nan_lt (x : Ext ℝ) : ¬ ((Ext.nan : Ext ℝ) < x) := by cases x <;> exact fun h => h

theorem lt_irrefl' (x : Ext ℝ) : ¬ (x < x) := by
  cases x with
  | negInf => simp
  | fin a => simp
  | nan => simp

/-- `¬ (r < a)`, `r < g` ⇒ `¬ (g < a)` -/
theorem not_lt_of_not_lt_of_lt {a r g : Ext ℝ} (h1 : ¬ (r < a)) (h2 : r < g) : ¬ (g < a) := by
  cases a with
  | negInf => simp
  | nan => simp
  | fin a' =>
    cases g with
    | negInf => exact absurd h2 (by simp)
    | nan => exact absurd h2 (by simp)
    | fin g' =>
      cases r with
      | negInf => exact absurd (by simp) h1
      | nan => exact absurd h2 (by simp)
      | fin r' =>
        simp only [fin_lt_fin] at h1 h2 ⊢
        linarith

/-- the value of `exp` on an extended real, as a real (`exp(−∞) = 0`) -/
noncomputable def expR : Ext ℝ → ℝ
  | .negInf => 0
  | .fin a => Real.exp a
  | .nan => 0

theorem fin_add_fin (a b : ℝ) : (Ext.fin a : Ext ℝ) + Ext.fin b = Ext.fin (a + b) := rfl
theorem fin_sub_fin (a b : ℝ) : (Ext.fin a : Ext ℝ) - Ext.fin b = Ext.fin (a - b) := rfl
theorem negInf_sub_fin (b : ℝ) : (Ext.negInf : Ext ℝ) - Ext.fin b = Ext.negInf := rfl
theorem negInf_sub_negInf : (Ext.negInf : Ext ℝ) - Ext.negInf = Ext.nan := rfl
theorem exp_fin (a : ℝ) : Transc.exp (Ext.fin a : Ext ℝ) = Ext.fin (Real.exp a) := rfl
theorem exp_negInf : Transc.exp (Ext.negInf : Ext ℝ) = Ext.fin 0 := rfl
theorem exp_nan : Transc.exp (Ext.nan : Ext ℝ) = Ext.nan := rfl
theorem log_nan : Transc.log (Ext.nan : Ext ℝ) = Ext.nan := rfl
theorem zero_def : (0 : Ext ℝ) = Ext.fin 0 := rfl
theorem add_nan (x : Ext ℝ) : x + Ext.nan = Ext.nan := by cases x <;> rfl
theorem nan_add (x : Ext ℝ) : Ext.nan + x = Ext.nan := by cases x <;> rfl

theorem log_fin_pos {a : ℝ} (h : 0 < a) : Transc.log (Ext.fin a : Ext ℝ) = Ext.fin (Real.log a) := by
  show (if (0:ℝ) < a then Ext.fin (Transc.log a) else if a < 0 then Ext.nan else Ext.negInf) = _
  rw [if_pos h]; rfl

theorem fsum_fin : ∀ (n : Nat) (t : Fin n → ℝ),
    fsum n (fun i => (Ext.fin (t i) : Ext ℝ)) = Ext.fin (∑ i, t i)
  | 0, t => by simp [fsum, Fin.foldl_zero, zero_def]
  | n + 1, t => by
    have ih := fsum_fin n (fun i => t i.castSucc)
    unfold fsum at ih ⊢
    rw [Fin.foldl_succ_last, Fin.sum_univ_castSucc, ih, fin_add_fin]

theorem fsum_nan : ∀ (n : Nat), fsum (n + 1) (fun _ => (Ext.nan : Ext ℝ)) = Ext.nan
  | n => by unfold fsum; rw [Fin.foldl_succ_last, add_nan]

/-- running maximum over `Ext ℝ` without `nan`: not below the start, not below any entry, attained -/
theorem foldmax_spec : ∀ (n : Nat) (g : Fin n → Ext ℝ) (init : Ext ℝ), init ≠ Ext.nan → (∀ i, g i ≠ Ext.nan) →
    let r := Fin.foldl n (fun acc i => if acc < g i then g i else acc) init
    r ≠ Ext.nan ∧ ¬ (r < init) ∧ (∀ i, ¬ (r < g i)) ∧ (r = init ∨ ∃ i, r = g i)
  | 0, g, init, h0, _ => by
    simp only [Fin.foldl_zero]
    refine ⟨h0, lt_irrefl' init, fun i => i.elim0, ?_⟩
    simp
  | n + 1, g, init, h0, hg => by
    have ih := foldmax_spec n (fun i => g i.castSucc) init h0 (fun i => hg i.castSucc)
    simp only at ih ⊢
    rw [Fin.foldl_succ_last]
    set r := Fin.foldl n (fun acc i => if acc < g i.castSucc then g i.castSucc else acc) init with hr
    obtain ⟨h1, h2, h3, h4⟩ := ih
    by_cases hlt : r < g (Fin.last n)
    · rw [if_pos hlt]
      refine ⟨hg _, not_lt_of_not_lt_of_lt h2 hlt, ?_, Or.inr ⟨Fin.last n, rfl⟩⟩
      intro i
      refine Fin.lastCases ?_ (fun j => ?_) i
      · exact lt_irrefl' _
      · exact not_lt_of_not_lt_of_lt (h3 j) hlt
    · rw [if_neg hlt]
      refine ⟨h1, h2, ?_, ?_⟩
      · intro i
        refine Fin.lastCases ?_ (fun j => ?_) i
        · exact hlt
        · exact h3 j
      · rcases h4 with h | ⟨j, hj⟩
        · exact Or.inl h
        · exact Or.inr ⟨j.castSucc, hj⟩

theorem vmax_spec {n : Nat} (x : Vec (Ext ℝ) (n + 1)) (hx : ∀ i, x i ≠ Ext.nan) :
    vmax x ≠ Ext.nan ∧ (∀ i, ¬ (vmax x < x i)) ∧ ∃ i, vmax x = x i := by
  have h := foldmax_spec n (fun i => x i.succ) (x 0) (hx 0) (fun i => hx i.succ)
  simp only at h
  obtain ⟨h1, h2, h3, h4⟩ := h
  unfold vmax
  refine ⟨h1, fun i => ?_, ?_⟩
  · refine Fin.cases ?_ (fun j => ?_) i
    · exact h2
    · exact h3 j
  · rcases h4 with h | ⟨j, hj⟩
    · exact ⟨0, h⟩
    · exact ⟨j.succ, hj⟩

/-- With no `nan` and at least one finite entry the maximum is finite, every entry is `−∞` or a
    finite value not above it, and it is attained. -/
theorem vmax_finite {n : Nat} (x : Vec (Ext ℝ) (n + 1)) (hx : ∀ i, x i ≠ Ext.nan)
    (hfin : ∃ i a, x i = Ext.fin a) :
    ∃ mx : ℝ, vmax x = Ext.fin mx ∧ (∀ i, x i = Ext.negInf ∨ ∃ b, x i = Ext.fin b ∧ b ≤ mx) ∧
      ∃ i, x i = Ext.fin mx := by
  obtain ⟨h1, h2, j, hj⟩ := vmax_spec x hx
  obtain ⟨i0, a, ha⟩ := hfin
  have hne : vmax x ≠ Ext.negInf := by
    intro h
    have := h2 i0
    rw [h, ha] at this
    exact this (by simp)
  cases hv : vmax x with
  | negInf => exact absurd hv hne
  | nan => exact absurd hv h1
  | fin mx =>
    refine ⟨mx, rfl, fun i => ?_, j, by rw [← hj, hv]⟩
    have hi := h2 i
    rw [hv] at hi
    cases hxi : x i with
    | negInf => exact Or.inl rfl
    | nan => exact absurd hxi (hx i)
    | fin b =>
      rw [hxi] at hi
      simp only [fin_lt_fin, not_lt] at hi
      exact Or.inr ⟨b, rfl, hi⟩

end Ext

end BFL
