// Shared plumbing of the correspondence harnesses.
// A harness reads one case per line from stdin (`op tok tok ...`), runs the real library
// classes in-process, and prints one canonical line per case.  Doubles travel as 16 hex
// digits (IEEE-754 bit pattern); matrices are column-major (Eigen's storage order).
#pragma once
#include <cerrno>
#include <Eigen/Dense>
#include <cstdint>
#include <cstring>
#include <cstdio>
#include <iostream>
#include <sstream>
#include <string>
#include <vector>
#include <stdexcept>
#include <functional>

namespace vh {

struct BadArgs : std::runtime_error { BadArgs(const std::string& s) : std::runtime_error(s) {} };

struct Toks {
    std::vector<std::string> t; size_t p = 0;
    explicit Toks(const std::string& line) { std::istringstream is(line); std::string s; while (is >> s) t.push_back(s); }
    bool empty() const { return p >= t.size(); }
    std::string tok() { if (p >= t.size()) throw BadArgs("eol"); return t[p++]; }
    long nat() { std::string s = tok(); char* e = nullptr; long v = std::strtol(s.c_str(), &e, 10); if (*e) throw BadArgs("nat:" + s); return v; }
    // the full range of std::size_t (indices beyond 2^31, 2^32, 2^63)
    unsigned long long unat() { std::string s = tok(); char* e = nullptr; errno = 0; unsigned long long v = std::strtoull(s.c_str(), &e, 10); if (*e || errno || s.empty() || s[0] == '-') throw BadArgs("unat:" + s); return v; }
    bool flag() { return nat() != 0; }
    double dbl() {
        std::string s = tok(); if (s.size() != 16) throw BadArgs("hex:" + s);
        uint64_t b = std::strtoull(s.c_str(), nullptr, 16); double d; std::memcpy(&d, &b, 8); return d;
    }
    Eigen::MatrixXd mat(long r, long c) { Eigen::MatrixXd m(r, c); for (long j = 0; j < c; ++j) for (long i = 0; i < r; ++i) m(i, j) = dbl(); return m; }
    Eigen::VectorXd vec(long n) { Eigen::VectorXd v(n); for (long i = 0; i < n; ++i) v(i) = dbl(); return v; }
    void done() { if (p != t.size()) throw BadArgs("trailing"); }
};

inline std::string hx(double d) { uint64_t b; std::memcpy(&b, &d, 8); char buf[17]; std::snprintf(buf, sizeof buf, "%016llx", (unsigned long long)b); return buf; }

struct Out {
    std::ostringstream os; bool first = true;
    Out& s(const std::string& x) { if (!first) os << ' '; os << x; first = false; return *this; }
    Out& n(long x) { return s(std::to_string(x)); }
    Out& d(double x) { return s(hx(x)); }
    template <class M> Out& m(const M& a) { for (long j = 0; j < a.cols(); ++j) for (long i = 0; i < a.rows(); ++i) d(a(i, j)); return *this; }
    std::string str() const { return os.str(); }
};

inline bool same_bits(const Eigen::MatrixXd& a, const Eigen::MatrixXd& b) {
    if (a.rows() != b.rows() || a.cols() != b.cols()) return false;
    if (a.size() == 0) return true;
    return std::memcmp(a.data(), b.data(), sizeof(double) * a.size()) == 0;
}

using Handler = std::function<std::string(Toks&)>;

// main loop: dispatch(op, toks) returns the output line; exceptions are mapped to a small enum
inline int run(const std::function<bool(const std::string&, Toks&, std::string&)>& dispatch) {
    std::ios::sync_with_stdio(false);
    std::string line;
    while (std::getline(std::cin, line)) {
        Toks t(line);
        if (t.empty()) { std::cout << "bad-op\n"; continue; }
        std::string op = t.tok(), out;
        try {
            if (!dispatch(op, t, out)) out = "bad-op";
        } catch (const BadArgs& e) { out = std::string("bad-args"); }
        catch (const std::runtime_error& e) { out = "throw:runtime_error"; }
        catch (const std::exception& e) { out = "throw:exception"; }
        std::cout << out << "\n";
    }
    std::cout.flush();
    return 0;
}

} // namespace vh
