import BFL.Proofs.ResampleList
import BFL.Proofs.ResampleLog
/-
Helper lemmas for C07, set level: `Resampling::resample` and `ResamplingWithPrior::resample`
as functions on particle sets (over ℝ because of `exp`/`log`).
-/
namespace BFL.PF
set_option linter.unusedSectionVars false

section generic
variable {α : Type} [Field α] [LinearOrder α] [IsStrictOrderedRing α] [Inhabited α]

theorem resampleIdx_mem_lt (ws : List α) (u1 : α) (p : Nat) (hp : p ∈ resampleIdx ws u1) : p < ws.length := by
  rw [resampleIdx_eq] at hp
  obtain ⟨j, hj, rfl⟩ := List.mem_map.1 hp
  have := ptr_le (cum ws) ws.length u1 j
  have : j < ws.length := List.mem_range.1 hj
  omega

theorem resampleIdx_pairwise (ws : List α) (u1 : α) : (resampleIdx ws u1).Pairwise (· ≤ ·) := by
  rw [resampleIdx_eq, List.pairwise_map]
  exact List.Pairwise.imp (fun h => ptr_mono (cum ws) ws.length u1 (Nat.le_of_lt h)) List.pairwise_lt_range

end generic

section sets
variable {π : Type} [Inhabited π]

theorem resample_parents (cor res : PSet π ℝ) (u1 : ℝ) :
    (resample cor res u1).2 = (resampleIdx (cor.logw.map Real.exp) u1).map Int.ofNat := rfl

theorem resample_parts (cor res : PSet π ℝ) (u1 : ℝ) :
    (resample cor res u1).1.parts =
      (resampleIdx (cor.logw.map Real.exp) u1).map (fun p => cor.parts.toArray.getD p default)
        ++ res.parts.drop cor.logw.length := rfl

theorem resample_logw (cor res : PSet π ℝ) (u1 : ℝ) :
    (resample cor res u1).1.logw =
      List.replicate cor.logw.length (-(Real.log (cor.logw.length : ℝ))) ++ res.logw.drop cor.logw.length := rfl

theorem resample_parents_length (cor res : PSet π ℝ) (u1 : ℝ) :
    (resample cor res u1).2.length = cor.logw.length := by
  simp [resample_parents, resampleIdx_length]

/-- entry `j` of the output is the input particle at the reported parent -/
theorem resample_copy (cor res : PSet π ℝ) (u1 : ℝ) (hc : cor.parts.length = cor.logw.length)
    (j : Nat) (hj : j < cor.logw.length) :
    ∃ (p : Nat) (hp : p < cor.parts.length),
      (resampleIdx (cor.logw.map Real.exp) u1)[j]? = some p ∧
      (resample cor res u1).2[j]? = some (p : Int) ∧
      (resample cor res u1).1.parts[j]? = some cor.parts[p] := by
  have hlen : (resampleIdx (cor.logw.map Real.exp) u1).length = cor.logw.length := by
    simp [resampleIdx_length]
  have hj' : j < (resampleIdx (cor.logw.map Real.exp) u1).length := by omega
  have hmem := List.getElem_mem hj'
  have hp := resampleIdx_mem_lt _ _ _ hmem
  simp only [List.length_map] at hp
  refine ⟨(resampleIdx (cor.logw.map Real.exp) u1)[j], by omega, ?_, ?_, ?_⟩
  · exact List.getElem?_eq_getElem hj'
  · rw [resample_parents, List.getElem?_map, List.getElem?_eq_getElem hj']; rfl
  · rw [resample_parts, List.getElem?_append_left (by simpa using hj'), List.getElem?_map,
      List.getElem?_eq_getElem hj']
    simp [show (resampleIdx (cor.logw.map Real.exp) u1)[j] < cor.parts.length by omega]

end sets

end BFL.PF
