import BFL.Core.Mat
import BFL.Core.Transc
import BFL.Model.KF
/-
Model of the unscented transform and of the unscented Kalman steps.

  sigma_point::unscented_weights                  src/BayesFilters/src/sigma_point.cpp:53-81
  sigma_point::sigma_point                        src/BayesFilters/src/sigma_point.cpp:84-122
  sigma_point::unscented_transform (generic)      src/BayesFilters/src/sigma_point.cpp:125-203
  … the four model overloads                      src/BayesFilters/src/sigma_point.cpp:206-318
  VectorDescription::dof_size                     src/BayesFilters/src/VectorDescription.cpp:72-82
  GaussianMixture::augmentWithNoise               src/BayesFilters/src/GaussianMixture.cpp:190-247
  UKFPrediction::predictStep                      src/BayesFilters/src/UKFPrediction.cpp:78-101
  UKFCorrection::correctStep / getLikelihood      src/BayesFilters/src/UKFCorrection.cpp:71-167

The matrix square root of the covariance (`JacobiSVD`, `U √Σ`, scaled by `√c`) is the parameter
`fac c P`; theorems assume only the contract `fac c P · (fac c P)ᵀ = c · P` on the calls made.
The matrix inverse of the gain (`.inverse()`) is the parameter `inv`, as in `BFL/Model/KF.lean`.

Part 1 (this section): linear layouts with an optional appended noise block, over any scalar
with field operations (read over ℚ for execution and over ℝ / any field for the theorems).
Part 2 (`section layouts`): Euler-circular and quaternion blocks, over `Transc` scalars.
-/
namespace BFL

/-- `UTWeight{mean, covariance, c}` for an input space with `n` degrees of freedom. -/
structure UTWeight (α : Type) (n : Nat) where
  mean : Vec α (2 * n + 1)
  cov : Vec α (2 * n + 1)
  c : α

/-- Vector layout as `VectorDescription` / `GaussianMixture` record it. -/
structure Layout where
  lin : Nat
  circ : Nat
  quat : Bool
  noise : Nat
deriving Repr, DecidableEq

namespace Layout
/-- rows taken by one circular component (`dim_circular_component`) -/
def csize (ly : Layout) : Nat := if ly.quat then 4 else 1
/-- tangent-space rows of one circular component -/
def tsize (ly : Layout) : Nat := if ly.quat then 3 else 1
/-- `total_size()` / `GaussianMixture::dim` -/
def dim (ly : Layout) : Nat := ly.lin + ly.circ * ly.csize + ly.noise
/-- `VectorDescription::dof_size()` / `GaussianMixture::dim_covariance`: a quaternion counts 3. -/
def dof (ly : Layout) : Nat :=
  if ly.quat then ly.lin + ly.circ * 3 + ly.noise else ly.lin + ly.circ + ly.noise
/-- `noiseless_description()` -/
def noiseless (ly : Layout) : Layout := { ly with noise := 0 }
/-- `add_noise_components` -/
def addNoise (ly : Layout) (m : Nat) : Layout := { ly with noise := ly.noise + m }
end Layout

section weights
variable {α : Type} [Add α] [Sub α] [Mul α] [Div α] [NatCast α]

/-- `lambda = pow(alpha, 2) * (n + kappa) - n` -/
def utLambda (n : Nat) (alpha kappa : α) : α :=
  alpha * alpha * ((n : α) + kappa) - (n : α)

/-- `unscented_weights`: entry 0 and entries `j ≥ 1` are the two branches of the loop body. -/
def utWeights (n : Nat) (alpha beta kappa : α) : UTWeight α n :=
  let lam := utLambda n alpha kappa
  let c := (n : α) + lam
  let wm0 := lam / c
  let wc0 := lam / c + (((1 : Nat) : α) - alpha * alpha + beta)
  let wj := ((1 : Nat) : α) / (((2 : Nat) : α) * c)
  { mean := Vec.of (fun j => if j.val = 0 then wm0 else wj)
    cov := Vec.of (fun j => if j.val = 0 then wc0 else wj)
    c := c }

/-- weights of a freshly constructed mixture: `1.0 / components` each -/
def uniformWeights (k : Nat) : Vec α k :=
  let w := ((1 : Nat) : α) / (k : α)
  Vec.of (fun _ => w)
end weights

section points
variable {α : Type} [Add α] [Neg α] [Zero α] [Inhabited α] {n k : Nat}

/-- `perturbations << 0, √c A, -√c A` with `B = √c A` (sigma_point.cpp:96-97). -/
def perturb (B : Mat α n n) : Mat α n (2 * n + 1) :=
  Mat.of (fun i j =>
    if _h0 : j.val = 0 then 0
    else if h1 : j.val ≤ n then B i ⟨j.val - 1, by omega⟩
    else - B i ⟨j.val - 1 - n, by have := j.isLt; omega⟩)

/-- linear / noise rows: `perturbations.colwise() + mean` (sigma_point.cpp:99-100, 117-118). -/
def sigmaPts (m : Vec α n) (E : Mat α n (2 * n + 1)) : Mat α n (2 * n + 1) :=
  Mat.of (fun i j => E i j + m i)

/-- `sigma_point(state, c)` for a linear (+ noise) layout: one block of `2n+1` columns per
    component, `fac c P` being the scaled square-root factor of `P`. -/
def sigmaPoints (fac : α → Mat α n n → Mat α n n) (c : α) (b : GM α n k) :
    Fin k → Mat α n (2 * n + 1) :=
  fun i => Mat.eval (sigmaPts (b.mean i) (perturb (fac c (b.cov i))))
end points

/-- Result of `unscented_transform`: output mixture (means, covariances, fresh uniform weights)
    and the input/output cross-covariance per component (`nx` = input rows without noise). -/
structure UTOut (α : Type) (nx ny k : Nat) where
  mean : Fin k → Vec α ny
  cov : Fin k → Mat α ny ny
  cross : Fin k → Mat α nx ny
  weight : Vec α k

section transform
variable {α : Type} [Add α] [Sub α] [Mul α] [Div α] [Zero α] [NatCast α] [Inhabited α]
variable {nx nz ny k N : Nat}

/-- `points.colwise() - mean` -/
def utOffsets (Y : Mat α ny N) (m : Vec α ny) : Mat α ny N :=
  Mat.of (fun i j => Y i j - m i)

/-- `offsets * weight.asDiagonal()` -/
def scaleCols {r : Nat} (D : Mat α r N) (w : Vec α N) : Mat α r N :=
  Mat.of (fun i j => D i j * w j)

/-- `offsets * wc.asDiagonal() * offsetsᵀ` -/
def utCov {r s : Nat} (wc : Vec α N) (D : Mat α r N) (D' : Mat α s N) : Mat α r s :=
  (Mat.eval (scaleCols D wc)).mul D'.transpose

/-- the rows of the input that are not noise (`dim_covariance - dim_noise` leading rows) -/
def topRows (X : Mat α (nx + nz) N) : Mat α nx N :=
  Mat.of (fun i j => X (Fin.castAdd nz i) j)

def Vec.top (v : Vec α (nx + nz)) : Vec α nx :=
  Vec.of (fun i => v (Fin.castAdd nz i))

/-- Moments of one component (loop body of sigma_point.cpp:156-200, linear output layout):
    mean `Y wm`, covariance of the offsets, cross-covariance of the non-noise input offsets. -/
def utComponent (w : UTWeight α (nx + nz)) (inMean : Vec α (nx + nz))
    (X : Mat α (nx + nz) (2 * (nx + nz) + 1)) (Y : Mat α ny (2 * (nx + nz) + 1)) :
    Vec α ny × Mat α ny ny × Mat α nx ny :=
  let mean := Y.mulVec w.mean
  let D := Mat.eval (utOffsets Y mean)
  let Din := Mat.eval (utOffsets (topRows X) (Vec.top inMean))
  (mean, utCov w.cov D D, utCov w.cov Din D)

/-- Everything after a successful function evaluation. -/
def utCore (w : UTWeight α (nx + nz)) (inMean : Fin k → Vec α (nx + nz))
    (X : Fin k → Mat α (nx + nz) (2 * (nx + nz) + 1)) (Y : Fin k → Mat α ny (2 * (nx + nz) + 1)) :
    UTOut α nx ny k :=
  { mean := fun i => (utComponent w (inMean i) (X i) (Y i)).1
    cov := fun i => (utComponent w (inMean i) (X i) (Y i)).2.1
    cross := fun i => (utComponent w (inMean i) (X i) (Y i)).2.2
    weight := uniformWeights k }

/-- A `FunctionEvaluation`: called once on the sigma points of all components; `none` is an
    evaluation reported as failed. -/
abbrev FunEval (α : Type) (nin ny k : Nat) :=
  (Fin k → Mat α nin (2 * nin + 1)) → Option (Fin k → Mat α ny (2 * nin + 1))

/-- Generic `unscented_transform` given the sigma points: `none` stands for the early return
    `(false, GaussianMixture(), MatrixXd(0, 0))` (sigma_point.cpp:142-143). -/
def utFromPoints (w : UTWeight α (nx + nz)) (inMean : Fin k → Vec α (nx + nz))
    (X : Fin k → Mat α (nx + nz) (2 * (nx + nz) + 1)) (f : FunEval α (nx + nz) ny k) :
    Option (UTOut α nx ny k) :=
  match f X with
  | none => none
  | some Y => some (utCore w inMean X Y)

/-- post-processing of the additive overloads: `output.covariance(i) += noise` -/
def UTOut.addNoise (o : UTOut α nx ny k) (Q : Mat α ny ny) : UTOut α nx ny k :=
  { o with cov := fun i => (o.cov i).add Q }

variable [Neg α]

/-- generic overload (`FunctionEvaluation`) on a mixture -/
def unscentedTransform (fac : α → Mat α (nx + nz) (nx + nz) → Mat α (nx + nz) (nx + nz))
    (w : UTWeight α (nx + nz)) (b : GM α (nx + nz) k) (f : FunEval α (nx + nz) ny k) :
    Option (UTOut α nx ny k) :=
  utFromPoints w b.mean (sigmaPoints fac w.c b) f

/-- `StateModel&` overload: the evaluation (`motion`) always reports success and the flag is dropped. -/
def utStateModel (fac : α → Mat α (nx + nz) (nx + nz) → Mat α (nx + nz) (nx + nz))
    (w : UTWeight α (nx + nz)) (b : GM α (nx + nz) k)
    (motion : (Fin k → Mat α (nx + nz) (2 * (nx + nz) + 1)) → (Fin k → Mat α ny (2 * (nx + nz) + 1))) :
    UTOut α nx ny k :=
  let X := sigmaPoints fac w.c b
  utCore w b.mean X (motion X)

/-- `AdditiveStateModel&` overload: `propagate`, then `Q` added to every covariance. -/
def utAdditiveStateModel (fac : α → Mat α (nx + nz) (nx + nz) → Mat α (nx + nz) (nx + nz))
    (w : UTWeight α (nx + nz)) (b : GM α (nx + nz) k)
    (propagate : (Fin k → Mat α (nx + nz) (2 * (nx + nz) + 1)) → (Fin k → Mat α ny (2 * (nx + nz) + 1)))
    (Q : Mat α ny ny) : UTOut α nx ny k :=
  (utStateModel fac w b propagate).addNoise Q

/-- `MeasurementModel&` overload: `predictedMeasure` may fail; the flag is passed on. -/
def utMeasurementModel (fac : α → Mat α (nx + nz) (nx + nz) → Mat α (nx + nz) (nx + nz))
    (w : UTWeight α (nx + nz)) (b : GM α (nx + nz) k) (predicted : FunEval α (nx + nz) ny k) :
    Option (UTOut α nx ny k) :=
  unscentedTransform fac w b predicted

/-- `AdditiveMeasurementModel&` overload: on failure nothing is post-processed (early return),
    otherwise `R` is added to every covariance. -/
def utAdditiveMeasurementModel (fac : α → Mat α (nx + nz) (nx + nz) → Mat α (nx + nz) (nx + nz))
    (w : UTWeight α (nx + nz)) (b : GM α (nx + nz) k) (predicted : FunEval α (nx + nz) ny k)
    (R : Mat α ny ny) : Option (UTOut α nx ny k) :=
  match unscentedTransform fac w b predicted with
  | none => none
  | some o => some (o.addNoise R)

/-- The affine map `X ↦ A X + b` applied column by column to every component
    (what a linear(ised) model's `propagate` / `motion` / `predictedMeasure` computes). -/
def affineMap {nin : Nat} (A : Mat α ny nin) (b : Vec α ny) :
    (Fin k → Mat α nin N) → (Fin k → Mat α ny N) :=
  fun X i => let AX := A.mul (X i); Mat.eval (Mat.of (fun r j => AX r j + b r))

/-- `[A D]`: the matrix of `x, w ↦ A x + D w` on the augmented vector -/
def hcat {r : Nat} (A : Mat α r nx) (D : Mat α r nz) : Mat α r (nx + nz) :=
  Mat.of (fun i j => if h : j.val < nx then A i ⟨j.val, h⟩ else D i ⟨j.val - nx, by have := j.isLt; omega⟩)

/-- `GaussianMixture::augmentWithNoise` (square `Q`): zero-mean noise rows appended to every
    mean, `blockdiag(P_i, Q)` as covariance, weights untouched. -/
def augmentWithNoise (b : GM α nx k) (Q : Mat α nz nz) : GM α (nx + nz) k :=
  { mean := fun i => Vec.eval (Vec.of (fun r => if h : r.val < nx then b.mean i ⟨r.val, h⟩ else 0))
    cov := fun i => Mat.eval (Mat.of (fun r s =>
      if hr : r.val < nx then
        (if hs : s.val < nx then b.cov i ⟨r.val, hr⟩ ⟨s.val, hs⟩ else 0)
      else
        (if hs : s.val < nx then 0
         else Q ⟨r.val - nx, by have := r.isLt; omega⟩ ⟨s.val - nx, by have := s.isLt; omega⟩)))
    weight := b.weight }

/-- `augmentWithNoise` with its guard: a non-square matrix is refused (`return false`, mixture untouched). -/
def augmentWithNoiseChecked {r c : Nat} (b : GM α nx k) (Q : Mat α r c) : Option (GM α (nx + r) k) :=
  if h : r = c then some (augmentWithNoise b (h ▸ Q : Mat α r r)) else none

end transform

/-! ### Unscented Kalman steps -/

section ukf
variable {α : Type} [Add α] [Sub α] [Mul α] [Div α] [Neg α] [Zero α] [NatCast α] [Inhabited α]
variable {n nz m k : Nat}

/-- mixture assignment `pred_state = output` (means, covariances and the fresh weights) -/
def UTOut.toGM {nx : Nat} (o : UTOut α nx n k) : GM α n k :=
  { mean := o.mean, cov := o.cov, weight := o.weight }

/-- `UKFPrediction::predictStep`, additive constructor: weights sized by the noiseless input
    description (`n`), transform through `propagate`, `Q` added.  `skipping` is the state
    model's skip flag (first branch). -/
def ukfPredictAdditive (fac : α → Mat α n n → Mat α n n) (alpha beta kappa : α) (skipping : Bool)
    (propagate : (Fin k → Mat α n (2 * n + 1)) → (Fin k → Mat α n (2 * n + 1)))
    (Q : Mat α n n) (prev : GM α n k) : GM α n k :=
  if skipping then prev
  else (utAdditiveStateModel (nx := n) (nz := 0) fac (utWeights n alpha beta kappa) prev propagate Q).toGM

/-- `UKFPrediction::predictStep`, generic constructor: the belief is augmented with the process
    noise statistics and pushed through `motion`, which reads the noise rows. -/
def ukfPredictAugmented (fac : α → Mat α (n + nz) (n + nz) → Mat α (n + nz) (n + nz)) (alpha beta kappa : α) (skipping : Bool)
    (motion : (Fin k → Mat α (n + nz) (2 * (n + nz) + 1)) → (Fin k → Mat α n (2 * (n + nz) + 1)))
    (Q : Mat α nz nz) (prev : GM α n k) : GM α n k :=
  if skipping then prev
  else (utStateModel (nx := n) (nz := nz) fac (utWeights (n + nz) alpha beta kappa) (augmentWithNoise prev Q) motion).toGM

/-- What `UKFCorrection` keeps for `getLikelihood`: innovations and predicted-measurement
    covariances (`innovations_`, `predicted_meas_`); `none` unless this correction succeeded
    (`innovations_` is emptied when a correction starts: code after fix 5117f2c). -/
structure UKFCorrOut (α : Type) (n m k : Nat) where
  belief : GM α n k
  lik : Option ((Fin k → Vec α m) × (Fin k → Mat α m m))

/-- Tail of `UKFCorrection::correctStep` once the joint statistics are available
    (UKFCorrection.cpp:126-166). -/
def ukfUpdate {nx : Nat} (inv : Mat α m m → Mat α m m)
    (innovation : (Fin k → Vec α m) → Vec α m → Option (Fin k → Vec α m))
    (y : Vec α m) (ut : UTOut α nx m k) (pxy : Fin k → Mat α n m) (pred out : GM α n k) : UKFCorrOut α n m k :=
  match innovation ut.mean y with
  | none => { belief := pred, lik := none }
  | some nu =>
    let K : Fin k → Mat α n m := fun i => (pxy i).mul (inv (ut.cov i))
    { belief :=
        { mean := fun i => (pred.mean i).add ((K i).mulVec (nu i))
          cov := fun i => (pred.cov i).sub (((K i).mul (ut.cov i)).mul (K i).transpose)
          weight := out.weight }
      lik := some (nu, ut.cov) }

/-- `UKFCorrection::correctStep`, additive constructor.  `meas = none`: no valid measurement. -/
def ukfCorrectAdditive (fac : α → Mat α n n → Mat α n n) (inv : Mat α m m → Mat α m m)
    (alpha beta kappa : α) (meas : Option (Vec α m))
    (predicted : FunEval α n m k) (R : Mat α m m)
    (innovation : (Fin k → Vec α m) → Vec α m → Option (Fin k → Vec α m))
    (pred out : GM α n k) : UKFCorrOut α n m k :=
  match meas with
  | none => { belief := pred, lik := none }
  | some y =>
    match utAdditiveMeasurementModel (nx := n) (nz := 0) fac (utWeights n alpha beta kappa) pred predicted R with
    | none => { belief := pred, lik := none }
    | some ut => ukfUpdate inv innovation y ut ut.cross pred out

/-- `UKFCorrection::correctStep`, generic constructor: belief augmented with the measurement
    noise statistics; `Pxy` has the `n` state rows only. -/
def ukfCorrectAugmented (fac : α → Mat α (n + nz) (n + nz) → Mat α (n + nz) (n + nz)) (inv : Mat α m m → Mat α m m)
    (alpha beta kappa : α) (meas : Option (Vec α m))
    (predicted : FunEval α (n + nz) m k) (R : Mat α nz nz)
    (innovation : (Fin k → Vec α m) → Vec α m → Option (Fin k → Vec α m))
    (pred out : GM α n k) : UKFCorrOut α n m k :=
  match meas with
  | none => { belief := pred, lik := none }
  | some y =>
    match utMeasurementModel (nx := n) (nz := nz) fac (utWeights (n + nz) alpha beta kappa) (augmentWithNoise pred R) predicted with
    | none => { belief := pred, lik := none }
    | some ut => ukfUpdate inv innovation y ut ut.cross pred out

/-- `GaussianCorrection::correct` around `correctStep`: a skipped correction hands the predicted belief
    over unchanged (the whole mixture) and leaves the kept likelihood data alone.  The flag is part of the
    object's state and survives copy / move construction (code after fix 88cf1f5). -/
def gaussianCorrect (skip : Bool) (pred : GM α n k) (step : UKFCorrOut α n m k) : GM α n k :=
  if skip then pred else step.belief

/-- `GaussianPrediction::predict` around `predictStep` -/
def gaussianPredict (skip : Bool) (prev : GM α n k) (step : GM α n k) : GM α n k :=
  if skip then prev else step

/-- `LinearMeasurementModel::innovation`: `-(ŷ_i - y)` for every component, always valid. -/
def linearInnovation : (Fin k → Vec α m) → Vec α m → Option (Fin k → Vec α m) :=
  fun yp y => some (fun i => Vec.neg ((yp i).sub y))

end ukf

end BFL

/-! ## Part 2 — circular (Euler angle) and quaternion blocks

`directional_statistics.cpp` (`directional_add`, `directional_sub`, `directional_mean`) and the
quaternion utilities of `utils.h` (`rotation_vector_to_quaternion`, `quaternion_to_rotation_vector`,
`sum_quaternion_rotation_vector`, `diff_quaternion`), over any scalar with `Transc`; then
`sigma_point()` and the moment computation of `unscented_transform()` for an arbitrary `Layout`.
The dominant-eigenvector routine of `mean_quaternion` (`EigenSolver`) is a parameter whose result
is passed in (contract: unit eigenvector of `Σ w_j q_j q_jᵀ` for its largest eigenvalue, checked
numerically on every observed call). -/
namespace BFL

section circular
variable {α : Type} [Add α] [Sub α] [Mul α] [Div α] [Neg α] [Zero α] [One α] [OfScientific α]
variable [LT α] [DecidableLT α] [Transc α] [Inhabited α]

/-- `arg(exp(i x))`: the representative of the angle `x` in `(-π, π]` -/
def wrapAngle (x : α) : α := Transc.atan2 (Transc.sin x) (Transc.cos x)

/-- entry of `directional_add(a, b)`: `arg(exp(i (a + b)))` -/
def dirAdd (a b : α) : α := wrapAngle (a + b)

/-- entry of `directional_sub(a, b) = directional_add(a, -b)` -/
def dirSub (a b : α) : α := wrapAngle (a + (-b))

/-- one row of `directional_mean(a, w)`: a single column is returned wrapped to `(-π, π]`
    (code after fix e5e0548), otherwise `arg(Σ_k w_k exp(i a_k))` -/
def dirMean {N : Nat} (a w : Vec α N) : α :=
  if h : N = 1 then wrapAngle (a ⟨0, by omega⟩)
  else Transc.atan2 (fsum N (fun k => Transc.sin (a k) * w k)) (fsum N (fun k => Transc.cos (a k) * w k))

/-- a quaternion `(w, x, y, z)` (real part first) and a rotation vector -/
structure Quat (α : Type) where
  w : α
  x : α
  y : α
  z : α

structure V3 (α : Type) where
  x : α
  y : α
  z : α

/-- Eigen's `.norm()` of a 3-vector -/
def V3.norm (r : V3 α) : α := Transc.sqrt (r.x * r.x + r.y * r.y + r.z * r.z)

/-- `rotation_vector_to_quaternion` (utils.h:138-158), one column -/
def qexp (r : V3 α) : Quat α :=
  let nr := r.norm
  if (1e-4 : α) < nr then
    let s := Transc.sin (nr / 2.0)
    ⟨Transc.cos (nr / 2.0), s * r.x / nr, s * r.y / nr, s * r.z / nr⟩
  else ⟨1, 0, 0, 0⟩

/-- `quaternion_to_rotation_vector` (utils.h:98-120), one column; the vector part is the sine of
    half the angle, its cut-off is `5·10⁻⁵` (code after fix de34974) -/
def qlog (q : Quat α) : V3 α :=
  let nn := (V3.mk q.x q.y q.z).norm
  if (5e-5 : α) < nn then
    if q.w < 0 then
      let f := (-(2.0 : α)) * Transc.acos (-q.w)
      ⟨f * q.x / nn, f * q.y / nn, f * q.z / nn⟩
    else
      let f := (2.0 : α) * Transc.acos q.w
      ⟨f * q.x / nn, f * q.y / nn, f * q.z / nn⟩
  else ⟨0, 0, 0⟩

/-- Hamilton product (`Eigen::Quaternion::operator*`) -/
def qmul (a b : Quat α) : Quat α :=
  ⟨a.w * b.w - a.x * b.x - a.y * b.y - a.z * b.z,
   a.w * b.x + a.x * b.w + a.y * b.z - a.z * b.y,
   a.w * b.y + a.y * b.w + a.z * b.x - a.x * b.z,
   a.w * b.z + a.z * b.w + a.x * b.y - a.y * b.x⟩

def qconj (a : Quat α) : Quat α := ⟨a.w, -a.x, -a.y, -a.z⟩

/-- `sum_quaternion_rotation_vector(q, r) = exp(r/2) ⊗ q` -/
def qsum (q : Quat α) (r : V3 α) : Quat α := qmul (qexp r) q

/-- `diff_quaternion(q_left, q_right) = 2 log(q_left ⊗ q_right*)` -/
def qdiff (ql qr : Quat α) : V3 α := qlog (qmul ql (qconj qr))

def Quat.get (q : Quat α) (e : Nat) : α :=
  match e with | 0 => q.w | 1 => q.x | 2 => q.y | _ => q.z

def V3.get (r : V3 α) (e : Nat) : α :=
  match e with | 0 => r.x | 1 => r.y | _ => r.z

end circular
end BFL

namespace BFL

section layouts
variable {α : Type} [Add α] [Sub α] [Mul α] [Div α] [Neg α] [Zero α] [One α] [OfScientific α]
variable [LT α] [DecidableLT α] [Transc α] [Inhabited α]

/-- total accessors (out-of-range reads give `default`; every use below is in range, see
    `BFL/Props/C03Circ.lean`) -/
def Mat.getN {r c : Nat} (A : Mat α r c) (i j : Nat) : α :=
  if h : i < r ∧ j < c then A ⟨i, h.1⟩ ⟨j, h.2⟩ else default

def Vec.getN {n : Nat} (v : Vec α n) (i : Nat) : α :=
  if h : i < n then v ⟨i, h⟩ else default

/-- the quaternion stored in rows `r0 … r0+3` of column `j` -/
def quatAt {r c : Nat} (A : Mat α r c) (r0 j : Nat) : Quat α :=
  ⟨A.getN r0 j, A.getN (r0 + 1) j, A.getN (r0 + 2) j, A.getN (r0 + 3) j⟩

def quatAtV {n : Nat} (v : Vec α n) (r0 : Nat) : Quat α :=
  ⟨v.getN r0, v.getN (r0 + 1), v.getN (r0 + 2), v.getN (r0 + 3)⟩

/-- the rotation vector stored in rows `r0 … r0+2` of column `j` -/
def v3At {r c : Nat} (A : Mat α r c) (r0 j : Nat) : V3 α :=
  ⟨A.getN r0 j, A.getN (r0 + 1) j, A.getN (r0 + 2) j⟩

/-- `sigma_point()` for one component of an arbitrary layout (sigma_point.cpp:94-118):
    linear rows `pert + mean`; Euler rows `directional_add`; quaternion rows: column 0 is the
    mean quaternion, the others `exp(pert/2) ⊗ mean`; noise rows (bottom) `pert + mean`. -/
def sigmaPointsLayout (ly : Layout) (mean : Vec α ly.dim) (pert : Mat α ly.dof (2 * ly.dof + 1)) :
    Mat α ly.dim (2 * ly.dof + 1) :=
  Mat.eval (Mat.of (fun r j =>
    let r := r.val; let j := j.val
    if r < ly.lin then pert.getN r j + mean.getN r
    else if r < ly.lin + ly.circ * ly.csize then
      if ly.quat then
        let q := (r - ly.lin) / 4
        let e := (r - ly.lin) % 4
        if j = 0 then mean.getN r
        else (qsum (quatAtV mean (ly.lin + 4 * q)) (v3At pert (ly.lin + 3 * q) j)).get e
      else dirAdd (pert.getN r j) (mean.getN r)
    else pert.getN (r - ly.circ * (ly.csize - ly.tsize)) j + mean.getN r))

/-- weighted mean of the propagated points in the output layout (sigma_point.cpp:161-171);
    `qmean q` is what the eigenvector routine returned for quaternion block `q`. -/
def utLayoutMean (lyOut : Layout) {N : Nat} (wm : Vec α N) (Y : Mat α lyOut.dim N)
    (qmean : Nat → Quat α) : Vec α lyOut.dim :=
  Vec.eval (Vec.of (fun r =>
    let r := r.val
    if r < lyOut.lin then fsum N (fun k => Y.getN r k.val * wm k)
    else if lyOut.quat then (qmean ((r - lyOut.lin) / 4)).get ((r - lyOut.lin) % 4)
    else dirMean (Vec.of (fun k => Y.getN r k.val)) wm))

/-- offsets of points from a mean in the tangent space of a layout, first `rows` tangent rows
    (sigma_point.cpp:174-184 for the output, 189-198 for the non-noise input rows) -/
def utLayoutOffsets (ly : Layout) {N : Nat} (rows : Nat) (Y : Mat α ly.dim N) (mean : Vec α ly.dim) :
    Mat α rows N :=
  Mat.eval (Mat.of (fun r j =>
    let r := r.val; let j := j.val
    if r < ly.lin then Y.getN r j - mean.getN r
    else if ly.quat then
      let q := (r - ly.lin) / 3
      let e := (r - ly.lin) % 3
      (qdiff (quatAt Y (ly.lin + 4 * q) j) (quatAtV mean (ly.lin + 4 * q))).get e
    else dirSub (Y.getN r j) (mean.getN r)))

/-- Moments of one component for arbitrary input / output layouts (loop body of
    sigma_point.cpp:156-200): output mean, covariance of the tangent-space offsets, and the
    cross-covariance with the non-noise tangent rows of the input. -/
def utLayoutComponent (lyIn lyOut : Layout) (w : UTWeight α lyIn.dof) (inMean : Vec α lyIn.dim)
    (X : Mat α lyIn.dim (2 * lyIn.dof + 1)) (Y : Mat α lyOut.dim (2 * lyIn.dof + 1))
    (qmean : Nat → Quat α) :
    Vec α lyOut.dim × Mat α lyOut.dof lyOut.dof × Mat α (lyIn.dof - lyIn.noise) lyOut.dof :=
  let mean := utLayoutMean lyOut w.mean Y qmean
  let D := utLayoutOffsets lyOut lyOut.dof Y mean
  let Din := utLayoutOffsets lyIn (lyIn.dof - lyIn.noise) X inMean
  (mean, utCov w.cov D D, utCov w.cov Din D)

end layouts
end BFL
