"""C07 — Resampling is a faithful low-variance selection with uniform output weights.

Stages: proof audit (lean/BFL/Props/C07.lean) — correspondence of `resampleIdx` (exact, over Q, on the
very exp(w_i) the C++ computed and the u1 actually drawn), `neffLog`, `resampleWithPrior` with
Resampling / ResamplingWithPrior / ParticleSet::operator+= — the property's own predicates evaluated on
the implementation's output."""
import math
from fractions import Fraction

import vlib
from vlib import hexd, unhex, frac_of_hex

EPS = 2.0 ** -52
NEG_INF = float("-inf")


# --------------------------------------------------------------------------- generation

def lse(xs):
    m = max(xs)
    if m == NEG_INF:
        return m
    return m + math.log(math.fsum(math.exp(x - m) for x in xs))


def normalise(xs):
    l = lse(xs)
    return [x - l for x in xs]


def gen_logw(r, style, n):
    """log-weight vector of length n, normalised (log-sum-exp 0 up to rounding) unless style == 'subnormalised'"""
    if style == "uniform" or n == 1:
        return [-math.log(n)] * n
    if style == "onehot":
        hot = r.choice([0, n - 1, r.randrange(n)])
        return [0.0 if i == hot else NEG_INF for i in range(n)]
    if style == "zeros":
        xs = [r.uniform(-3, 0) for _ in range(n)]
        for i in r.sample(range(n), r.randint(1, n - 1)):
            xs[i] = NEG_INF
        if r.random() < 0.5:
            xs[0] = NEG_INF
        if all(x == NEG_INF for x in xs):
            xs[r.randrange(n)] = 0.0
        return normalise(xs)
    if style == "span300":
        xs = [r.uniform(-690.0, 0.0) for _ in range(n)]
        xs[r.randrange(n)] = 0.0
        return normalise(xs)
    if style == "dominated":
        xs = [r.uniform(-40, -20) for _ in range(n)]
        xs[r.randrange(n)] = 0.0
        return normalise(xs)
    if style == "ties":
        vals = [r.uniform(-3, 0) for _ in range(r.randint(1, 3))]
        return normalise([r.choice(vals) for _ in range(n)])
    if style == "near1overN":
        xs = [-math.log(n) + r.choice([0.0, 1e-15, -1e-15, 1e-9, -1e-9, 1e-3]) for _ in range(n)]
        return normalise(xs)
    if style == "subnormalised":
        xs = normalise([r.uniform(-3, 0) for _ in range(n)])
        d = r.choice([1e-3, 1e-1, 1e-9])
        return [x + math.log1p(-d) for x in xs]
    xs = [r.uniform(-6, 0) for _ in range(n)]
    return normalise(xs)


RS_STYLES = ["uniform", "onehot", "zeros", "span300", "dominated", "ties", "near1overN", "random", "random", "subnormalised"]


def pick_n(r, tier):
    c = r.random()
    if c < 0.25:
        return r.randint(1, 4)
    if c < 0.35:
        return r.choice([2, 8, 16, 17, 32, 64, 128])          # powers of two / batch sizes
    if c < 0.7:
        return r.randint(5, 40)
    return r.randint(41, 200 if tier == "quick" else 400)


def layout(r):
    lin = r.randint(0, 3)
    circ = r.randint(0, 2)
    if lin + circ == 0:
        lin = 1
    quat = 1 if (circ > 0 and r.random() < 0.4) else 0
    return lin, circ, quat


def gen_rs(r, tier):
    style = r.choice(RS_STYLES)
    n = pick_n(r, tier)
    lin, circ, quat = layout(r)
    seed = r.randrange(1, 2 ** 32)
    w = gen_logw(r, style, n)
    line = "rs %d %d %d %d %d %s" % (seed, n, lin, circ, quat, " ".join(hexd(x) for x in w))
    return line, {"op": "rs", "style": style, "n": n, "quat": quat, "circ": circ}


def gen_large(r, tier, op):
    """large particle counts (accumulated rounding of the cumulative weights must stay at double precision level):
    a few thousand in the quick tier, up to 65536 in the thorough tier; adversarial tails of zero-weight particles"""
    if op == "rwp":
        n = r.choice([1500, 2048, 3000]) if tier == "quick" else r.choice([3000, 5000, 8000])
    else:
        n = r.choice([2048, 3000, 4096, 5000, 6000]) if tier == "quick" else r.choice([6000, 16384, 30000, 60000, 65536])
    style = r.choice(["large-zeros-tail", "large-zeros-tail", "large-uniform", "large-random", "large-dominated"])
    if style == "large-zeros-tail":
        z = r.randint(n // 10, n // 2)
        w = normalise([r.uniform(-1.5, 0) for _ in range(n - z)] + [NEG_INF] * z)
    elif style == "large-uniform":
        w = [-math.log(n)] * n
    elif style == "large-dominated":
        w = normalise([0.0 if i % 997 == 0 else r.uniform(-12, -6) for i in range(n)])
    else:
        w = normalise([r.uniform(-4, 0) for _ in range(n)])
    lin, circ, quat = r.choice([(1, 0, 0), (2, 1, 0), (1, 1, 1)])
    seed = r.randrange(1, 2 ** 32)
    if op == "rwp":
        ratio = r.choice([0.1, 0.3, 0.5])
        return "rwp %d %d %d %d %d %s %s" % (seed, n, lin, circ, quat, hexd(ratio), " ".join(hexd(x) for x in w)), {"op": "rwp", "style": style, "n": n, "quat": quat, "circ": circ, "ratio": ratio}
    return "rs %d %d %d %d %d %s" % (seed, n, lin, circ, quat, " ".join(hexd(x) for x in w)), {"op": "rs", "style": style, "n": n, "quat": quat, "circ": circ}


CHUNK = 256


def _chunk_weights(r, style, n):
    if style == "chunk-uniform":
        return [-math.log(n)] * n
    if style == "chunk-lastblock":
        # all the mass of the tail sits in the last block of 256 (or in the single particle after it)
        xs = [r.uniform(-9, -7) for _ in range(n)]
        for i in range(max(0, ((n - 1) // CHUNK) * CHUNK), n):
            xs[i] = r.uniform(-1, 0)
        return normalise(xs)
    if style == "chunk-blockties":
        # the same value at every block boundary (positions 255/256, 511/512, ...), different entries between
        xs = [r.uniform(-3, 0) for _ in range(n)]
        v = r.uniform(-3, 0)
        for b in range(CHUNK, n + 1, CHUNK):
            xs[b - 1] = v
            if b < n:
                xs[b] = v
        xs[1 % n] = xs[n - 1]
        return normalise(xs)
    return normalise([r.uniform(-4, 0) for _ in range(n)])


def gen_chunk(r, tier):
    """particle counts at the boundaries of blocked accumulation: every multiple of 256 up to 4096 in EVERY run (rs), a rotating
    subset at +-1, and prior-mixing cases in which N, the kept count N - k, or both are multiples of 256"""
    out = []
    styles = ["chunk-uniform", "chunk-lastblock", "chunk-blockties", "chunk-random"]
    mults = list(range(CHUNK, 4096 + 1, CHUNK))
    if tier != "quick":
        mults += [8192, 16384]
    off = r.randrange(4)
    for q, n in enumerate(mults):
        style = styles[(q + off) % 4]
        lin, circ, quat = r.choice([(1, 0, 0), (2, 1, 0), (1, 1, 1), (0, 1, 0)])
        w = _chunk_weights(r, style, n)
        out.append(("rs %d %d %d %d %d %s" % (r.randrange(1, 2 ** 32), n, lin, circ, quat, " ".join(hexd(x) for x in w)),
                    {"op": "rs", "style": style, "n": n, "quat": quat, "circ": circ}))
    for n0 in r.sample(mults, 4) + [CHUNK, 4096]:
        for n in (n0 - 1, n0 + 1):
            style = r.choice(styles)
            w = _chunk_weights(r, style, n)
            out.append(("rs %d %d 1 0 0 %s" % (r.randrange(1, 2 ** 32), n, " ".join(hexd(x) for x in w)),
                        {"op": "rs", "style": style + "+-1", "n": n, "quat": 0, "circ": 0}))
    for n, ratio in [(320, 0.2), (512, 0.5), (1024, 0.25), (1280, 0.2), (2048, 0.5), (4096, 0.25), (4096, 0.5), (4352, 0.0625)]:
        style = r.choice(styles)
        w = _chunk_weights(r, style, n)
        lin, circ, quat = r.choice([(1, 0, 0), (2, 1, 0), (1, 1, 1)])
        out.append(("rwp %d %d %d %d %d %s %s" % (r.randrange(1, 2 ** 32), n, lin, circ, quat, hexd(ratio), " ".join(hexd(x) for x in w)),
                    {"op": "rwp", "style": style, "n": n, "quat": quat, "circ": circ, "ratio": ratio}))
    return out


def gen_tie_positions(r, tier):
    """exact weight ties at EVERY position: for N = 2..6 every pair (i, j) carries one value (bitwise), the other entries are
    distinct; the tied value takes every rank (lowest .. largest).  For the prior-mixing variant the cut floor(ratio N) is placed
    at every rank as well, so the tie sits below, across and above the cut.  Larger N: w(1) == w(N-1), w(0) == w(N-1) with
    different entries between."""
    out = []
    for n in range(2, 7):
        for i in range(n):
            for j in range(i + 1, n):
                for rank in range(n - 1):                      # rank of the tied value among the n - 1 distinct values
                    vals = sorted(r.sample(range(1, 40), n - 1))
                    others = [v for q, v in enumerate(vals) if q != rank]
                    r.shuffle(others)
                    xs, it = [], iter(others)
                    for p in range(n):
                        xs.append(vals[rank] if p in (i, j) else next(it))
                    w = normalise([math.log(x / 64.0) for x in xs])
                    if hexd(w[i]) != hexd(w[j]):
                        continue
                    out.append(("rs %d %d 1 1 0 %s" % (r.randrange(1, 2 ** 32), n, " ".join(hexd(x) for x in w)),
                                {"op": "rs", "style": "tie-pair", "n": n, "quat": 0, "circ": 1}))
                    for k in range(1, n):
                        if tier == "quick" and n >= 5 and (k + i + j + rank) % 2:
                            continue
                        ratio = (k + 0.5) / n
                        out.append(("rwp %d %d 1 1 0 %s %s" % (r.randrange(1, 2 ** 32), n, hexd(ratio), " ".join(hexd(x) for x in w)),
                                    {"op": "rwp", "style": "tie-pair", "n": n, "quat": 0, "circ": 1, "ratio": ratio}))
    for n in [7, 12, 31, 64, 100, 257]:
        for a, b in [(1, n - 1), (0, n - 1), (n // 2, n - 1)]:
            xs = [r.uniform(-3, 0) for _ in range(n)]
            xs[a] = xs[b] = r.choice([max(xs), min(xs), xs[n // 3]])
            w = normalise(xs)
            out.append(("rs %d %d 2 0 0 %s" % (r.randrange(1, 2 ** 32), n, " ".join(hexd(x) for x in w)),
                        {"op": "rs", "style": "tie-first-last", "n": n, "quat": 0, "circ": 0}))
            ratio = r.choice([0.1, 0.25, 0.5, 0.75])
            out.append(("rwp %d %d 2 0 0 %s %s" % (r.randrange(1, 2 ** 32), n, hexd(ratio), " ".join(hexd(x) for x in w)),
                        {"op": "rwp", "style": "tie-first-last", "n": n, "quat": 0, "circ": 0, "ratio": ratio}))
    return out


RATIOS = [0.0, 0.1, 0.25, 0.3, 0.5, 0.7, 0.75, 0.9, 0.99]


def gen_rwp(r, tier):
    style = r.choice([s for s in RS_STYLES if s != "subnormalised"] + ["ties", "cut-tie"])
    n = pick_n(r, tier)
    lin, circ, quat = layout(r)
    seed = r.randrange(1, 2 ** 32)
    ratio = r.choice(RATIOS) if r.random() < 0.6 else r.random()
    if r.random() < 0.15 and n > 1:
        ratio = r.randrange(0, n) / n            # N * ratio (nearly) an integer
    if style == "cut-tie":
        k = int(math.floor(n * ratio))
        xs = sorted(r.uniform(-4, 0) for _ in range(n))
        if 0 < k < n:
            xs[k - 1] = xs[k]                     # equal weights on both sides of the cut
        r.shuffle(xs)
        w = normalise(xs)
    else:
        w = gen_logw(r, style, n)
    line = "rwp %d %d %d %d %d %s %s" % (seed, n, lin, circ, quat, hexd(ratio), " ".join(hexd(x) for x in w))
    return line, {"op": "rwp", "style": style, "n": n, "quat": quat, "circ": circ, "ratio": ratio}


def gen_ratio_boundaries(r, want):
    """(N, ratio) pairs at which N * ratio is an integer in the reals, the floor of the exact and of the rounded double product
    agree (so floor(ratio N) is unambiguous), but another way of writing the split (from the other side: N - ceil(N (1 - ratio)),
    or through a rounded quotient) gives a different count: the boundary of `static_cast<int>(std::floor(cols * prior_ratio_))`"""
    pool = []
    for n in range(2, 201):
        for j in range(1, 100):
            if (n * j) % 100:
                continue
            ratio = j / 100.0
            k = int(math.floor(n * ratio))
            if math.floor(Fraction(ratio) * n) != k:
                continue
            alt = [n - int(math.ceil(n * (1.0 - ratio))), int(math.floor(n / (1.0 / ratio))), int(n - math.floor(n * (1.0 - ratio) + 0.5))]
            if any(a != k for a in alt):
                pool.append((n, ratio))
    out = []
    for n, ratio in r.sample(pool, min(want, len(pool))):
        lin, circ, quat = layout(r)
        w = gen_logw(r, r.choice(["random", "uniform", "zeros", "ties"]), n)
        out.append(("rwp %d %d %d %d %d %s %s" % (r.randrange(1, 2 ** 32), n, lin, circ, quat, hexd(ratio), " ".join(hexd(x) for x in w)),
                    {"op": "rwp", "style": "ratio-boundary", "n": n, "quat": quat, "circ": circ, "ratio": ratio}))
    return out


PRIOR_KINDS = {1, 6, 7, 9, 10, 12, 13}
SEED1_KINDS = {11, 9, 12, 10, 13}            # constructor overloads without a seed: Resampling(1)
DEFAULT_RATIO_KINDS = {10, 13}               # ResamplingWithPrior(init): prior_ratio_ = 0.5
HANDOVER_KINDS = {2, 3, 4, 5, 6, 7, 12, 13}
KIND_NAMES = {0: "Resampling(seed)", 11: "Resampling()", 2: "copy-constructed Resampling", 4: "move-constructed Resampling",
              3: "move-assigned Resampling", 5: "copy-assigned Resampling", 1: "ResamplingWithPrior(init, ratio, seed)",
              9: "ResamplingWithPrior(init, ratio)", 10: "ResamplingWithPrior(init)", 6: "move-constructed ResamplingWithPrior(init, ratio, seed)",
              12: "move-constructed ResamplingWithPrior(init, ratio)", 7: "move-assigned ResamplingWithPrior(init, ratio, seed)",
              13: "move-assigned ResamplingWithPrior(init)"}


def seq_effective(kind, ratio, seed):
    """configuration of the ORIGINAL object, which the object obtained by copy / move must keep"""
    k = kind % 100
    return (0.5 if k in DEFAULT_RATIO_KINDS else ratio), (1 if k in SEED1_KINDS else seed)


def gen_seq(r, tier):
    """ONE resampling object serving several successive calls with different particle counts, layouts and weights
    (state carried across calls: only the generator)"""
    kind = r.choice([0, 0, 11, 2, 3, 4, 5, 1, 1, 9, 10, 6, 6, 7, 7, 12, 13])
    ratio = r.choice([0.0, 0.1, 0.25, 0.3, 0.5, 0.75, 0.9]) if kind in PRIOR_KINDS else 0.0
    if kind in HANDOVER_KINDS and r.random() < 0.4:
        kind += 100                                   # hand-over after the first call
    seed = r.randrange(1, 2 ** 32)
    ncalls = r.randint(2, 5)
    shape = r.choice(["grow", "shrink", "mixed", "mixed", "same"])
    ns = [r.choice([1, 2, 3, 4, 5, 8, 10, 16, 25, 40, 64]) for _ in range(ncalls)]
    if shape == "grow":
        ns = sorted(ns); ns[0] = r.choice([1, 2, 3]); ns[-1] = max(ns[-1], r.choice([10, 20, 50]))
    elif shape == "shrink":
        ns = sorted(ns, reverse=True); ns[0] = max(ns[0], r.choice([10, 20, 50])); ns[-1] = r.choice([1, 2, 3])
    elif shape == "same":
        ns = [ns[0]] * ncalls
    parts, calls = [], []
    # the ordinary filter loop: the same particle count AND the same layout at every call (a per-object cache keyed on
    # count / layout is then never invalidated)
    fixed_layout = layout(r) if (shape == "same" and r.random() < 0.75) else None
    if fixed_layout is not None and kind % 100 in PRIOR_KINDS:
        ns = [max(ns[0], r.choice([4, 8, 10]))] * ncalls
        ratio = r.choice([0.25, 0.3, 0.5, 0.75])
    for n in ns:
        lin, circ, quat = fixed_layout if fixed_layout is not None else layout(r)
        style = r.choice(["uniform", "zeros-tail", "zeros", "onehot", "random", "dominated", "heavy-first"])
        if style == "zeros-tail" and n > 1:
            z = r.randint(1, n - 1)
            w = normalise([r.uniform(-2, 0) for _ in range(n - z)] + [NEG_INF] * z)
        elif style == "heavy-first" and n > 1:
            w = normalise([0.0] + [r.uniform(-6, -3) for _ in range(n - 1)])
        else:
            w = gen_logw(r, style if style in RS_STYLES else "random", n)
        calls.append((n, lin, circ, quat, w, style))
        parts.append("%d %d %d %d %s" % (n, lin, circ, quat, " ".join(hexd(x) for x in w)))
    line = "seq %d %d %s %d %s" % (seed, kind, hexd(ratio), ncalls, " ".join(parts))
    er, es = seq_effective(kind, ratio, seed)
    return line, {"op": "seq", "style": "seq-" + shape, "n": max(ns), "quat": 0, "circ": 0, "kind": kind, "ratio": er, "seed": es, "calls": calls}


def parse_seq(line):
    t = line.split()
    seed, kind, ratio, ncalls = int(t[1]), int(t[2]), unhex(t[3]), int(t[4])
    p, calls = 5, []
    for _ in range(ncalls):
        n, lin, circ, quat = [int(x) for x in t[p:p + 4]]; p += 4
        calls.append((n, lin, circ, quat, [unhex(x) for x in t[p:p + n]], "replay")); p += n
    er, es = seq_effective(kind, ratio, seed)
    return {"op": "seq", "style": "seq-replay", "n": max(c[0] for c in calls), "quat": 0, "circ": 0, "kind": kind, "ratio": er, "seed": es, "calls": calls}


def expand(cases, hout):
    """(line, meta, harness output) per resample() call: a `seq` case becomes one virtual rs / rwp case per call"""
    out = []
    for (line, meta), h in zip(cases, hout):
        if meta["op"] != "seq":
            out.append((line, meta, h))
            continue
        blocks = h.split(" | ")
        calls = meta["calls"]
        ok = blocks[0].split()[:1] == ["ok"] and len(blocks) == len(calls) + 1
        for c, (n, lin, circ, quat, w, style) in enumerate(calls):
            op = "rwp" if meta["kind"] % 100 in PRIOR_KINDS else "rs"
            vline = "%s %d %d %d %d %d %s%s" % (op, meta["seed"], n, lin, circ, quat, (hexd(meta["ratio"]) + " ") if op == "rwp" else "", " ".join(hexd(x) for x in w))
            vmeta = {"op": op, "style": "%s/call%d%s" % (meta["style"], c, "" if c == 0 else "+"), "n": n, "quat": quat, "circ": circ,
                     "real_line": line, "call": c, "kind": meta["kind"]}
            out.append((vline, vmeta, blocks[c + 1] if ok else h))
            if not ok:
                break
    return out


def boundary_cases(binary, r, want):
    """weights crafted so that the very first comb point equals the first cumulative weight exactly
    (u_0 == c_0): the boundary of the `while (u_j > csw(idx))` comparison."""
    seeds = [r.randrange(1, 2 ** 32) for _ in range(8 * want)]
    outs, _ = vlib.run_harness(binary, ["u1 %d 2 1" % s for s in seeds])
    cases = []
    for s, o in zip(seeds, outs):
        t = o.split()
        if len(t) != 2 or t[0] != "ok":
            continue
        u1 = unhex(t[1])
        if not (0.05 < u1 < 0.5):
            continue
        w0 = math.log(u1)
        hit = None
        for _ in range(12):
            e = math.exp(w0)
            if e == u1:
                hit = w0
                break
            w0 = math.nextafter(w0, math.inf if e < u1 else -math.inf)
        if hit is None:
            continue
        w = [hit, math.log1p(-u1)]
        cases.append(("rs %d 2 1 0 0 %s" % (s, " ".join(hexd(x) for x in w)), {"op": "rs", "style": "boundary", "n": 2, "quat": 0, "circ": 0}))
        if len(cases) >= want:
            break
    return cases


def is_minus_log_n(hexw, n):
    """the log-weight equals -log N (any correctly rounded way of writing it: within 4 ulp)"""
    w, want = unhex(hexw), -math.log(n)
    return w == want or abs(w - want) <= 4 * EPS * abs(want)


# --------------------------------------------------------------------------- exact comb arithmetic

def comb_count(n, u1, a, b):
    """number of j in [0, n) with a < u1 + j/n <= b (exact Fractions)"""
    def f(x):
        v = math.floor(n * (x - u1))
        return max(-1, min(n - 1, v))
    return max(0, f(b) - f(a))


SH = 1074                 # every finite double is an integer multiple of 2^-1074: exact integer arithmetic, fast
SH2 = SH + 52


def to_int(fr):
    return fr.numerator * ((1 << SH) // fr.denominator)


def comb_count_int(n, U1, A, B, sh):
    """number of j in [0, n) with a < u1 + j/n <= b, all quantities integers scaled by 2^sh"""
    def f(X):
        return max(-1, min(n - 1, (n * (X - U1)) >> sh))
    return max(0, f(B) - f(A))


def cum_sums(e):
    c, acc = [], Fraction(0)
    for x in e:
        acc += x
        c.append(acc)
    return c


def within_slack(n, u1, c, j, q, lo, hi, tol):
    """model position q, implementation position class [lo, hi] (lo <= hi): is the disagreement explained by
    rounding of the cumulative weights (comb point within tol (relative) of every disputed cumulative weight)?"""
    uj = u1 + Fraction(j, n)
    if lo <= q <= hi:
        return True
    rng = range(hi, q) if q > hi else range(q, lo)
    for i in rng:
        if i < 0 or i >= len(c):
            return False
        if abs(uj - c[i]) > tol * max(c[i], uj):
            return False
    return True


# --------------------------------------------------------------------------- checks

def check_rs(line, meta, h, dq, df, dw, stats):
    probs = []
    t = line.split()
    n = int(t[2])
    lin, circ, quat = int(t[3]), int(t[4]), int(t[5])
    logw = [unhex(x) for x in t[6:6 + n]]
    if not h.startswith("ok"):
        return [("prop", "impl-crash", "Resampling::resample failed on a valid input: %s" % h[:120])]
    ht = h.split()
    if ht[1] != "u1-in-range":
        return [("prop", "assumption-u1-range", "the draw u1 is not in (0, 1/N): %s" % ht[2])]
    u1 = frac_of_hex(ht[2])
    p = 3
    e = [frac_of_hex(x) for x in ht[p:p + n]]; p += n
    par = [int(x) for x in ht[p:p + n]]; p += n
    cp = [int(x) for x in ht[p:p + n]]; p += n
    wout = ht[p:p + n]; p += n
    neff_h = unhex(ht[p]); p += 1
    same = ht[p]; p += 1
    shape = [int(x) for x in ht[p:p + 13]]
    if len(ht) > p + 13 and ht[p + 13] != "neff-same":
        probs.append(("prop", "neff-wrong", "neff queried before and after the call gives different answers"))
    if len(ht) > p + 14:
        stats["content_scale_class_%s" % ht[p + 14]] = stats.get("content_scale_class_%s" % ht[p + 14], 0) + 1
    normalised = meta["style"] != "subnormalised"
    tol = Fraction(n * EPS)
    c = cum_sums(e)
    Ei = [to_int(x) for x in e]
    Ci, acc = [], 0
    for x in Ei:
        acc += x
        Ci.append(acc)
    # ---- correspondence: parents against the exact model
    if not dq.startswith("ok"):
        probs.append(("corr", "model-undefined", "model not defined: %s" % dq[:60]))
        mq = None
    else:
        mq = [int(x) for x in dq.split()[1:]]
        if len(mq) != n:
            probs.append(("corr", "model-length", "model returned %d parents" % len(mq)))
            mq = None
    if df.startswith("ok") and [int(x) for x in df.split()[1:]] != par:
        stats["float_model_parent_mismatch_cases"] = stats.get("float_model_parent_mismatch_cases", 0) + 1
    in_range = all(0 <= q < n for q in par)
    if mq is not None and in_range:
        for j in range(n):
            if par[j] != mq[j]:
                if within_slack(n, u1, c, j, mq[j], par[j], par[j], tol):
                    stats["parents_tolerated_rounding"] = stats.get("parents_tolerated_rounding", 0) + 1
                else:
                    probs.append(("corr", "parent-mismatch", "output %d: parent %d, exact model %d, comb point not within N*2^-52 of the disputed cumulative weights" % (j, par[j], mq[j])))
                    break
        # model branch statistics
        uj_last = u1 + Fraction(n - 1, n)
        if uj_last > c[-1]:
            stats["clamp_decisive"] = stats.get("clamp_decisive", 0) + 1
        U1n = to_int(u1) * n
        if any(U1n + (j << SH) == n * Ci[mq[j]] for j in range(n)):
            stats["comb_equals_cumulative_exactly"] = stats.get("comb_equals_cumulative_exactly", 0) + 1
            if par == mq:
                stats["boundary_tie_impl_as_model"] = stats.get("boundary_tie_impl_as_model", 0) + 1
        stats["pointer_moves"] = stats.get("pointer_moves", 0) + (mq[-1] if mq else 0)
    # ---- property predicates on the implementation's output
    if not in_range:
        probs.append(("prop", "parent-out-of-range", "a reported parent is not a particle index: %s" % par[:20]))
    elif any(par[j] > par[j + 1] for j in range(n - 1)):
        probs.append(("prop", "parents-not-monotone", "parents decrease: %s" % par[:40]))
    if not all(cp):
        j = cp.index(0)
        probs.append(("prop", "copy-not-exact", "output particle %d is not a bit-for-bit copy (state, mean, covariance) of its reported parent %d" % (j, par[j])))
    wl = hexd(-math.log(n))
    if not all(is_minus_log_n(x, n) for x in wout):
        probs.append(("prop", "weight-not-minus-log-n", "output log-weight %s, -log N = %s" % ([x for x in wout if not is_minus_log_n(x, n)][0], wl)))
    if any(x != wl for x in wout):
        stats["weights_not_bitwise_minus_log_n"] = stats.get("weights_not_bitwise_minus_log_n", 0) + 1
    if same != "in-same":
        probs.append(("prop", "input-modified", "the particle set passed in was modified"))
    if shape[5] != n or shape[10] != n or shape[0] != n:
        probs.append(("prop", "output-count", "the output set does not hold N particles: components %d, columns %d, weights %d" % (shape[0], shape[5], shape[10])))
    if in_range and normalised:
        cnt = [0] * n
        for q in par:
            cnt[q] += 1
        # integer arithmetic: x (1 +- tol) with tol = n 2^-52 is x (2^52 +- n) at scale 2^(1074 + 52)
        U1, U1b = to_int(u1), to_int(u1) << 52
        up, dn = (1 << 52) + n, (1 << 52) - n
        slack_tot = n * abs(Ci[-1] - (1 << SH))
        prevI = 0
        for i in range(n):
            A, B = prevI, Ci[i]
            prevI = B
            lo = comb_count_int(n, U1b, A * up, B * dn, SH2) if B * dn > A * up else 0
            hi = comb_count_int(n, U1b, A * dn, B * up, SH2)
            exact = comb_count_int(n, U1, A, B, SH)
            if hi != lo:
                stats["count_intervals_touched_by_rounding"] = stats.get("count_intervals_touched_by_rounding", 0) + 1
            if not (abs((exact << SH) - n * Ei[i]) < (1 << SH) + slack_tot):
                probs.append(("corr", "count-theorem", "exact comb count %d vs N w = %.6g" % (exact, float(n * e[i]))))
            if not (lo <= cnt[i] <= hi):
                probs.append(("prop", "replication-count", "particle %d (weight %.6g, N w = %.6g) replicated %d times; comb points in its weight interval: %d..%d" % (i, float(e[i]), float(n * e[i]), cnt[i], lo, hi)))
                break
            if e[i] == 0 and cnt[i] > 0 and not (i == n - 1 and u1 + Fraction(n - 1, n) > c[-1] * (1 - tol)):
                probs.append(("prop", "zero-weight-selected", "particle %d has weight exactly 0 and was selected %d times" % (i, cnt[i])))
                break
            if e[i] >= Fraction(1, n) * (1 + 4 * tol) and cnt[i] == 0:
                probs.append(("prop", "heavy-not-selected", "particle %d has weight %.6g >= 1/N and was not selected" % (i, float(e[i]))))
                break
    # ---- neff
    if all(x == x for x in logw):
        s2 = math.fsum(float(x) ** 2 for x in e)
        want = 1.0 / s2 if s2 > 0 else math.inf
        rel = abs(neff_h - want) / want if want not in (0.0, math.inf) else 0.0
        stats["max_neff_relerr"] = max(stats.get("max_neff_relerr", 0.0), rel)
        ntol = 64 * n * EPS
        if rel > ntol:
            probs.append(("prop", "neff-wrong", "neff = %.17g, 1/sum(w^2) = %.17g" % (neff_h, want)))
        if normalised and not (1 - ntol <= neff_h <= n * (1 + ntol)):
            probs.append(("prop", "neff-out-of-range", "neff = %.17g not in [1, N=%d]" % (neff_h, n)))
        if dw.startswith("ok"):
            dn = unhex(dw.split()[1])
            if abs(dn - neff_h) > ntol * abs(neff_h):
                probs.append(("corr", "neff-model", "neffLog (Float) %.17g vs implementation %.17g" % (dn, neff_h)))
            if not is_minus_log_n(dw.split()[2], n):
                probs.append(("corr", "weight-model", "model output weight %s vs -log N %s" % (dw.split()[2], wl)))
    return probs


def check_rwp(line, meta, h, d, dq, stats):
    probs = []
    t = line.split()
    n = int(t[2])
    lin, circ, quat = int(t[3]), int(t[4]), int(t[5])
    ratio = frac_of_hex(t[6])
    logw = [unhex(x) for x in t[7:7 + n]]
    if not h.startswith("ok"):
        return [("prop", "impl-crash", "ResamplingWithPrior::resample failed on a valid input (N=%d, lin=%d, circ=%d, quaternion=%d, ratio=%.6g): %s" % (n, lin, circ, quat, float(ratio), h[:120]))]
    ht = h.split()
    k_twin = int(ht[1])
    if ht[2] == "ratio-out-of-range":
        return []
    if ht[2] != "u1-in-range":
        return [("prop", "assumption-u1-range", "the draw u1 is not in (0, 1/(N-k)): %s" % ht[3])]
    k_exact = math.floor(n * ratio)
    kk = "rwp_k_zero" if k_twin == 0 else "rwp_k_positive"
    stats[kk] = stats.get(kk, 0) + 1
    if k_exact != k_twin:
        stats["floor_of_rounded_product_differs"] = stats.get("floor_of_rounded_product_differs", 0) + 1
    m = n - k_twin
    u1 = frac_of_hex(ht[3])
    p = 4
    e = [frac_of_hex(x) for x in ht[p:p + m]]; p += m
    shape = [int(x) for x in ht[p:p + 13]]; p += 13
    par = [int(x) for x in ht[p:p + n]]; p += n
    cols = int(ht[p]); p += 1
    ids = [int(x) for x in ht[p:p + cols]]; p += cols
    wrows = int(ht[p]); p += 1
    wout = ht[p:p + wrows]; p += wrows
    same = ht[p]
    if len(ht) > p + 1:
        stats["content_scale_class_%s" % ht[p + 1]] = stats.get("content_scale_class_%s" % ht[p + 1], 0) + 1
    # ---- property predicates
    dimcov = shape[12]
    if not (shape[0] == n and shape[5] == n and shape[7] == n and shape[10] == n and shape[9] == n * dimcov and cols == n):
        probs.append(("prop", "output-count", "the result is not a set of N=%d particles: components %d, state columns %d, mean columns %d, covariance columns %d (x%d), weights %d" % (n, shape[0], shape[5], shape[7], shape[9], dimcov, shape[10])))
    wl = hexd(-math.log(n))
    if not all(is_minus_log_n(x, n) for x in wout) or wrows != n:
        probs.append(("prop", "weight-not-minus-log-n", "output log-weights are not all -log N"))
    if any(x != wl for x in wout):
        stats["weights_not_bitwise_minus_log_n"] = stats.get("weights_not_bitwise_minus_log_n", 0) + 1
    nneg = sum(1 for q in par if q == -1)
    lead = 0
    while lead < n and par[lead] == -1:
        lead += 1
    if nneg not in (k_exact, k_twin) or lead != nneg:
        probs.append(("prop", "prior-count", "%d parents are -1 (%d leading); floor(ratio*N) = %d" % (nneg, lead, k_exact)))
    k = nneg
    if cols == n and lead == nneg:
        if any(ids[j] != -(j + 1) for j in range(k)):
            probs.append(("prop", "prior-not-fresh", "the first %d particles are not the fresh draws of the initialisation model: %s" % (k, ids[:k][:20])))
        if any(ids[j] <= 0 for j in range(k, n)):
            j = [j for j in range(k, n) if ids[j] <= 0][0]
            probs.append(("prop", "copy-not-exact", "output particle %d is not a bit-for-bit copy of any input particle" % j))
        else:
            ew = [math.exp(x) for x in logw]
            srt = sorted(ew)
            for j in range(k, n):
                if k < n and ew[ids[j] - 1] < srt[k]:
                    probs.append(("prop", "lowest-not-replaced", "output %d copies input particle %d whose weight %.6g is among the %d lowest (cut %.6g)" % (j, ids[j] - 1, ew[ids[j] - 1], k, srt[k])))
                    break
            # survivors: positions in the sorted temporary set, compared with the exact selection on the normalised kept weights
            if k == k_twin and dq.startswith("ok") and m >= 1:
                mq = [int(x) for x in dq.split()[1:]]
                c = cum_sums(e)
                maxl = max([abs(x) for x in logw if x != NEG_INF] + [1.0])
                tol = Fraction(m * EPS + 4 * EPS * maxl)
                lws = sorted(logw)[k:]
                agree = 0
                span = {}
                for i, v in enumerate(lws):
                    span.setdefault(v, [i, i])[1] = i
                for jj in range(m):
                    wj = logw[ids[k + jj] - 1]
                    cls = span.get(wj)
                    if not cls:
                        probs.append(("prop", "lowest-not-replaced", "output %d copies a particle that is not among the kept ones" % (k + jj)))
                        break
                    if not within_slack(m, u1, c, jj, mq[jj], cls[0], cls[-1], tol):
                        probs.append(("corr", "survivor-mismatch", "output %d: copy of sorted position %d..%d, exact model %d" % (k + jj, cls[0], cls[-1], mq[jj])))
                        break
                    if not (cls[0] <= mq[jj] <= cls[-1]):
                        stats["parents_tolerated_rounding"] = stats.get("parents_tolerated_rounding", 0) + 1
                    if par[k + jj] == k + mq[jj]:
                        agree += 1
                stats["rwp_parents_index_sorted_set"] = stats.get("rwp_parents_index_sorted_set", 0) + agree
                stats["rwp_survivors"] = stats.get("rwp_survivors", 0) + m
                # replication counts per class of equal weights
                cntpos = {}
                for jj in range(m):
                    wj = logw[ids[k + jj] - 1]
                    cntpos[wj] = cntpos.get(wj, 0) + 1
                prev = Fraction(0)
                i = 0
                while i < m:
                    i2 = i
                    while i2 + 1 < m and lws[i2 + 1] == lws[i]:
                        i2 += 1
                    a, b = prev, c[i2]
                    prev = b
                    lo = comb_count(m, u1, a * (1 + tol), b * (1 - tol)) if b * (1 - tol) > a * (1 + tol) else 0
                    hi = comb_count(m, u1, a * (1 - tol), b * (1 + tol))
                    got = cntpos.get(lws[i], 0)
                    if not (lo <= got <= hi):
                        probs.append(("prop", "replication-count", "kept particles of log-weight %.6g replicated %d times in total; comb points in their weight interval: %d..%d" % (lws[i], got, lo, hi)))
                        break
                    i = i2 + 1
    if same != "in-same":
        probs.append(("prop", "input-modified", "the particle set passed in was modified"))
    # ---- correspondence of the structure with the Float execution of resampleWithPrior
    if not d.startswith("ok"):
        probs.append(("corr", "model-undefined", "model not defined: %s" % d[:60]))
    else:
        dt = d.split()
        mk, mn, mlin, mcirc, mquat, mparts, mlogw = [int(x) for x in dt[1:8]]
        mids = [int(x) for x in dt[8:8 + mparts]]
        mpar = [int(x) for x in dt[8 + mparts:8 + mparts + n]]
        mw = dt[8 + mparts + n:]
        if (mk, mn, mparts, mlogw) != (k, shape[0], cols, wrows):
            probs.append(("corr", "shape-model", "model (k, n, columns, weights) = %s, implementation %s" % ((mk, mn, mparts, mlogw), (k, shape[0], cols, wrows))))
        if (mlin, mcirc, mquat) != (shape[1], shape[2], shape[3]):
            probs.append(("corr", "layout-model", "model layout (lin, circ, quaternion) = %s, implementation %s" % ((mlin, mcirc, mquat), (shape[1], shape[2], shape[3]))))
        if mids[:mk] != ids[:mk] or mpar[:mk] != par[:mk]:
            probs.append(("corr", "prior-part-model", "fresh part differs from the model"))
        if len(mw) != len(wout) or not all(is_minus_log_n(x, n) for x in mw):
            probs.append(("corr", "weights-model", "weights differ from the model"))
        if mids == ids:
            stats["rwp_float_model_identical_ids"] = stats.get("rwp_float_model_identical_ids", 0) + 1
        if mpar == par:
            stats["rwp_float_model_identical_parents"] = stats.get("rwp_float_model_identical_parents", 0) + 1
    return probs


def run(ctx):
    ctx.proof_stage()
    if not ctx.quick():
        bad = vlib.leanchecker(['BFL.Props.C07', 'BFL.Proofs.Resample', 'BFL.Proofs.ResampleList', 'BFL.Proofs.ResampleLog', 'BFL.Proofs.ResampleSet', 'BFL.Proofs.ResamplePrior', 'BFL.Proofs.ResampleSortIndep', 'BFL.Model.Resample'])
        ctx.coverage["leanchecker"] = "failed: %s" % bad if bad else "all modules re-checked"
        if bad:
            ctx.violation("leanchecker", "leanchecker rejects compiled modules: %s" % bad, {"modules": bad}, no_input=True)
    binary = vlib.build_harness("h_pf")
    g = ctx.gen("pf")
    r = g.r
    n_rs = ctx.n(1200, 12000)
    n_rwp = ctx.n(700, 6000)
    n_seq = ctx.n(250, 4000)
    cases = []
    corpus = vlib.VERIF / "corpus" / "C07" / "cases.txt"
    replay_line = None
    if ctx.replay:
        import json
        replay_line = json.load(open(ctx.replay)).get("replay", {}).get("input_line")
    if replay_line:
        t = replay_line.split()
        if t[0] == "seq":
            cases.append((replay_line, parse_seq(replay_line)))
        else:
            cases.append((replay_line, {"op": t[0], "style": "replay", "n": int(t[2]), "quat": int(t[5]), "circ": int(t[4])}))
        n_rs = n_rwp = n_seq = 0
    elif corpus.exists():
        for ln in corpus.read_text().split("\n"):
            ln = ln.strip()
            if ln and not ln.startswith("#"):
                if ln.startswith("seq "):
                    cases.append((ln, parse_seq(ln)))
                else:
                    cases.append((ln, {"op": ln.split()[0], "style": "corpus", "n": int(ln.split()[2]), "quat": int(ln.split()[5]), "circ": int(ln.split()[4])}))
    if not replay_line:
        cases += boundary_cases(binary, r, ctx.n(6, 40))
    # exhaustive small: N = 1..3, uniform / one-hot at each position
    for n in (() if replay_line else (1, 2, 3)):
        for hot in range(-1, n):
            w = [-math.log(n)] * n if hot < 0 else [0.0 if i == hot else NEG_INF for i in range(n)]
            cases.append(("rs %d %d 1 1 0 %s" % (r.randrange(1, 2 ** 32), n, " ".join(hexd(x) for x in w)), {"op": "rs", "style": "small", "n": n, "quat": 0, "circ": 1}))
    if not replay_line:
        gt = ctx.gen("pf-ties").r
        cases += gen_tie_positions(gt, ctx.tier)
        cases += gen_ratio_boundaries(gt, ctx.n(40, 200))
    cases += [gen_rs(r, ctx.tier) for _ in range(n_rs)]
    cases += [gen_rwp(r, ctx.tier) for _ in range(n_rwp)]
    cases += [gen_seq(r, ctx.tier) for _ in range(n_seq)]
    if not replay_line:
        cases += [gen_large(r, ctx.tier, "rs") for _ in range(ctx.n(3, 10))] + [gen_large(r, ctx.tier, "rwp") for _ in range(ctx.n(1, 4))]
        cases += gen_chunk(ctx.gen("pf-chunk").r, ctx.tier)
    # configuration of every object-level case from the MODEL of construction and hand-over (RsCtor.build, RsCfg.run): the
    # expected per-call behaviour (ratio, seed, class, draws consumed) is the model's, cross-checked with the table above
    obj_bad = []
    seq_idx = [i for i, (l, m) in enumerate(cases) if m["op"] == "seq"]
    cfg_out = vlib.run_driver(["seqcfg %d %s %d %d" % (cases[i][1]["kind"], cases[i][0].split()[3], int(cases[i][0].split()[1]), len(cases[i][1]["calls"])) for i in seq_idx]) if seq_idx else []
    n_cfg = 0
    for i, d in zip(seq_idx, cfg_out):
        line, meta = cases[i]
        dt = d.split()
        want = (1 if meta["kind"] % 100 in PRIOR_KINDS else 0, hexd(meta["ratio"]) if meta["kind"] % 100 in PRIOR_KINDS else None, meta["seed"], len(meta["calls"]))
        got = (int(dt[1]), dt[2] if int(dt[1]) else None, int(dt[3]), int(dt[4])) if dt[:1] == ["ok"] and len(dt) == 5 else None
        if got != want:
            obj_bad.append(("object-config-model", "configuration of the object in use (class, ratio, seed, draws): model %s, expected %s" % (got, want), line, d))
        else:
            n_cfg += 1
            meta["ratio"] = unhex(dt[2]) if got[0] else meta["ratio"]
            meta["seed"] = got[2]
    lines = [c[0] for c in cases]
    hout, logs = vlib.run_harness(binary, lines)
    n_inputs = len(cases)
    vc = expand(cases, hout)               # one entry per resample() call
    cases = [(l, m) for l, m, _ in vc]
    hout = [h for _, _, h in vc]
    # driver lines are built from what the implementation actually used: u1 (twin generator) and exp(w_i) (libm)
    dlines = []
    for (line, meta), h in zip(cases, hout):
        t, ht = line.split(), h.split()
        n = int(t[2])
        if meta["op"] == "rs":
            if ht and ht[0] == "ok" and ht[1] == "u1-in-range":
                args = "%d %s %s" % (n, ht[2], " ".join(ht[3:3 + n]))
                dlines += ["rs " + args, "rsf " + args, "rsw %d %s" % (n, " ".join(t[6:6 + n]))]
            else:
                dlines += ["skip", "skip", "skip"]
        else:
            if ht and ht[0] == "ok" and len(ht) > 3 and ht[2] == "u1-in-range":
                k = int(ht[1]); m = n - k
                dlines += ["rwp %d %s %s %s %s %s %s" % (n, t[3], t[4], t[5], t[6], ht[3], " ".join(t[7:7 + n])),
                           "rs %d %s %s" % (m, ht[3], " ".join(ht[4:4 + m])), "skip"]
            else:
                dlines += ["skip", "skip", "skip"]
    dout = vlib.run_driver(dlines)
    stats, hist, nhist, distinct = {}, {}, {}, set()
    corr_bad, prop_bad = [], []
    for idx, ((line, meta), h) in enumerate(zip(cases, hout)):
        d0, d1, d2 = dout[3 * idx:3 * idx + 3]
        key = "%s:%s" % (meta["op"], meta["style"].split("/")[0])
        hist[key] = hist.get(key, 0) + 1
        if "call" in meta:
            ck = "object_calls_first" if meta["call"] == 0 else "object_calls_later"
            stats[ck] = stats.get(ck, 0) + 1
        nb = "N=1" if meta["n"] == 1 else "N=2..4" if meta["n"] <= 4 else "N=5..40" if meta["n"] <= 40 else "N=41..400" if meta["n"] <= 400 else "N>1000"
        nhist[nb] = nhist.get(nb, 0) + 1
        if meta.get("quat"):
            stats["quaternion_layout_cases"] = stats.get("quaternion_layout_cases", 0) + 1
        distinct.add(line)
        try:
            if meta["op"] == "rs":
                probs = check_rs(line, meta, h, d0, d1, d2, stats)
            else:
                probs = check_rwp(line, meta, h, d0, d1, stats)
        except (IndexError, ValueError, OverflowError, ZeroDivisionError, KeyError, TypeError) as ex:
            probs = [("prop", "malformed-output", "harness output not parseable / not finite (%r): %s" % (ex, h[:120]))]
        if "call" in meta:
            kname = KIND_NAMES.get(meta["kind"] % 100, "?") + (" handed over after the first call" if meta["kind"] >= 100 else "")
            probs = [(kind, key2, "call %d on one object [%s]: %s" % (meta["call"], kname, what)) for kind, key2, what in probs]
            if meta["kind"] % 100 in (7, 13):
                # one stable key for the whole class: the move-assigned object does not have the source's configuration
                probs = [(kind, "rwp-move-assign-config" if kind == "prop" else key2, what) for kind, key2, what in probs]
            if meta["call"] == 0:
                stats["object_kind:" + kname] = stats.get("object_kind:" + kname, 0) + 1
        for kind, key2, what in probs:
            (corr_bad if kind == "corr" else prop_bad).append((key2, what, meta.get("real_line", line), h))
    corr_bad += obj_bad
    stats["object_configurations_from_model"] = n_cfg
    prop_bad.sort(key=lambda v: len(v[2]))          # report the smallest failing input of each kind
    corr_bad.sort(key=lambda v: len(v[2]))
    seen = set()
    for key2, what, line, h in prop_bad:
        if key2 in seen:
            continue
        seen.add(key2)
        ctx.violation(key2, "Resampling: " + what, {"harness": "h_pf", "input_line": line, "observed": h[:3000]})
    if corr_bad and not prop_bad:
        key2, what, line, h = corr_bad[0]
        ctx.violation("correspondence:" + key2, "model and implementation disagree (%d cases), no property predicate failed: %s" % (len(corr_bad), what),
                      {"harness": "h_pf", "correspondence": "resampleIdx / resampleWithPrior vs Resampling / ResamplingWithPrior", "input_line": line, "observed": h[:3000]}, no_input=True)
    nontrivial = set(l for (l, m) in cases if m["n"] > 1)
    ctx.coverage.update({
        "evaluations": len(cases), "input_lines": n_inputs, "distinct_nontrivial": len(nontrivial & distinct),
        "rule": "systematic resampling (rs) and prior-mixing resampling (rwp) on seeded random log-weight vectors: uniform, one-hot, exact zeros (-inf), "
                "object-level sequences (seq: ONE object built by each constructor overload of Resampling / ResamplingWithPrior, also obtained by copy / move construction / assignment before or after its first call, used through Resampling*, serving 2..5 successive calls with different N, layouts and weights, twin generator in lock-step, every predicate per call), spanning 300 orders of magnitude, dominated, ties, near 1/N, deliberately sub-normalised (clamp branch), crafted u_0 == c_0 boundary, "
                "exact ties at every pair of positions and every rank for N = 2..6 (prior variant: cut at every rank), w(1) == w(N-1) / w(0) == w(N-1); particle counts at every multiple of 256 up to 4096 (and +-1; prior variant with N and/or N - k multiples of 256) in every run; "
                "N in 1..%d plus large sets (2048..6000 quick, up to 65536 thorough, with long tails of zero-weight particles), particle contents at scales 2^-70 .. 2^40 incl. exactly zero mean / covariance blocks, random 32-bit seeds, layouts lin 0..3 / circ 0..2 / quaternion, ratios in [0,1); non-trivial = N > 1; distinct = distinct input lines"
                % (200 if ctx.quick() else 400),
        "samples": [cases[0][0][:300], cases[len(cases) // 2][0][:300], lines[-1][:300]],
        "chunk_boundary_particle_counts": sorted(set(m["n"] for l, m in cases if m["style"].startswith("chunk"))),
        "tie_position_cases": sum(1 for l, m in cases if m["style"].startswith("tie-")),
        "style_histogram": hist, "size_histogram": nhist, "branch_and_numeric_counters": stats,
        "traces_validated_against_impl": len(cases),
        "model_vs_impl_disagreements": len(corr_bad), "property_failures_on_impl": len(prop_bad),
        "sanitizer_crashes": len(logs),
    })
    ctx.assumptions += [
        "0 < u1 < 1/N asserted on every draw observed (uniform_real_distribution can return exactly 0 with probability 2^-53: sel_u1_zero_counterexample)",
        "u1 is obtained from a twin std::mt19937_64 + uniform_real_distribution(0, 1/N) with the same seed (contract of libstdc++)",
        "a parent disagreeing with the exact rational model is tolerated only when the comb point is within N*2^-52 (relative) of every disputed cumulative weight; counted in branch_and_numeric_counters.parents_tolerated_rounding",
        "prior variant: ties among equal weights are compared as classes (std::sort is not stable); floor(ratio*N) accepted as the floor of the exact or of the rounded product",
        "observation (not claimed by C07): in the prior variant the reported parents index the sorted temporary set (rwp_parents_index_sorted_set / rwp_survivors)",
    ]
