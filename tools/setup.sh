#!/bin/sh
# One-time setup after a fresh restore (offline): build the Lean model/driver/proofs and the
# sanitizer builds of the library.  Every check re-runs the incremental part of this itself.
set -e
cd "$(dirname "$0")/.."
mkdir -p build evidence replays
( cd lean && lake build ) 
python3 - <<'PY'
import sys, threading
sys.path.insert(0, '.')
import vlib
errs = []
def build(kind):
    try:
        vlib.build_lib(kind)
    except Exception as e:
        errs.append((kind, str(e)[-2000:]))
ts = [threading.Thread(target=build, args=(k,)) for k in ("dbg", "tsan", "opt")]
[t.start() for t in ts]
[t.join() for t in ts]
if errs:
    print(errs)
    sys.exit(1)
PY
echo setup-ok
