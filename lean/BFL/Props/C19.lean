import BFL.Proofs.Dir
/-
C19 — Directional statistics respect the circle.

Theorems about the model `wrap`, `dirAdd`, `dirSub`, `dirMean` (BFL/Model/Dir.lean) read over ℝ
(`atan2 y x = Complex.arg ⟨x, y⟩`), for all matrix shapes, all real angles and all weight vectors
named by the property.

`directional_mean` has a one-column shortcut in the source: since the repair e5e0548 the single column
is returned wrapped into (-π, π]; its weight is still not read.  That is immaterial for the property
(a single weight of a positive weight vector is positive, unscented sets have at least three columns)
but it is why `mean_eq_arg_resultant` carries the hypothesis `0 < w` for one column;
`mean_one_column_negative_weight` shows the hypothesis cannot be dropped.
-/
namespace BFL.Dir
open Real

variable {r c : Nat}

/-! ## addition and subtraction -/

/-- `arg(exp(jθ))` is the representative of `θ` modulo `2π` in `(-π, π]`. -/
theorem wrap_eq_toIocMod (θ : ℝ) : wrap θ = toIocMod Real.two_pi_pos (-π) θ :=
  wrap_toIocMod θ

/-- `directional_sub(a, b)` is the wrapped ordinary difference. -/
theorem sub_eq_wrap_sub (a : Mat ℝ r c) (b : Vec ℝ r) (i : Fin r) (j : Fin c) :
    dirSub a b i j = wrap (a i j - b i) := by
  simp [dirSub, dirAdd, sub_eq_add_neg]

/-- values of `directional_add` lie in `(-π, π]` -/
theorem add_mem_Ioc (a : Mat ℝ r c) (b : Vec ℝ r) (i : Fin r) (j : Fin c) :
    dirAdd a b i j ∈ Set.Ioc (-π) π := wrap_mem _

/-- values of `directional_sub` lie in `(-π, π]` -/
theorem sub_mem_Ioc (a : Mat ℝ r c) (b : Vec ℝ r) (i : Fin r) (j : Fin c) :
    dirSub a b i j ∈ Set.Ioc (-π) π := wrap_mem _

/-- `directional_add` is congruent to the ordinary sum modulo `2π` -/
theorem add_congr_mod_two_pi (a : Mat ℝ r c) (b : Vec ℝ r) (i : Fin r) (j : Fin c) :
    ∃ k : ℤ, dirAdd a b i j = a i j + b i + k * (2 * π) := wrap_congr _

/-- `directional_sub` is congruent to the ordinary difference modulo `2π` -/
theorem sub_congr_mod_two_pi (a : Mat ℝ r c) (b : Vec ℝ r) (i : Fin r) (j : Fin c) :
    ∃ k : ℤ, dirSub a b i j = a i j - b i + k * (2 * π) := by
  rw [sub_eq_wrap_sub]; exact wrap_congr _

/-- the two facts above determine the value: it is *the* element of `(-π, π]` congruent to the sum -/
theorem add_unique (a : Mat ℝ r c) (b : Vec ℝ r) (i : Fin r) (j : Fin c) (x : ℝ)
    (hx : x ∈ Set.Ioc (-π) π) (hk : ∃ k : ℤ, x = a i j + b i + k * (2 * π)) : dirAdd a b i j = x := by
  obtain ⟨k, hk⟩ := hk
  have : dirAdd a b i j = wrap (a i j + b i) := rfl
  rw [this, ← wrap_add_int _ k, ← hk, wrap_of_mem hx]

/-- sums already in `(-π, π]` are returned unchanged -/
theorem add_eq_of_mem (a : Mat ℝ r c) (b : Vec ℝ r) (i : Fin r) (j : Fin c)
    (h : a i j + b i ∈ Set.Ioc (-π) π) : dirAdd a b i j = a i j + b i := wrap_of_mem h

/-- adding multiples of `2π` to any entry of either argument changes nothing -/
theorem add_shift_invariant (a a' : Mat ℝ r c) (b b' : Vec ℝ r)
    (ha : ∀ i j, ∃ k : ℤ, a' i j = a i j + k * (2 * π)) (hb : ∀ i, ∃ k : ℤ, b' i = b i + k * (2 * π)) :
    dirAdd a' b' = dirAdd a b := by
  ext i j
  obtain ⟨k, hk⟩ := ha i j
  obtain ⟨l, hl⟩ := hb i
  show wrap (a' i j + b' i) = wrap (a i j + b i)
  refine wrap_eq_of_congr ⟨k + l, ?_⟩
  rw [hk, hl]; push_cast; ring

/-- the same for subtraction -/
theorem sub_shift_invariant (a a' : Mat ℝ r c) (b b' : Vec ℝ r)
    (ha : ∀ i j, ∃ k : ℤ, a' i j = a i j + k * (2 * π)) (hb : ∀ i, ∃ k : ℤ, b' i = b i + k * (2 * π)) :
    dirSub a' b' = dirSub a b := by
  ext i j
  obtain ⟨k, hk⟩ := ha i j
  obtain ⟨l, hl⟩ := hb i
  rw [sub_eq_wrap_sub, sub_eq_wrap_sub]
  refine wrap_eq_of_congr ⟨k - l, ?_⟩
  rw [hk, hl]; push_cast; ring

/-- non-vacuity: an angle far outside `(-π, π]` and the branch point `π` itself -/
example : wrap (π + 1000 * (2 * π)) = π ∧ wrap π = π ∧ wrap (-π) = π := by
  have hπ : π ∈ Set.Ioc (-π) π := ⟨by linarith [Real.pi_pos], le_refl _⟩
  refine ⟨?_, wrap_of_mem hπ, ?_⟩
  · have := wrap_add_int π 1000
    push_cast at this
    rw [this, wrap_of_mem hπ]
  · have := wrap_add_int (-π) 1
    push_cast at this
    rw [← this, show -π + 1 * (2 * π) = π by ring, wrap_of_mem hπ]

/-! ## mean -/

/-- "The directional mean equals the argument of the weighted resultant of the unit phasors" — every
    shape.  With `c ≠ 1` no condition at all; with one column (where the code does not read the
    weight) the weight must be positive, as it is for every weight vector the property quantifies over. -/
theorem mean_eq_arg_resultant (a : Mat ℝ r c) (w : Vec ℝ c) (i : Fin r)
    (hc : c = 1 → ∀ k, 0 < w k) :
    dirMean a w i = Complex.arg (resultant a w i) := by
  by_cases h1 : c = 1
  · subst h1
    rw [dirMean_one, resultant_one, Complex.arg_real_mul _ (hc rfl 0), ← wrap_eq_arg]
  · exact dirMean_multi a w i h1

/-- the positivity hypothesis cannot be dropped for one column: `a = [0]`, `w = [-1]` gives `0`, the
    argument of the resultant `-1` is `π` -/
theorem mean_one_column_negative_weight :
    ∃ (a : Mat ℝ 1 1) (w : Vec ℝ 1), resultant a w 0 ≠ 0 ∧ dirMean a w 0 ≠ Complex.arg (resultant a w 0) := by
  refine ⟨Mat.of (fun _ _ => 0), Vec.of (fun _ => -1), ?_, ?_⟩
  · rw [resultant_one]; simp
  · rw [dirMean_one, resultant_one]
    have h0 : wrap ((Mat.of (fun _ _ => (0 : ℝ)) : Mat ℝ 1 1) 0 0) = 0 :=
      wrap_of_mem ⟨by simp [Real.pi_pos], by simp [Real.pi_pos.le]⟩
    rw [h0]
    simp [Complex.arg_neg_one, Real.pi_ne_zero.symm]

/-- "… it is unaffected by 2π shifts of any sample" — every shape, any weights -/
theorem mean_shift_invariant (a a' : Mat ℝ r c) (w : Vec ℝ c) (i : Fin r)
    (h : ∀ k, ∃ n : ℤ, a' i k = a i k + n * (2 * π)) : dirMean a' w i = dirMean a w i := by
  by_cases h1 : c = 1
  · subst h1
    rw [dirMean_one, dirMean_one]
    exact wrap_eq_of_congr (h 0)
  · rw [dirMean_multi a' w i h1, dirMean_multi a w i h1, resultant_shift a a' w i h]

/-- "… rotates with a common rotation of all samples" — every shape; the resultant must not vanish
    (for one column no condition is needed) -/
theorem mean_rotates (a : Mat ℝ r c) (d : Vec ℝ r) (w : Vec ℝ c) (i : Fin r)
    (hR : c ≠ 1 → resultant a w i ≠ 0) :
    dirMean (Mat.of (fun i k => a i k + d i)) w i = wrap (dirMean a w i + d i) := by
  by_cases h1 : c = 1
  · subst h1
    rw [dirMean_one, dirMean_one]
    obtain ⟨k, hk⟩ := wrap_congr (a i 0)
    refine wrap_eq_of_congr ⟨-k, ?_⟩
    rw [hk]; simp only [Mat.of_apply]; push_cast; ring
  · rw [dirMean_multi _ w i h1, dirMean_multi a w i h1, resultant_rotate, arg_rotate _ (hR h1)]

/-- the mean lies in `(-π, π]` — every shape -/
theorem mean_in_range (a : Mat ℝ r c) (w : Vec ℝ c) (i : Fin r) : dirMean a w i ∈ Set.Ioc (-π) π := by
  by_cases h1 : c = 1
  · subst h1; rw [dirMean_one]; exact wrap_mem _
  · rw [dirMean_multi a w i h1]; exact Complex.arg_mem_Ioc _

/-- All samples of a row equal `θ`, total weight positive: the resultant does not vanish and the mean is
    `wrap θ` — `θ` itself when `θ ∈ (-π, π]`, congruent to `θ` always. -/
theorem mean_const (a : Mat ℝ r c) (w : Vec ℝ c) (i : Fin r) (θ : ℝ)
    (ha : ∀ k, a i k = θ) (hw : 0 < ∑ k, w k) :
    resultant a w i ≠ 0 ∧ dirMean a w i = wrap θ ∧
    (θ ∈ Set.Ioc (-π) π → dirMean a w i = θ) ∧ ∃ n : ℤ, dirMean a w i = θ + n * (2 * π) := by
  have hres := resultant_const a w i θ ha
  have hne : resultant a w i ≠ 0 := by
    rw [hres]
    exact mul_ne_zero (by exact_mod_cast hw.ne') (Complex.exp_ne_zero _)
  have hm : dirMean a w i = wrap θ := by
    by_cases h1 : c = 1
    · subst h1; rw [dirMean_one, ha 0]
    · rw [dirMean_multi a w i h1, hres, Complex.arg_real_mul _ hw, wrap_eq_arg]
  exact ⟨hne, hm, fun hθ => by rw [hm, wrap_of_mem hθ], by rw [hm]; exact wrap_congr θ⟩

/-- Positive weights, samples of a row clustered (as angles) within `δ < π/2` of a centre `m`, i.e.
    within an arc shorter than a half turn: the resultant does not vanish and the mean lies in the
    same arc — every shape. -/
theorem mean_in_arc (a : Mat ℝ r c) (w : Vec ℝ c) (i : Fin r) (hc : 0 < c) (m δ : ℝ) (hδ : δ < π / 2)
    (hw : ∀ k, 0 < w k) (ha : ∀ k, ∃ n : ℤ, |a i k - m - n * (2 * π)| ≤ δ) :
    resultant a w i ≠ 0 ∧ ∃ n : ℤ, |dirMean a w i - m - n * (2 * π)| ≤ δ := by
  have h := resultant_in_arc a w i hc m δ hδ hw ha
  refine ⟨h.1, ?_⟩
  rw [mean_eq_arg_resultant a w i (fun _ k => hw k)]
  exact h.2

/-! ## conditioning: why the check's tolerance for a mean scales with `Σ|w| / (resultant length)` -/

/-- Any perturbation of samples and weights that moves the resultant by `η < |R|` moves the mean, as an
    angle, by at most `(π/2) η / |R|` (multi-column branch; rounding errors of the sums enter the same way). -/
theorem mean_conditioning_resultant (a a' : Mat ℝ r c) (w w' : Vec ℝ c) (i : Fin r) (hc : c ≠ 1) (η : ℝ)
    (hη : ‖resultant a' w' i - resultant a w i‖ ≤ η) (hlt : η < ‖resultant a w i‖) :
    ∃ n : ℤ, |dirMean a' w' i - dirMean a w i - n * (2 * π)| ≤ π / 2 * (η / ‖resultant a w i‖) := by
  have hR : resultant a w i ≠ 0 := by
    intro h0; rw [h0, norm_zero] at hlt
    linarith [norm_nonneg (resultant a' w' i - resultant a w i)]
  have hpos : 0 < ‖resultant a w i‖ := norm_pos_iff.mpr hR
  obtain ⟨n, hn⟩ := arg_perturb (resultant a w i) (resultant a' w' i - resultant a w i) hR
    (lt_of_le_of_lt hη hlt)
  refine ⟨n, ?_⟩
  rw [dirMean_multi a' w' i hc, dirMean_multi a w i hc]
  have e : resultant a w i + (resultant a' w' i - resultant a w i) = resultant a' w' i := by ring
  rw [e] at hn
  refine le_trans hn (mul_le_mul_of_nonneg_left ?_ (by positivity))
  exact div_le_div_of_nonneg_right hη hpos.le

/-- Samples known up to `|a'_k − a_k|` (a double angle `θ` carries `ε|θ|`): the mean is determined, as an
    angle, up to `(π/2) Σ_k |w_k| |a'_k − a_k| / |R|` — the ill-conditioning of short resultants.  Every
    shape. -/
theorem mean_conditioning (a a' : Mat ℝ r c) (w : Vec ℝ c) (i : Fin r)
    (hlt : ∑ k, |w k| * |a' i k - a i k| < ‖resultant a w i‖) :
    ∃ n : ℤ, |dirMean a' w i - dirMean a w i - n * (2 * π)|
      ≤ π / 2 * ((∑ k, |w k| * |a' i k - a i k|) / ‖resultant a w i‖) := by
  by_cases h1 : c = 1
  · subst h1
    rw [resultant_one, norm_mul, Complex.norm_real, Complex.norm_exp_ofReal_mul_I, mul_one,
      Real.norm_eq_abs, Fin.sum_univ_one] at *
    have hw : 0 < |w 0| := lt_of_le_of_lt (mul_nonneg (abs_nonneg _) (abs_nonneg _)) hlt
    rw [dirMean_one, dirMean_one]
    obtain ⟨k', hk'⟩ := wrap_congr (a' i 0)
    obtain ⟨k, hk⟩ := wrap_congr (a i 0)
    refine ⟨k' - k, ?_⟩
    rw [hk', hk]
    have : a' i 0 + k' * (2 * π) - (a i 0 + k * (2 * π)) - ((k' - k : ℤ) : ℝ) * (2 * π) = a' i 0 - a i 0 := by
      push_cast; ring
    rw [this, mul_div_cancel_left₀ _ hw.ne']
    nlinarith [abs_nonneg (a' i 0 - a i 0), Real.pi_gt_three]
  · exact mean_conditioning_resultant a a' w w i h1 _ (resultant_perturb a a' w i) hlt

/-- non-vacuity of `mean_in_arc` / `mean_const`: two samples 0.2 apart straddling the branch cut,
    weights 1/2, centre π, half-width 0.1 -/
example : ∃ (a : Mat ℝ 1 2) (w : Vec ℝ 2) (m δ : ℝ), δ < π / 2 ∧ (∀ k, 0 < w k) ∧ 0 < ∑ k, w k ∧
    ∀ k, ∃ n : ℤ, |a 0 k - m - n * (2 * π)| ≤ δ := by
  refine ⟨Mat.of (fun _ k => if k = 0 then π - 0.1 else -π + 0.1), Vec.of (fun _ => 1 / 2), π, 0.1,
    by linarith [Real.pi_gt_three], fun k => by simp, by simp, fun k => ?_⟩
  by_cases hk : k = 0
  · refine ⟨0, ?_⟩
    simp only [Mat.of_apply, hk, if_true]
    rw [abs_le]; constructor <;> norm_num
  · refine ⟨-1, ?_⟩
    simp only [Mat.of_apply, hk, if_false]
    rw [abs_le]; constructor <;> push_cast <;> linarith [Real.pi_pos]

/-- non-vacuity for one column: the sample 7 with weight 1 has mean `7 - 2π` -/
example : dirMean (Mat.of (fun _ _ => 7) : Mat ℝ 1 1) (Vec.of (fun _ => 1)) 0 = 7 - 2 * π := by
  rw [dirMean_one]
  show wrap (7 : ℝ) = 7 - 2 * π
  have := wrap_add_int 7 (-1)
  push_cast at this
  rw [← this]
  have e : (7 : ℝ) + -1 * (2 * π) = 7 - 2 * π := by ring
  rw [e]
  exact wrap_of_mem ⟨by linarith [Real.pi_lt_four], by linarith [Real.pi_gt_three]⟩

/-! ## the half-turn guard of the arc clause is necessary; further invariances of the executed model -/

/-- The guard `δ < π/2` ("clustered within less than a half turn") of `mean_in_arc` cannot be relaxed: for
    **every** half-width `δ` with `π/2 ≤ δ < π` the two samples `π ± δ` with weights `1/2` lie within `δ` of the
    centre `π`, the weights are positive, and the mean is `0` — at distance `π > δ` from the centre, outside the arc.
    (At `δ = π/2` the resultant vanishes and `atan2 0 0 = 0`; beyond it the resultant is `-cos δ > 0`.) -/
theorem mean_in_arc_half_turn_counterexample (δ : ℝ) (h1 : π / 2 ≤ δ) (h2 : δ < π) :
    ∃ (a : Mat ℝ 1 2) (w : Vec ℝ 2) (m : ℝ), (∀ k, 0 < w k) ∧
      (∀ k, ∃ n : ℤ, |a 0 k - m - n * (2 * π)| ≤ δ) ∧ dirMean a w 0 = 0 ∧
      ¬ ∃ n : ℤ, |dirMean a w 0 - m - n * (2 * π)| ≤ δ := by
  have hmean := half_turn_pair_mean δ h1 h2
  refine ⟨Mat.of (fun _ k => if k = 0 then π + δ else π - δ), Vec.of (fun _ => 1 / 2), π,
    fun k => by simp, fun k => ⟨0, ?_⟩, hmean, ?_⟩
  · have hδ0 : 0 ≤ δ := by linarith [Real.pi_pos]
    by_cases hk : k = 0
    · simp only [Mat.of_apply, hk, if_true]
      rw [abs_le]; constructor <;> push_cast <;> linarith
    · simp only [Mat.of_apply, hk, if_false]
      rw [abs_le]; constructor <;> push_cast <;> linarith
  · rw [hmean]
    rintro ⟨n, hn⟩
    rw [abs_le] at hn
    -- `-π - 2πn ∈ [-δ, δ]` with `δ < π` has no integer solution
    have hpi := Real.pi_pos
    rcases le_or_gt 0 n with h0 | h0
    · have : (0 : ℝ) ≤ n := by exact_mod_cast h0
      nlinarith [hn.1]
    · have : (n : ℝ) ≤ -1 := by exact_mod_cast Int.le_sub_one_of_lt h0
      nlinarith [hn.2]

/-- non-vacuity of the counterexample family: `δ = 2` lies in `[π/2, π)` -/
example : π / 2 ≤ (2 : ℝ) ∧ (2 : ℝ) < π := ⟨by linarith [Real.pi_lt_four], by linarith [Real.pi_gt_three]⟩

/-- "… unaffected by 2π shifts of any sample", in the form the check exercises it: ONE sample `a i k₀` of one row is
    replaced by `a i k₀ + 2π n`, every other entry of the matrix stays as it is; the mean of that row is the same real
    number (not only congruent) — every shape, any weights, no condition on the resultant. -/
theorem mean_shift_single_sample (a : Mat ℝ r c) (w : Vec ℝ c) (i : Fin r) (k₀ : Fin c) (n : ℤ) :
    dirMean (Mat.of (fun i' k => if i' = i ∧ k = k₀ then a i' k + n * (2 * π) else a i' k)) w i = dirMean a w i := by
  refine mean_shift_invariant a _ w i (fun k => ?_)
  by_cases hk : k = k₀
  · exact ⟨n, by simp [hk]⟩
  · exact ⟨0, by simp [hk]⟩

/-- the rows are independent: a shift in row `i` does not touch the mean of another row `i'` (each row of the result
    reads its own row of the matrix only) -/
theorem mean_row_independent (a a' : Mat ℝ r c) (w : Vec ℝ c) (i : Fin r) (h : ∀ k, a' i k = a i k) :
    dirMean a' w i = dirMean a w i :=
  mean_shift_invariant a a' w i (fun k => ⟨0, by simp [h k]⟩)

/-- listing the (sample, weight) pairs in another order changes nothing (a blocked / chunked / reversed accumulation
    must return the same mean) — multi-column shapes; for one column there is nothing to permute -/
theorem mean_perm_invariant (a a' : Mat ℝ r c) (w w' : Vec ℝ c) (i : Fin r) (σ : Equiv.Perm (Fin c))
    (ha : ∀ k, a' i k = a i (σ k)) (hw : ∀ k, w' k = w (σ k)) : dirMean a' w' i = dirMean a w i := by
  by_cases h1 : c = 1
  · subst h1
    have hσ : σ 0 = 0 := Subsingleton.elim _ _
    rw [dirMean_one, dirMean_one, ha 0, hσ]
  · rw [dirMean_multi a' w' i h1, dirMean_multi a w i h1, resultant_perm a a' w w' i σ ha hw]

/-- multiplying all weights by a positive factor changes nothing (the property fixes no normalisation of the weights) -/
theorem mean_scale_invariant (a : Mat ℝ r c) (w : Vec ℝ c) (i : Fin r) (s : ℝ) (hs : 0 < s) :
    dirMean a (Vec.of (fun k => s * w k)) i = dirMean a w i := by
  by_cases h1 : c = 1
  · subst h1; rw [dirMean_one, dirMean_one]
  · rw [dirMean_multi _ _ i h1, dirMean_multi a w i h1, resultant_scale, Complex.arg_real_mul _ hs]

/-- splitting the samples into two chunks: the resultant of `c₁ + c₂` samples is the sum of the resultants of the chunks
    (what an accumulation over blocks of columns has to reproduce — C19-r4-1 dropped the last block) -/
theorem mean_chunks {c₁ c₂ : Nat} (a : Mat ℝ r (c₁ + c₂)) (w : Vec ℝ (c₁ + c₂)) (i : Fin r) (h1 : c₁ + c₂ ≠ 1) :
    dirMean a w i = Complex.arg
      (resultant (Mat.of (fun i k => a i (Fin.castAdd c₂ k))) (Vec.of (fun k => w (Fin.castAdd c₂ k))) i +
       resultant (Mat.of (fun i k => a i (Fin.natAdd c₁ k))) (Vec.of (fun k => w (Fin.natAdd c₁ k))) i) := by
  rw [dirMean_multi a w i h1, resultant_append]

/-! ## addition and subtraction undo each other on the circle -/

/-- `directional_sub(directional_add(a, b), b)` is `a` wrapped — in particular `a` itself for `a` in `(-π, π]` -/
theorem sub_add_cancel_wrap (a : Mat ℝ r c) (b : Vec ℝ r) (i : Fin r) (j : Fin c) :
    dirSub (dirAdd a b) b i j = wrap (a i j) ∧ (a i j ∈ Set.Ioc (-π) π → dirSub (dirAdd a b) b i j = a i j) := by
  have h : dirSub (dirAdd a b) b i j = wrap (a i j) := by
    rw [sub_eq_wrap_sub]
    obtain ⟨k, hk⟩ := add_congr_mod_two_pi a b i j
    refine wrap_eq_of_congr ⟨k, ?_⟩
    rw [hk]; ring
  exact ⟨h, fun hm => by rw [h, wrap_of_mem hm]⟩

/-- `directional_add(directional_sub(a, b), b)` is `a` wrapped -/
theorem add_sub_cancel_wrap (a : Mat ℝ r c) (b : Vec ℝ r) (i : Fin r) (j : Fin c) :
    dirAdd (dirSub a b) b i j = wrap (a i j) := by
  show wrap (dirSub a b i j + b i) = wrap (a i j)
  obtain ⟨k, hk⟩ := sub_congr_mod_two_pi a b i j
  refine wrap_eq_of_congr ⟨k, ?_⟩
  rw [hk]; ring

/-- the mean commutes with `directional_add` used as the common rotation: rotating the samples with the code's own
    `directional_add` and then averaging is the same as averaging and then adding with wrap -/
theorem mean_add_rotates (a : Mat ℝ r c) (d : Vec ℝ r) (w : Vec ℝ c) (i : Fin r)
    (hR : c ≠ 1 → resultant a w i ≠ 0) :
    dirMean (dirAdd a d) w i = wrap (dirMean a w i + d i) := by
  rw [← mean_rotates a d w i hR]
  refine mean_shift_invariant _ _ w i (fun k => ?_)
  obtain ⟨n, hn⟩ := add_congr_mod_two_pi a d i k
  exact ⟨n, by simp only [Mat.of_apply]; rw [hn]⟩

end BFL.Dir
