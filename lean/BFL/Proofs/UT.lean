import BFL.Model.UT
import BFL.Bridge.Mat
import BFL.Proofs.UTAlg
import Mathlib.Algebra.Field.Basic
import Mathlib.Algebra.CharZero.Defs
/-
Bridge from the executable unscented-transform model (`BFL/Model/UT.lean`) to the matrix algebra
of `BFL/Proofs/UTAlg.lean`, and the per-component moment lemmas the property theorems call.
-/
namespace BFL
open Matrix UTProofs

set_option linter.unusedSectionVars false

variable {α : Type} {n nx nz ny k N r s : ℕ}

section ring
variable [CommRing α] [Inhabited α]

theorem toM_perturb (B : Mat α n n) : toM (perturb B) = E (toM B) := by
  ext i j
  simp only [perturb, toM_apply, Mat.of_apply, E]

theorem toM_sigmaPts (m : Vec α n) (Ep : Mat α n (2 * n + 1)) :
    toM (sigmaPts m Ep) = toM Ep + rep (toV m) := by
  ext i j; simp [sigmaPts, rep]

theorem toM_utOffsets (Y : Mat α ny N) (m : Vec α ny) : toM (utOffsets Y m) = toM Y - rep (toV m) := by
  ext i j; simp [utOffsets, rep]

theorem toM_scaleCols (D : Mat α r N) (w : Vec α N) : toM (scaleCols D w) = toM D * diagonal (toV w) := by
  ext i j; simp [scaleCols, mul_diagonal]

theorem toM_utCov (wc : Vec α N) (D : Mat α r N) (D' : Mat α s N) :
    toM (utCov wc D D') = toM D * diagonal (toV wc) * (toM D')ᵀ := by
  simp [utCov, toM_scaleCols]

theorem toM_topRows (X : Mat α (nx + nz) N) : toM (topRows X) = (toM X).submatrix (Fin.castAdd nz) id := by
  ext i j; simp [topRows]

theorem toV_top (v : Vec α (nx + nz)) : toV (Vec.top v) = toV v ∘ Fin.castAdd nz := by
  ext i; simp [Vec.top]

theorem toM_affineMap {nin : ℕ} (A : Mat α ny nin) (b : Vec α ny) (X : Fin k → Mat α nin N) (i : Fin k) :
    toM (affineMap A b X i) = toM A * toM (X i) + rep (toV b) := by
  ext a j
  simp only [affineMap, Mat.eval_eq, toM_apply, Mat.of_apply, Matrix.add_apply, rep]
  rw [← toM_apply (A.mul (X i)), toM_mul]
  rfl

theorem toM_sigmaPoints (fac : α → Mat α n n → Mat α n n) (c : α) (b : GM α n k) (i : Fin k) :
    toM (sigmaPoints fac c b i) = E (toM (fac c (b.cov i))) + rep (toV (b.mean i)) := by
  simp [sigmaPoints, toM_sigmaPts, toM_perturb]

/-- `[A D]` against the block structure of the augmented index -/
theorem hcat_castAdd {r : ℕ} (A : Mat α r nx) (D : Mat α r nz) (i : Fin r) (j : Fin nx) :
    hcat A D i (Fin.castAdd nz j) = A i j := by
  simp [hcat]

theorem hcat_natAdd {r : ℕ} (A : Mat α r nx) (D : Mat α r nz) (i : Fin r) (j : Fin nz) :
    hcat A D i (Fin.natAdd nx j) = D i j := by
  simp [hcat]

theorem augment_mean_castAdd (b : GM α nx k) (Q : Mat α nz nz) (i : Fin k) (j : Fin nx) :
    (augmentWithNoise b Q).mean i (Fin.castAdd nz j) = b.mean i j := by
  simp [augmentWithNoise]

theorem augment_mean_natAdd (b : GM α nx k) (Q : Mat α nz nz) (i : Fin k) (j : Fin nz) :
    (augmentWithNoise b Q).mean i (Fin.natAdd nx j) = 0 := by
  simp [augmentWithNoise]

theorem augment_cov_cc (b : GM α nx k) (Q : Mat α nz nz) (i : Fin k) (a c : Fin nx) :
    (augmentWithNoise b Q).cov i (Fin.castAdd nz a) (Fin.castAdd nz c) = b.cov i a c := by
  simp [augmentWithNoise]

theorem augment_cov_cn (b : GM α nx k) (Q : Mat α nz nz) (i : Fin k) (a : Fin nx) (c : Fin nz) :
    (augmentWithNoise b Q).cov i (Fin.castAdd nz a) (Fin.natAdd nx c) = 0 := by
  simp [augmentWithNoise]

theorem augment_cov_nc (b : GM α nx k) (Q : Mat α nz nz) (i : Fin k) (a : Fin nz) (c : Fin nx) :
    (augmentWithNoise b Q).cov i (Fin.natAdd nx a) (Fin.castAdd nz c) = 0 := by
  simp [augmentWithNoise]

theorem augment_cov_nn (b : GM α nx k) (Q : Mat α nz nz) (i : Fin k) (a c : Fin nz) :
    (augmentWithNoise b Q).cov i (Fin.natAdd nx a) (Fin.natAdd nx c) = Q a c := by
  simp [augmentWithNoise]

/-- `[A D] [m; 0] = A m` -/
theorem hcat_mulVec_augment (A : Mat α ny nx) (D : Mat α ny nz) (b : GM α nx k) (Q : Mat α nz nz) (i : Fin k) :
    toM (hcat A D) *ᵥ toV ((augmentWithNoise b Q).mean i) = toM A *ᵥ toV (b.mean i) := by
  ext a
  simp only [mulVec, dotProduct, toM_apply, toV_apply]
  rw [Fin.sum_univ_add]
  simp only [hcat_castAdd, hcat_natAdd, augment_mean_castAdd, augment_mean_natAdd, mul_zero,
    Finset.sum_const_zero, add_zero]

/-- `blockdiag(P, Q) [A D]ᵀ`, state rows: `P Aᵀ` -/
theorem augment_mul_hcatT_top (A : Mat α ny nx) (D : Mat α ny nz) (b : GM α nx k) (Q : Mat α nz nz) (i : Fin k) :
    (toM ((augmentWithNoise b Q).cov i) * (toM (hcat A D))ᵀ).submatrix (Fin.castAdd nz) id
      = toM (b.cov i) * (toM A)ᵀ := by
  ext a c
  simp only [submatrix_apply, id_eq, mul_apply, transpose_apply, toM_apply]
  rw [Fin.sum_univ_add]
  simp only [hcat_castAdd, hcat_natAdd, augment_cov_cc, augment_cov_cn, zero_mul,
    Finset.sum_const_zero, add_zero]

/-- `blockdiag(P, Q) [A D]ᵀ`, noise rows: `Q Dᵀ` -/
theorem augment_mul_hcatT_bot (A : Mat α ny nx) (D : Mat α ny nz) (b : GM α nx k) (Q : Mat α nz nz) (i : Fin k) :
    (toM ((augmentWithNoise b Q).cov i) * (toM (hcat A D))ᵀ).submatrix (Fin.natAdd nx) id
      = toM Q * (toM D)ᵀ := by
  ext a c
  simp only [submatrix_apply, id_eq, mul_apply, transpose_apply, toM_apply]
  rw [Fin.sum_univ_add]
  simp only [hcat_castAdd, hcat_natAdd, augment_cov_nc, augment_cov_nn, zero_mul,
    Finset.sum_const_zero, zero_add]

/-- `[A D] blockdiag(P, Q) [A D]ᵀ = A P Aᵀ + D Q Dᵀ` -/
theorem hcat_augment_hcatT (A : Mat α ny nx) (D : Mat α ny nz) (b : GM α nx k) (Q : Mat α nz nz) (i : Fin k) :
    toM (hcat A D) * toM ((augmentWithNoise b Q).cov i) * (toM (hcat A D))ᵀ
      = toM A * toM (b.cov i) * (toM A)ᵀ + toM D * toM Q * (toM D)ᵀ := by
  rw [Matrix.mul_assoc]
  have ht := augment_mul_hcatT_top A D b Q i
  have hb := augment_mul_hcatT_bot A D b Q i
  ext a c
  rw [Matrix.mul_apply, Fin.sum_univ_add, Matrix.add_apply, Matrix.mul_assoc, Matrix.mul_assoc,
    Matrix.mul_apply, Matrix.mul_apply]
  congr 1
  · apply Finset.sum_congr rfl; intro l _
    have := congrFun (congrFun ht l) c
    simp only [submatrix_apply, id_eq] at this
    rw [this, toM_apply, hcat_castAdd, toM_apply]
  · apply Finset.sum_congr rfl; intro l _
    have := congrFun (congrFun hb l) c
    simp only [submatrix_apply, id_eq] at this
    rw [this, toM_apply, hcat_natAdd, toM_apply]

end ring

section field
variable [Field α] [CharZero α] [Inhabited α]

theorem toV_utWeights_mean (n : ℕ) (alpha beta kappa : α) :
    toV (utWeights n alpha beta kappa).mean
      = wv (utLambda n alpha kappa / ((n : α) + utLambda n alpha kappa))
           (1 / (2 * ((n : α) + utLambda n alpha kappa))) := by
  ext j; simp [utWeights, wv]

theorem toV_utWeights_cov (n : ℕ) (alpha beta kappa : α) :
    toV (utWeights n alpha beta kappa).cov
      = wv (utLambda n alpha kappa / ((n : α) + utLambda n alpha kappa) + (1 - alpha * alpha + beta))
           (1 / (2 * ((n : α) + utLambda n alpha kappa))) := by
  ext j; simp [utWeights, wv]

theorem utWeights_c (n : ℕ) (alpha beta kappa : α) :
    (utWeights n alpha beta kappa).c = (n : α) + utLambda n alpha kappa := rfl

/-- Moments of one component when the propagated points are an affine image of sigma points
    `m ± B_j` with `B Bᵀ = c P`: `(A m + b, A P Aᵀ, (P Aᵀ) restricted to the non-noise rows)`. -/
theorem utComponent_affine (alpha beta kappa : α)
    (hc : ((nx + nz : ℕ) : α) + utLambda (nx + nz) alpha kappa ≠ 0)
    (m : Vec α (nx + nz)) (B P : Mat α (nx + nz) (nx + nz))
    (hB : toM B * (toM B)ᵀ = (utWeights (nx + nz) alpha beta kappa).c • toM P)
    (X : Mat α (nx + nz) (2 * (nx + nz) + 1)) (hX : toM X = E (toM B) + rep (toV m))
    (A : Mat α ny (nx + nz)) (b : Vec α ny)
    (Y : Mat α ny (2 * (nx + nz) + 1)) (hY : toM Y = toM A * toM X + rep (toV b)) :
    toV (utComponent (nx := nx) (nz := nz) (utWeights (nx + nz) alpha beta kappa) m X Y).1 = toM A *ᵥ toV m + toV b ∧
    toM (utComponent (nx := nx) (nz := nz) (utWeights (nx + nz) alpha beta kappa) m X Y).2.1 = toM A * toM P * (toM A)ᵀ ∧
    toM (utComponent (nx := nx) (nz := nz) (utWeights (nx + nz) alpha beta kappa) m X Y).2.2
      = (toM P * (toM A)ᵀ).submatrix (Fin.castAdd nz) id := by
  obtain ⟨hsum, hw⟩ := weights_facts (n := nx + nz) (utLambda (nx + nz) alpha kappa) hc
  have hmean : toV (Y.mulVec (utWeights (nx + nz) alpha beta kappa).mean) = toM A *ᵥ toV m + toV b := by
    rw [toV_mulVec, hY, hX, toV_utWeights_mean]
    exact affine_mean _ _ _ _ _ _ hsum
  have hoff : toM (utOffsets Y (Y.mulVec (utWeights (nx + nz) alpha beta kappa).mean)) = toM A * E (toM B) := by
    rw [toM_utOffsets, hmean, hY, hX]
    exact affine_offsets _ _ _ _
  refine ⟨hmean, ?_, ?_⟩
  · simp only [utComponent, Mat.eval_eq, toM_utCov, hoff, toV_utWeights_cov]
    exact affine_cov _ _ _ _ _ _ hB hw
  · simp only [utComponent, Mat.eval_eq, toM_utCov, hoff, toV_utWeights_cov, toM_utOffsets, toM_topRows, toV_top, hX]
    have : (E (toM B) + rep (toV m)).submatrix (Fin.castAdd nz) id
          - (rep (toV m ∘ Fin.castAdd nz) : Matrix (Fin nx) (Fin (2 * (nx + nz) + 1)) α)
        = (E (toM B)).submatrix (Fin.castAdd nz) id := by
      ext i j; simp [rep]
    rw [this]
    exact affine_cross _ _ _ _ _ _ _ hB hw

end field

end BFL
