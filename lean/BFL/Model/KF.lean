import BFL.Core.Mat
/-
Model of the Kalman prediction and correction steps.

  KFPrediction::predictStep      src/BayesFilters/src/KFPrediction.cpp
  LinearStateModel::propagate    src/BayesFilters/src/LinearStateModel.cpp  (non-skipping branches)
  KFCorrection::correctStep      src/BayesFilters/src/KFCorrection.cpp
  LinearMeasurementModel::{predictedMeasure, innovation}

The matrix inverse used for the gain is a parameter `inv` (Eigen's `.inverse()` in the
code); theorems assume only that it returns an inverse of the matrix it is applied to.
-/
namespace BFL

/-- A Gaussian mixture with `k` components over an `n`-dimensional linear state. -/
structure GM (α : Type) (n k : Nat) where
  mean : Fin k → Vec α n
  cov : Fin k → Mat α n n
  weight : Vec α k

section
variable {α : Type} [Add α] [Sub α] [Mul α] [Zero α] [Inhabited α] {n m k : Nat}

/-- `LinearStateModel::propagate` with nothing skipped: `F x (+ exogenous(x))`. -/
def propagateMean (F : Mat α n n) (exo : Option (Vec α n → Vec α n)) (x : Vec α n) : Vec α n :=
  match exo with
  | none => F.mulVec x
  | some g => (F.mulVec x).add (g x)

/-- `P ↦ F P Fᵀ + Q`  (KFPrediction.cpp, covariance line). -/
def kfPredictCov (F P Q : Mat α n n) : Mat α n n :=
  ((F.mul P).mul F.transpose).add Q

/-- `KFPrediction::predictStep` for a mixture: every component on its own.  The step writes
    means and covariances into the caller's output mixture `out`; its weights are not written. -/
def kfPredict (F Q : Mat α n n) (exo : Option (Vec α n → Vec α n)) (b out : GM α n k) : GM α n k :=
  { mean := fun i => propagateMean F exo (b.mean i)
    cov := fun i => kfPredictCov F (b.cov i) Q
    weight := out.weight }

/-- Innovation covariance `S = H P Hᵀ + R`. -/
def kfS (H : Mat α m n) (P : Mat α n n) (R : Mat α m m) : Mat α m m :=
  ((H.mul P).mul H.transpose).add R

/-- Gain `K = P Hᵀ S⁻¹`. -/
def kfGain (inv : Mat α m m → Mat α m m) (H : Mat α m n) (P : Mat α n n) (R : Mat α m m) : Mat α n m :=
  (P.mul H.transpose).mul (inv (kfS H P R))

/-- Innovation `ν = y − H m`  (`-(pred.colwise() - meas.col(0))`). -/
def kfInnovation (H : Mat α m n) (y : Vec α m) (x : Vec α n) : Vec α m :=
  y.sub (H.mulVec x)

/-- Corrected mean `m + K ν`. -/
def kfCorrectMean (inv : Mat α m m → Mat α m m) (H : Mat α m n) (R : Mat α m m) (y : Vec α m)
    (x : Vec α n) (P : Mat α n n) : Vec α n :=
  x.add ((kfGain inv H P R).mulVec (kfInnovation H y x))

/-- Corrected covariance `P − K S Kᵀ`. -/
def kfCorrectCov (inv : Mat α m m → Mat α m m) (H : Mat α m n) (R : Mat α m m) (P : Mat α n n) : Mat α n n :=
  let K := kfGain inv H P R
  P.sub ((K.mul (kfS H P R)).mul K.transpose)

/-- `KFCorrection::correctStep` on a mixture, all four model calls valid.  Means and
    covariances are written into the caller's output mixture `out`; its weights are not written. -/
def kfCorrect (inv : Mat α m m → Mat α m m) (H : Mat α m n) (R : Mat α m m) (y : Vec α m)
    (b out : GM α n k) : GM α n k :=
  { mean := fun i => kfCorrectMean inv H R y (b.mean i) (b.cov i)
    cov := fun i => kfCorrectCov inv H R (b.cov i)
    weight := out.weight }

end
end BFL
