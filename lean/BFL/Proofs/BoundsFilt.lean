import BFL.Proofs.BoundsPart
/-
C14 (deepening round) — safety lemmas for the prediction steps and the particle-filter plumbing.
-/
set_option linter.unusedSimpArgs false
namespace BFL.Bounds
open W

theorem safe_wna_ctor_aux (d : Dim) : (wnaCtor d).Safe := by
  cases d <;> simp [wnaCtor, ldltSqrt]

theorem linPropagateFull_safe (n c : Nat) (skipS hasExo skipE : Bool) :
    (linPropagateFull ⟨n, n⟩ ⟨n, c⟩ ⟨n, c⟩ skipS hasExo skipE).Safe := by
  unfold linPropagateFull
  cases skipS <;> cases hasExo <;> cases skipE <;> simp [linPropagate]

theorem kfPredict_safe (I : Layout) (K fn : Nat) (m : SkipMode) (hasExo : Bool) (hdim : fn = I.dim) (hdc : fn = I.dcov) :
    (kfPredict I K I K fn m hasExo).Safe := by
  have hf : I.dim = I.dcov := by omega
  subst hdc
  unfold kfPredict
  cases m <;> cases hasExo <;> simp [skipFlags] <;>
    (refine ⟨by simpa [Layout.meanS, hf] using linPropagateFull_safe I.dcov K _ _ _, ?_⟩
     intro i hi
     have b := mul_block_le I.dcov i K hi
     simp [gmCov, Layout.covS]
     omega)

theorem ukfPredictAdditive_safe (I : Layout) (K n : Nat) (skip : Bool) (_hK : 1 ≤ K) (hIn : I.dn = 0) (hId : 1 ≤ I.dcov)
    (hdim : I.dim = n) (hdc : I.dcov = n) : (ukfPredictAdditive I K I n n skip).Safe := by
  unfold ukfPredictAdditive
  cases skip with
  | true => simp
  | false =>
    have hn := noiseless_of_dn I hIn
    simp only [Bool.false_eq_true, if_false, safe_bind, safe_pure, and_true]
    exact utStateAdditive_safe I K _ ⟨⟨n, n⟩, n, I⟩ hId (by rw [hn]; simp [utWeightSize]) hIn (by simp [hdim]) rfl (by simp [hdc])

theorem ukfPredictGeneric_safe (I : Layout) (K q : Nat) (skip : Bool) (hK : 1 ≤ K) (hIn : I.dn = 0) (hId : 1 ≤ I.dcov) :
    (ukfPredictGeneric I K I q q skip).Safe := by
  unfold ukfPredictGeneric
  cases skip with
  | true => simp
  | false =>
    have hst : (⟨K, I, I.dim, I.dcov, I.meanS K, I.covS K, K⟩ : GMStore).wf := by simp [GMStore.wf, Layout.meanS, Layout.covS]
    have hau := gmAugment_ok ⟨K, I, I.dim, I.dcov, I.meanS K, I.covS K, K⟩ ⟨q, q⟩ hst hK
    have haL : (gmAugment ⟨K, I, I.dim, I.dcov, I.meanS K, I.covS K, K⟩ ⟨q, q⟩).val.1.L = I.withNoise q := by
      rw [hau.2.2.2.1]; simp
    obtain ⟨c1, c2⟩ := withNoise_cross I q hIn
    have hn := noiseless_of_dn I hIn
    have hs := sigmaPoint_safe (I.withNoise q) K (by omega)
    have hv := sigmaPoint_val (I.withNoise q) K
    simp only [Bool.false_eq_true, if_false, safe_bind, val_bind, safe_pure, and_true, hau.1, haL, hs, hv, hn, true_and]
    exact utGeneric_safe (I.withNoise q) K _ I _ true (by omega) (by simp [utWeightSize]) hIn rfl

theorem gpfPredict_safe (I : Layout) (K fn : Nat) (hdim : fn = I.dim) (hdc : fn = I.dcov) : (gpfPredict I K I K fn).Safe := by
  have h := kfPredict_safe I K fn .none false hdim hdc
  have hv : (kfPredict I K I K fn .none false).val = (I, K) := by simp [kfPredict, skipFlags]
  unfold gpfPredict
  simp [h, hv]

theorem drawPredict_safe (d : Dim) (I : Layout) (N : Nat) (hasExo : Bool) (h : I.dim = d.n) : (drawPredict d I N I N hasExo).Safe := by
  have hc := safe_wna_ctor_aux d
  unfold drawPredict
  rw [h]
  cases d <;> cases hasExo <;> simp [wnaCtor, ldltSqrt, wnaNoise, linPropagateFull, linPropagate, Dim.n]

theorem gaussianDensity_cols (inp mean cov : Shape) : (gaussianDensity inp mean cov).val = vecS inp.c := by
  simp [gaussianDensity]

theorem gaussianLikelihood_ok (M : MMod) (states : Shape) (hr : M.irows = M.rr) (hd : M.dcols = 0) :
    (gaussianLikelihood M states).Safe ∧
    ((gaussianLikelihood M states).val = (false, 1) ∨ (gaussianLikelihood M states).val = (true, states.c)) := by
  unfold gaussianLikelihood
  cases M.mvalid <;> cases M.pvalid <;> cases M.ivalid <;> simp [gaussianDensity, hr, hd]

theorem bootstrapCorrect_safe (I : Layout) (N : Nat) (M : MMod) (hr : M.irows = M.rr) (hd : M.dcols = 0) :
    (bootstrapCorrect I N M).Safe := by
  obtain ⟨h1, h2⟩ := gaussianLikelihood_ok M ⟨I.dim, N⟩ hr hd
  unfold bootstrapCorrect
  simp only [safe_bind, val_bind, h1, true_and]
  rcases h2 with h | h <;> rw [h] <;> simp

/-- GPFCorrection::correctStep with the shipped collaborators, `corr_particles` shaped like `pred_particles` -/
theorem gpfCorrect_safe (d : Dim) (N hm : Nat) (mvalid : Bool) (hN : 1 ≤ N) (hhm : 1 ≤ hm) :
    (gpfCorrect d N N hm hm mvalid).Safe := by
  have hI : (Layout.mk d.n 0 false 0).dim = d.n ∧ (Layout.mk d.n 0 false 0).dcov = d.n := by simp [Layout.dim, Layout.dcov]
  have hkf := kfCorrect_safe ⟨d.n, 0, false, 0⟩ N ⟨d.n, 0, false, 0⟩ N hm d.n hm mvalid
    ⟨hN, rfl, rfl, rfl, hhm, hI.1.symm, hI.2.symm, rfl⟩
  have hkv : (kfCorrect ⟨d.n, 0, false, 0⟩ N ⟨d.n, 0, false, 0⟩ N hm d.n hm mvalid).val.K = N := by
    unfold kfCorrect; cases mvalid <;> simp [corrCopy]
  have hw := safe_wna_ctor_aux d
  have hb : ∀ i, i < N → d.n * i + d.n ≤ d.n * N := fun i hi => mul_block_le _ _ _ hi
  unfold gpfCorrect
  simp only [safe_bind, val_bind, hkf, hkv, true_and]
  cases mvalid with
  | false =>
    simp [gpfSample, ldltSqrt, gmMean, gmCov, Layout.meanS, Layout.covS, hI.1, hI.2]
    intro i hi; exact ⟨hi, hb i hi⟩
  | true =>
    cases d <;>
      simp [gpfSample, ldltSqrt, gmMean, gmCov, Layout.meanS, Layout.covS, gaussianDensity, wnaCtor, Dim.n, Layout.dim, Layout.dcov] <;>
      bounds_arith

/-- SIS: any number of filtering steps, resampling whenever the data say so, any weights in the resampling scan -/
theorem sisRun_safe (N lin circ : Nat) (d : Dim) (nx ny hm steps : Nat) (resampleAt : Nat → Bool) (gt : Nat → Nat → Bool)
    (hN : 1 ≤ N) (hd : lin + circ = d.n) : (sisRun N lin circ d nx ny hm steps resampleAt gt).Safe := by
  have hI : (Layout.mk lin circ false 0).dim = d.n := by simp [Layout.dim, Layout.cc]; omega
  have hg := gridInit_safe nx ny N (Layout.mk lin circ false 0).dim
  have hdr := drawPredict_safe d ⟨lin, circ, false, 0⟩ N false hI
  have hbo := bootstrapCorrect_safe ⟨lin, circ, false, 0⟩ N
    ⟨⟨lin, circ, false, 0⟩, ⟨hm, 0, false, 0⟩, hm, 0, hm, hm, hm, true, true, true⟩ rfl rfl
  have hrs := resample_safe ⟨lin, circ, false, 0⟩ N gt hN
  unfold sisRun
  simp only [safe_bind, val_bind, hg, true_and, safe_forRange]
  intro s _
  refine ⟨?_, by simp, hbo, by simp; omega, ?_, by simp⟩
  · split <;> simp [hdr]
  · split <;> simp [hrs]

/-! ### SUKF call sequences (stale members) -/

/-- `getLikelihood()` on ANY pair of members with matching row counts: innovations of an earlier success may be paired
    with propagated sigma points of a later call with another component count -/
theorem sukfLikelihood_gen_safe (m Ki p rr sub : Nat) (reduced : Bool) (hsub : 0 < sub) (_hK : 0 < Ki)
    (hrr : if reduced then rr = sub else rr = m) : (sukfLikelihood ⟨m, Ki⟩ ⟨m, p⟩ rr sub reduced).Safe := by
  unfold sukfLikelihood
  split
  · simp
  · simp only [safe_bind, safe_pure, and_true, safe_forRange, val_bind]
    refine ⟨by simp [hsub], ?_, ?_⟩
    · intro i hi
      have := sukfNoiseCov_ok rr sub reduced i m hi hrr
      have b := div_block_le' sub i m hi
      simp [this.1, this.2]; omega
    · intro i hi
      have := gaussianDensityUVR_safe m (p / Ki) sub hsub
      have hi' : i < Ki := by simpa using hi
      have b1 : p / Ki * (i + 1) ≤ p / Ki * Ki := Nat.mul_le_mul_left _ (by omega)
      have b2 : p / Ki * Ki ≤ p := Nat.div_mul_le_self p Ki
      have b3 : p / Ki * (i + 1) = p / Ki * i + p / Ki := by rw [Nat.mul_succ]
      simp [this.1, this.2, hi']; omega

theorem sukfSeq_safe (I : Layout) (M : MMod) (sub : Nat) (reduced : Bool) (hs : sukfSupported I) (steps : List CStep) :
    ∀ mem : SUKFMem, sukfSeqValid I M sub reduced steps → (sukfSeq I M sub reduced mem steps).Safe := by
  induction steps with
  | nil => intro mem _; simp [sukfSeq]
  | cons s ss ih =>
    intro mem hv
    have hv1 := hv s List.mem_cons_self
    obtain ⟨h1, h2⟩ := sukfStep_ok mem I s.K I s.K (M.withFlags s) sub reduced hv1 hs
    obtain ⟨⟨hK, _, _, _, _, _, _, _, _, _, _⟩, _, hsub, hrr⟩ := hv1
    simp only [sukfSeq, safe_bind, val_bind, safe_pure, and_true]
    refine ⟨h1, ?_, ih _ (fun x hx => hv x (List.mem_cons_of_mem _ hx))⟩
    rcases h2 with h | h | h
    · rw [h]; simp [sukfLikelihood]
    · rw [h]; simp [sukfLikelihood]
    · rw [h]; exact sukfLikelihood_safe _ (I.dcov * 2 + 1) s.K _ sub reduced (by omega) (by omega) hrr

/-! ### KF call sequences (stale but consistent members), EstimatesExtraction with changing methods -/

theorem kfSeq_safe (I : Layout) (hm hn ysize : Nat) (steps : List CStep) :
    ∀ mem : KFMem, (mem.inn = ⟨0, 0⟩ ∨ mem.inn = ⟨hm, mem.K⟩) → kfSeqValid I hm hn ysize steps →
      (kfSeq I hm hn ysize mem steps).Safe := by
  induction steps with
  | nil => intro mem _ _; simp [kfSeq]
  | cons s ss ih =>
    intro mem hm' hv
    have hk := kfCorrect_safe I s.K I s.K hm hn ysize s.mv (hv s List.mem_cons_self)
    obtain ⟨o1, _⟩ := linO hm
    have hok : ((if s.mv = true then (⟨⟨hm, s.K⟩, s.K⟩ : KFMem) else mem).inn = ⟨0, 0⟩ ∨
        (if s.mv = true then (⟨⟨hm, s.K⟩, s.K⟩ : KFMem) else mem).inn = ⟨hm, (if s.mv = true then (⟨⟨hm, s.K⟩, s.K⟩ : KFMem) else mem).K⟩) := by
      split
      · exact Or.inr rfl
      · exact hm'
    simp only [kfSeq, safe_bind, val_bind, safe_pure, and_true, hk, true_and]
    refine ⟨?_, ih _ hok (fun x hx => hv x (List.mem_cons_of_mem _ hx))⟩
    rcases hok with h | h
    · rw [h]; simp [gaussLikelihood]
    · rw [h]; exact gaussLikelihood_safe _ _ _ _ (by simp [o1]) (by simp)

theorem eeSeq_safe (a : EEArgs) (steps : List (EMethod × Bool)) : ∀ s : EEState, s.inv → eeValid s.ls s.cs true a →
    (eeSeq s a steps).Safe := by
  induction steps with
  | nil => intro s _ _; simp [eeSeq]
  | cons st rest ih =>
    intro s hi hv
    obtain ⟨m, full⟩ := st
    have hvf : eeValid s.ls s.cs full a := ⟨hv.1, hv.2.1, hv.2.2.1, fun _ => hv.2.2.2 rfl⟩
    have h := eeExtract_ok s m full a hi hvf
    simp only [eeSeq, safe_bind, safe_pure, and_true]
    refine ⟨h.1, ih _ h.2.1 ?_⟩
    rw [h.2.2.1, h.2.2.2]; exact hv

/-! ### ParticleSet::resize -/

theorem gmResize_fields (g : GMStore) (K dl dc : Nat) (h : ¬ (g.L.dl = dl ∧ g.L.dc = dc ∧ g.K = K)) :
    (gmResize g K dl dc).K = K ∧ (gmResize g K dl dc).L = { g.L with dl := dl, dc := dc } := by
  unfold gmResize
  simp only [h, if_false]
  split <;> simp

/-- `ParticleSet::resize` (after fix 668e0de) keeps `state_` consistent with the mixture bookkeeping -/
theorem psResize_wf (p : PSStore) (K dl dc : Nat) (h : p.wf) : (psResize p K dl dc).wf := by
  obtain ⟨hg, hn, hs⟩ := h
  have hr := gmResize_wf p.g K dl dc hg
  obtain ⟨w1, _, _, _, _⟩ := hg
  by_cases hsame : p.g.L.dl = dl ∧ p.g.L.dc = dc ∧ p.g.K = K
  · have : gmResize p.g K dl dc = p.g := by unfold gmResize; simp [hsame]
    refine ⟨hr, ?_, ?_⟩
    · show (gmResize p.g K dl dc).L.dn = 0
      rw [this]; exact hn
    · show (psResize p K dl dc).state = _
      unfold psResize
      simp only [hsame, and_self, if_true, this]
      rw [hs, hsame.2.2]
  · obtain ⟨f1, f2⟩ := gmResize_fields p.g K dl dc hsame
    have hdim : ({ p.g.L with dl := dl, dc := dc } : Layout).dim = dl + dc * ({ p.g.L with dl := dl, dc := dc, dn := 0 } : Layout).cc := by
      simp [Layout.dim, Layout.cc, hn]
    refine ⟨hr, ?_, ?_⟩
    · show (gmResize p.g K dl dc).L.dn = 0
      rw [f2]; exact hn
    · show (psResize p K dl dc).state = ⟨(gmResize p.g K dl dc).L.dim, (gmResize p.g K dl dc).K⟩
      rw [f1, f2, hdim]
      unfold psResize
      simp only [hsame, if_false]
      split
      · rename_i hc
        rw [hs, ← w1, ← hc.1, hn]; simp
      · rfl

end BFL.Bounds
