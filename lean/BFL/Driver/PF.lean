import BFL.Driver.Proto
import BFL.Model.Resample
import BFL.Model.SIS
/-
Driver entries of the particle-filter group (C07 resampling, C06 SIS recursion).

  rs  N u1 e_0 … e_{N-1}            -> "ok" parents         selection over `Rat` on the exact `exp(wᵢ)` values
  rsf N u1 e_0 … e_{N-1}            -> "ok" parents         the same definitions over `Float`
  rsw N w_0 … w_{N-1}               -> "ok" neff(hex) -logN(hex)      `neffLog`, output weight, over `Float`
  rwp N lin circ quat ratio u1 w_0 … -> "ok" k n lin circ quat |parts| |logw| ids… parents… weights(hex)…
                                       `resampleWithPrior` over `Float`; particle `i` carries id `i+1`,
                                       the initialiser writes ids `-(j+1)`, untouched storage is id `0`
  sis …                             -> see `sis` below (C06)
-/
namespace BFL.DriverPF
open BFL BFL.Proto BFL.PF

instance : NatCast Float := ⟨Float.ofNat⟩
instance : Zero Float := ⟨0.0⟩
instance : One Float := ⟨1.0⟩

def natsStr (l : List Nat) : List String := l.map toString
def intsStr (l : List Int) : List String := l.map toString

def rs : R String := do
  let n ← nat
  let u1 ← rat
  let ws ← listOf n rat
  done
  pure (join ("ok" :: natsStr (resampleIdx ws u1)))

def rsf : R String := do
  let n ← nat
  let u1 ← flt
  let ws ← listOf n flt
  done
  pure (join ("ok" :: natsStr (resampleIdx ws u1)))

def rsw : R String := do
  let n ← nat
  let ws ← listOf n flt
  done
  pure (join ["ok", floatStr (neffLog ws), floatStr (-(Transc.log ((n : Nat) : Float)))])

def floorNat (x : Float) : Nat := (Float.floor x).toUInt64.toNat

/-- one admissible `sort_indices`: stable merge sort by ascending value -/
def sortIdxFloat (v : List Float) : List Nat :=
  let arr := v.toArray
  (List.range v.length).mergeSort (fun a b => !(arr.getD b 0.0 < arr.getD a 0.0))

def rwp : R String := do
  let n ← nat; let lin ← nat; let circ ← nat; let quat ← bool
  let ratio ← flt
  let u1 ← flt
  let ws ← listOf n flt
  done
  let cor : PSet Int Float :=
    { n := n, lin := lin, circ := circ, quat := quat, parts := (List.range n).map (fun i => (Int.ofNat i) + 1), logw := ws }
  let init : PSet Int Float → PSet Int Float := fun s =>
    { s with parts := (List.range s.parts.length).map (fun j => -((Int.ofNat j) + 1)) }
  let k := numPrior floorNat ratio cor
  let (out, par) := resampleWithPrior floorNat sortIdxFloat init ratio cor u1
  pure (join (["ok", toString k, toString out.n, toString out.lin, toString out.circ,
               (if out.quat then "1" else "0"), toString out.parts.length, toString out.logw.length]
              ++ intsStr out.parts ++ intsStr par ++ out.logw.map floatStr))

/-- `seqcfg kind ratio seed ncalls` — the object of a `seq` case (harness `op_seq`): built by the constructor overload
    `kind % 100` selects, handed over (copy / move construction / assignment) before the first call or, for
    `kind ≥ 100`, after it, serving `ncalls` calls.  Output: `ok prior ratio(hex) seed drawn` of the object in use at
    the end — the configuration every one of its calls must exhibit. -/
def seqcfg : R String := do
  let kind ← nat
  let ratio ← flt
  let seed ← nat
  let ncalls ← nat
  done
  let k := kind % 100
  let late := decide (kind ≥ 100)
  let other : Float := if ratio == 0.5 then 0.25 else 0.5
  let ctor : Option (RsCtor Float) :=
    if k == 0 || k == 2 || k == 3 || k == 4 || k == 5 then some (.rs seed)
    else if k == 11 then some .rsDefault
    else if k == 1 || k == 6 || k == 7 then some (.rwp3 ratio seed)
    else if k == 9 || k == 12 then some (.rwp2 ratio)
    else if k == 10 || k == 13 then some .rwp1
    else none
  let hand : List (RsOp Float) :=
    if k == 2 then [.copyConstruct]
    else if k == 4 || k == 6 || k == 12 then [.moveConstruct]
    else if k == 3 then [.moveAssign ((RsCtor.rs 12345).build)]
    else if k == 5 then [.copyAssign ((RsCtor.rs 777).build)]
    else if k == 7 || k == 13 then [.moveAssign ((RsCtor.rwp3 other 999).build)]
    else []
  match ctor with
  | none => pure "bad-kind"
  | some c =>
    let calls := fun n => List.replicate n (RsOp.call (α := Float))
    let ops := if late then calls (min 1 ncalls) ++ hand ++ calls (ncalls - 1) else hand ++ calls ncalls
    let o := c.build.run ops
    pure (join ["ok", (if o.prior then "1" else "0"), floatStr o.ratio, toString o.seed, toString o.drawn])

/-! ### C06 -/

def cmdOf : Nat → List SkipCmd
  | 1 => [.predOn] | 2 => [.predOff] | 3 => [.corOn] | 4 => [.corOff] | 5 => [.allOn] | 6 => [.allOff]
  | _ => []

def cmdOf1 : Nat → Option SkipCmd
  | 1 => some .predOn | 2 => some .predOff | 3 => some .corOn | 4 => some .corOff | 5 => some .allOn | 6 => some .allOff
  | 7 => some .other
  | _ => none

/-- `sis N lin circ K D prior ratio u_0…u_{D-1} E (w0… x0…)×E (ncmd cmd… freeze valid reset shift l_0…l_{N-1})×K`
    The harness' prediction is `DrawParticles` over a state model that adds `shift` (per step) to every state
    entry; a particle is represented by the first entry of its state column.  `reset` = a reset command arrives
    during the step: the next step starts a new epoch, initialised with the next `(w0, x0)` pair.
    One output block per step:
    `S cor.n cor.lin cor.circ |cor.parts| |cor.logw| pred.n pred.lin pred.circ |pred.parts| trig neff(hex)
       |parents| parents… weights(hex)… states(hex)… L |logged| logged corrected weights(hex)…` -/
def sisG (ext : Bool) : R String := do
  let n ← nat; let lin ← nat; let circ ← nat; let k ← nat
  let d ← nat
  let prior ← bool
  let ratio ← flt
  let us ← listOf d flt
  let e ← nat
  let inits ← listOf e (do
    let w0 ← listOf n flt
    let x0 ← listOf n flt
    pure (w0, x0))
  let evs ← listOf k (do
    let nc ← nat
    let cs ← listOf nc nat
    -- `sis2`: commands arriving during freeze_measurements() / during the likelihood evaluation (or, when that does not run, in log())
    let nm ← (if ext then nat else pure 0)
    let cm ← listOf nm nat
    let nl ← (if ext then nat else pure 0)
    let cl ← listOf nl nat
    let fr ← bool
    let va ← bool
    let rst ← bool
    let sh ← flt
    let l ← listOf n flt
    let pr : PSet Float Float → PSet Float Float → PSet Float Float :=
      fun prev pred => { pred with parts := prev.parts.map (fun x => x + sh), logw := prev.logw }
    let ev : SisEvent Float Float := { cmds := cs.filterMap cmdOf1, freezeOk := fr, likValid := va, lik := l, predict := pr,
                                       cmdsMid := cm.filterMap cmdOf1, cmdsLate := cl.filterMap cmdOf1 }
    pure (ev, rst))
  done
  let cfg : SisCfg Float := { N := n, tiny := Float.ofBits 0x0010000000000000 }
  let initArr := inits.toArray
  let initOf : Nat → PSet Float Float → PSet Float Float := fun ep s =>
    let p := initArr.getD (ep % (max e 1)) ([], [])
    { s with parts := p.2, logw := p.1 }
  let s0 := sisInit cfg lin circ (initOf 0) us
  -- the resampling object: `Resampling`, or `ResamplingWithPrior` whose initialiser writes 5e6 + j
  let pinit : PSet Float Float → PSet Float Float := fun s =>
    { s with parts := (List.range s.parts.length).map (fun j => 5.0e6 + Float.ofNat j) }
  let rsmp : PSet Float Float → PSet Float Float → Float → PSet Float Float × List Int :=
    if prior then (fun cor _ u => resampleWithPrior floorNat sortIdxFloat pinit ratio cor u) else resample
  let (_, _, outs) := evs.foldl (fun (acc : SisState Float Float × Nat × Array String) evr =>
      let (st, ep, out) := acc
      let (ev, rst) := evr
      let lg := (sisLogged cfg st ev).2.logw
      let nf := neffLog lg
      let s := sisRun rsmp cfg st [SisOp.step ev]
      let blk := ["S", toString s.cor.n, toString s.cor.lin, toString s.cor.circ,
                  toString s.cor.parts.length, toString s.cor.logw.length,
                  toString s.pred.n, toString s.pred.lin, toString s.pred.circ, toString s.pred.parts.length,
                  (if s.resampled then "1" else "0"), floatStr nf, toString s.parents.length]
                 ++ intsStr s.parents ++ s.cor.logw.map floatStr ++ s.cor.parts.map floatStr
                 ++ ["L", toString lg.length] ++ lg.map floatStr ++ ["T", toString st.step]
                 ++ (if ext then ["F", (if s.skipPred then "1" else "0"), (if s.skipCor then "1" else "0"),
                                  (if (ev.cmds ++ ev.cmdsMid ++ ev.cmdsLate).all cmdAccepted then "1" else "0")] else [])
      let s' := if rst then sisRun rsmp cfg s [SisOp.reset (initOf (ep + 1))] else s
      (s', (if rst then ep + 1 else ep), out.push (join blk))) (s0, 0, #[])
  pure (join ("ok" :: outs.toList))

def sis : R String := sisG false
def sis2 : R String := sisG true

/-- `sisp N lin circ K D u… w0… x0… (freeze valid predx_0…predx_{N-1} |l| l…)×K` — the recursion with the
    prediction outcome given as data (first state entry of every predicted particle, as the shipped
    `DrawParticles` over a noisy state model produced it) and the likelihood the shipped model reported.
    Output blocks as for `sis`. -/
def sisp : R String := do
  let n ← nat; let lin ← nat; let circ ← nat; let k ← nat
  let d ← nat
  let us ← listOf d flt
  let w0 ← listOf n flt
  let x0 ← listOf n flt
  let evs ← listOf k (do
    let fr ← bool
    let va ← bool
    let px ← listOf n flt
    let nl ← nat
    let l ← listOf nl flt
    let pr : PSet Float Float → PSet Float Float → PSet Float Float :=
      fun prev pred => { pred with parts := px, logw := prev.logw }
    let ev : SisEvent Float Float := { cmds := [], freezeOk := fr, likValid := va, lik := l, predict := pr }
    pure ev)
  done
  let cfg : SisCfg Float := { N := n, tiny := Float.ofBits 0x0010000000000000 }
  let s0 := sisInit cfg lin circ (fun s => { s with parts := x0, logw := w0 }) us
  let (_, outs) := evs.foldl (fun (acc : SisState Float Float × Array String) ev =>
      let st := acc.1
      let lg := (sisLogged cfg st ev).2.logw
      let s := sisStep cfg st ev
      let blk := ["S", toString s.cor.n, toString s.cor.lin, toString s.cor.circ,
                  toString s.cor.parts.length, toString s.cor.logw.length,
                  toString s.pred.n, toString s.pred.lin, toString s.pred.circ, toString s.pred.parts.length,
                  (if s.resampled then "1" else "0"), floatStr (neffLog lg), toString s.parents.length]
                 ++ intsStr s.parents ++ s.cor.logw.map floatStr ++ s.cor.parts.map floatStr
                 ++ ["L", toString lg.length] ++ lg.map floatStr ++ ["T", toString st.step]
      (s, acc.2.push (join blk))) (s0, #[])
  pure (join ("ok" :: outs.toList))

/-- `glik scale ok1 ok2 ok3 ok4 N d_1…d_N` (`d_i` = Gaussian density of innovation `i`) -> valid |l| l… -/
def glik : R String := do
  let scale ← flt
  let o1 ← bool; let o2 ← bool; let o3 ← bool; let o4 ← bool
  let n ← nat
  let ds ← listOf n flt
  done
  let (v, l) := gaussianLikelihood scale o1 o2 o3 o4 (fun d : Float => d) ds
  pure (join (["ok", (if v then "1" else "0"), toString l.length] ++ l.map floatStr))

def handle (op : String) (args : List String) : Option String :=
  match op with
  | "rs" => some ((run rs args).getD "bad-args")
  | "rsf" => some ((run rsf args).getD "bad-args")
  | "rsw" => some ((run rsw args).getD "bad-args")
  | "rwp" => some ((run rwp args).getD "bad-args")
  | "seqcfg" => some ((run seqcfg args).getD "bad-args")
  | "sis" => some ((run sis args).getD "bad-args")
  | "sis2" => some ((run sis2 args).getD "bad-args")
  | "glik" => some ((run glik args).getD "bad-args")
  | "sisp" => some ((run sisp args).getD "bad-args")
  | _ => none

end BFL.DriverPF
