import BFL.Model.Fault
import BFL.Model.FaultEntry
import BFL.Proofs.Fault
/-
C12 — A correction that cannot use the measurement leaves the belief untouched.

Model: BFL/Model/Fault.lean.  Beliefs are an arbitrary type `β` (so "equal to the predicted
belief" means every component, mean, covariance, weight and position); the numeric parts of a
successful correction are arbitrary functions; the measurement / likelihood model answers from
an arbitrary `Script` (all subsets of failing calls, including models that answer differently
at different call sites).  `anyFailed log` = some call *whose validity the class looks at*
reported "unavailable"; `endsAtFailure log` = that call is the last one made.

Calls whose validity the code ignores (`std::tie(std::ignore, R) = getNoiseCovarianceMatrix()`
in UKFCorrection, the additive unscented transform and SUKFCorrection) are logged with
`consulted = false`: unavailability cannot be signalled to the class there, and the theorems
`*_ignores_noise_validity` state that the answer has no influence.

Expected and confirmed finding: GPFCorrection (see `fault_identity_gpf_counterexample`).
-/
namespace BFL
open BFL.Fault

variable {β γ : Type}

/-! ### Kalman correction -/

theorem fault_identity_kf (num : β → β → β) (s : Script) (pred cin : β) :
    (anyFailed (kfCorrect num s pred cin).log = true →
        (kfCorrect num s pred cin).val = pred ∧ endsAtFailure (kfCorrect num s pred cin).log = true) ∧
    (anyFailed (kfCorrect num s pred cin).log = false →
        (kfCorrect num s pred cin).val = num pred cin ∧
        (kfCorrect num s pred cin).log.map (·.method) = [.measure, .predictedMeasure, .innovation, .noiseCov]) := by
  obtain ⟨fz, me, pr, inn, no, li⟩ := s
  rcases me with _ | ⟨_ | _, me⟩ <;> rcases pr with _ | ⟨_ | _, pr⟩ <;> rcases inn with _ | ⟨_ | _, inn⟩ <;>
    rcases no with _ | ⟨_ | _, no⟩ <;>
    simp [kfCorrect, call, pop, anyFailed, Entry.failed, endsAtFailure]

/-- In terms of the script: measurement, predicted measurement, innovation or noise covariance
    unavailable at the (single) call the Kalman correction makes ⇒ belief untouched. -/
theorem fault_identity_kf_script (num : β → β → β) (s : Script) (pred cin : β)
    (h : s.measure.head? = some false ∨ s.predicted.head? = some false ∨
         s.innovation.head? = some false ∨ s.noise.head? = some false) :
    (kfCorrect num s pred cin).val = pred := by
  obtain ⟨fz, me, pr, inn, no, li⟩ := s
  rcases me with _ | ⟨_ | _, me⟩ <;> rcases pr with _ | ⟨_ | _, pr⟩ <;> rcases inn with _ | ⟨_ | _, inn⟩ <;>
    rcases no with _ | ⟨_ | _, no⟩ <;>
    simp_all [kfCorrect, call, pop]

/-! ### Unscented correction (both constructors) and the unscented transform -/

/-- Failure of the function evaluation propagates out of the unscented transform, for both
    measurement-model overloads; the additive one makes no further call after the failure. -/
theorem ut_failure_propagates (s : Script) (site : Site) :
    ((utMeasurement s site).val = false ↔ s.predicted.head? = some false) ∧
    ((utAdditiveMeasurement s site).val = false ↔ s.predicted.head? = some false) ∧
    ((utAdditiveMeasurement s site).val = false → (utAdditiveMeasurement s site).log.length = 1) := by
  obtain ⟨fz, me, pr, inn, no, li⟩ := s
  rcases pr with _ | ⟨_ | _, pr⟩ <;> simp [utMeasurement, utAdditiveMeasurement, utFunction, call, pop]

theorem fault_identity_ukf (v : UKFVariant) (num : β → β → β) (s : Script) (pred cin : β) :
    (anyFailed (ukfCorrect v num s pred cin).log = true →
        (ukfCorrect v num s pred cin).val = pred ∧ endsAtFailure (ukfCorrect v num s pred cin).log = true) ∧
    (anyFailed (ukfCorrect v num s pred cin).log = false →
        (ukfCorrect v num s pred cin).val = num pred cin) := by
  obtain ⟨fz, me, pr, inn, no, li⟩ := s
  cases v <;>
  rcases me with _ | ⟨_ | _, me⟩ <;> rcases pr with _ | ⟨_ | _, pr⟩ <;> rcases inn with _ | ⟨_ | _, inn⟩ <;>
    rcases no with _ | ⟨_ | _, no⟩ <;>
    simp [ukfCorrect, utMeasurement, utAdditiveMeasurement, utFunction, call, pop, anyFailed, Entry.failed, endsAtFailure]

theorem fault_identity_ukf_script (v : UKFVariant) (num : β → β → β) (s : Script) (pred cin : β)
    (h : s.measure.head? = some false ∨ s.predicted.head? = some false ∨ s.innovation.head? = some false) :
    (ukfCorrect v num s pred cin).val = pred := by
  obtain ⟨fz, me, pr, inn, no, li⟩ := s
  cases v <;>
  rcases me with _ | ⟨_ | _, me⟩ <;> rcases pr with _ | ⟨_ | _, pr⟩ <;> rcases inn with _ | ⟨_ | _, inn⟩ <;>
    simp_all [ukfCorrect, utMeasurement, utAdditiveMeasurement, utFunction, call, pop]

/-- The unscented correction does not look at the validity of the noise covariance. -/
theorem ukf_ignores_noise_validity (v : UKFVariant) (num : β → β → β) (s : Script) (noise' : List Bool) (pred cin : β) :
    (ukfCorrect v num { s with noise := noise' } pred cin).val = (ukfCorrect v num s pred cin).val := by
  obtain ⟨fz, me, pr, inn, no, li⟩ := s
  cases v <;>
  rcases me with _ | ⟨_ | _, me⟩ <;> rcases pr with _ | ⟨_ | _, pr⟩ <;> rcases inn with _ | ⟨_ | _, inn⟩ <;>
    simp [ukfCorrect, utMeasurement, utAdditiveMeasurement, utFunction, call, pop]

/-! ### Serial unscented correction -/

theorem fault_identity_sukf (sizeOk : Bool) (k : Nat) (num : β → β → β) (s : Script) (pred cin : β) :
    ((anyFailed (sukfCorrect sizeOk k num s pred cin).log = true ∨ sizeOk = false) →
        (sukfCorrect sizeOk k num s pred cin).val = pred ∧
        (sukfCorrect sizeOk k num s pred cin).log.length ≤ 3 ∧
        (anyFailed (sukfCorrect sizeOk k num s pred cin).log = true →
          endsAtFailure (sukfCorrect sizeOk k num s pred cin).log = true)) ∧
    ((anyFailed (sukfCorrect sizeOk k num s pred cin).log = false ∧ sizeOk = true) →
        (sukfCorrect sizeOk k num s pred cin).val = num pred cin) := by
  obtain ⟨fz, me, pr, inn, no, li⟩ := s
  cases sizeOk <;>
  rcases me with _ | ⟨_ | _, me⟩ <;> rcases pr with _ | ⟨_ | _, pr⟩ <;> rcases inn with _ | ⟨_ | _, inn⟩ <;>
    simp [sukfCorrect, call, pop, anyFailed_cons, anyFailed_nil, noiseCalls_not_failed,
      Entry.failed, endsAtFailure]

theorem fault_identity_sukf_script (sizeOk : Bool) (k : Nat) (num : β → β → β) (s : Script) (pred cin : β)
    (h : sizeOk = false ∨ s.measure.head? = some false ∨ s.predicted.head? = some false ∨
         s.innovation.head? = some false) :
    (sukfCorrect sizeOk k num s pred cin).val = pred := by
  obtain ⟨fz, me, pr, inn, no, li⟩ := s
  cases sizeOk <;>
  rcases me with _ | ⟨_ | _, me⟩ <;> rcases pr with _ | ⟨_ | _, pr⟩ <;> rcases inn with _ | ⟨_ | _, inn⟩ <;>
    simp_all [sukfCorrect, call, pop]

theorem sukf_ignores_noise_validity (sizeOk : Bool) (k : Nat) (num : β → β → β) (s : Script) (noise' : List Bool) (pred cin : β) :
    (sukfCorrect sizeOk k num { s with noise := noise' } pred cin).val = (sukfCorrect sizeOk k num s pred cin).val := by
  obtain ⟨fz, me, pr, inn, no, li⟩ := s
  cases sizeOk <;>
  rcases me with _ | ⟨_ | _, me⟩ <;> rcases pr with _ | ⟨_ | _, pr⟩ <;> rcases inn with _ | ⟨_ | _, inn⟩ <;>
    simp [sukfCorrect, call, pop]

/-! ### Gaussian likelihood -/

/-- The Gaussian likelihood reports failure rather than a value exactly when one of its four
    calls (measurement, predicted measurement, innovation, noise covariance) reported
    "unavailable", and asks nothing after the failing call. -/
theorem likelihood_reports_failure (value : γ) (s : Script) :
    (anyFailed (gaussLik value s).log = true →
        (gaussLik value s).val = none ∧ endsAtFailure (gaussLik value s).log = true) ∧
    (anyFailed (gaussLik value s).log = false → (gaussLik value s).val = some value) := by
  obtain ⟨fz, me, pr, inn, no, li⟩ := s
  rcases me with _ | ⟨_ | _, me⟩ <;> rcases pr with _ | ⟨_ | _, pr⟩ <;> rcases inn with _ | ⟨_ | _, inn⟩ <;>
    rcases no with _ | ⟨_ | _, no⟩ <;>
    simp [gaussLik, call, pop, anyFailed, Entry.failed, endsAtFailure]

theorem likelihood_reports_failure_script (value : γ) (s : Script)
    (h : s.measure.head? = some false ∨ s.predicted.head? = some false ∨
         s.innovation.head? = some false ∨ s.noise.head? = some false) :
    (gaussLik value s).val = none := by
  obtain ⟨fz, me, pr, inn, no, li⟩ := s
  rcases me with _ | ⟨_ | _, me⟩ <;> rcases pr with _ | ⟨_ | _, pr⟩ <;> rcases inn with _ | ⟨_ | _, inn⟩ <;>
    rcases no with _ | ⟨_ | _, no⟩ <;>
    simp_all [gaussLik, call, pop]

theorem gaussLik_spec (value : γ) : LikSpec (gaussLik value) := by
  intro s
  have h := likelihood_reports_failure value s
  constructor
  · intro hn
    cases hf : anyFailed (gaussLik value s).log with
    | true => rfl
    | false => rw [(h.2 hf)] at hn; cases hn
  · intro hf; exact (h.1 hf).1

theorem scriptedLik_spec (value : γ) (site : Site) : LikSpec (scriptedLik value site) := by
  intro s
  obtain ⟨fz, me, pr, inn, no, li⟩ := s
  rcases li with _ | ⟨_ | _, li⟩ <;> simp [scriptedLik, call, pop, anyFailed, Entry.failed]

/-! ### Bootstrap correction -/

theorem fault_identity_bootstrap (lik : Script → R (Option γ)) (hl : LikSpec lik) (upd : β → γ → β)
    (s : Script) (pred : β) :
    (anyFailed (bootCorrect lik upd s pred).log = true → (bootCorrect lik upd s pred).val = pred) ∧
    (anyFailed (bootCorrect lik upd s pred).log = false →
        ∃ v, (lik s).val = some v ∧ (bootCorrect lik upd s pred).val = upd pred v) := by
  have h := hl s
  cases hv : (lik s).val with
  | none => simp [bootCorrect, hv, h.1 hv]
  | some v =>
    have hf : anyFailed (lik s).log = false := by
      cases hf : anyFailed (lik s).log with
      | false => rfl
      | true => rw [h.2 hf] at hv; cases hv
    simp [bootCorrect, hv, hf]

/-! ### Gaussian particle correction -/

/-- What holds: an unavailable *likelihood* restores the predicted particle set, every field. -/
theorem fault_identity_gpf_partial (gauss : Script → β → β → R β) (sample : β → β)
    (lik : Script → R (Option γ)) (hl : LikSpec lik) (weigh : β → β → γ → β) (s : Script) (pred cin : β)
    (h : anyFailed (lik (gauss s pred cin).script).log = true) :
    (gpfCorrect gauss sample lik weigh s pred cin).val = pred := by
  have hn := (hl (gauss s pred cin).script).2 h
  simp [gpfCorrect, hn]

/-- What the code does otherwise — whatever happened inside the wrapped Gaussian correction:
    positions are redrawn around its output and the weights are updated. -/
theorem gpf_likelihood_available (gauss : Script → β → β → R β) (sample : β → β)
    (lik : Script → R (Option γ)) (weigh : β → β → γ → β) (s : Script) (pred cin : β) (v : γ)
    (h : (lik (gauss s pred cin).script).val = some v) :
    (gpfCorrect gauss sample lik weigh s pred cin).val = weigh pred (sample (gauss s pred cin).val) v := by
  simp [gpfCorrect, h]

/-- **Counterexample to the full statement** (`anyFailed log → output = predicted`) for the
    Gaussian particle correction wrapping a Kalman correction with the Gaussian likelihood:
    the model reports the measurement unavailable at its first `measure()` (the Kalman
    correction returns the predicted belief) and available afterwards (the likelihood is
    valid).  A consulted call failed, yet the output is the predicted set with positions
    redrawn around the *uncorrected* Gaussians and weights updated — for every choice of the
    numeric parts; in the free (symbolic) instance this differs from the predicted set. -/
theorem fault_identity_gpf_counterexample :
    let s : Script := { measure := [false] }
    (∀ (num : β → β → β) (sample : β → β) (weigh : β → β → γ → β) (value : γ) (pred cin : β),
        anyFailed (gpfCorrect (kfCorrect num) sample (gaussLik value) weigh s pred cin).log = true ∧
        (gpfCorrect (kfCorrect num) sample (gaussLik value) weigh s pred cin).val = weigh pred (sample pred) value) ∧
    (gpfCorrect (kfCorrect Sym.full) Sym.sampled (gaussLik ()) (fun p c _ => Sym.weighed p c) s Sym.pred Sym.poison).val
        ≠ Sym.pred := by
  refine ⟨fun num sample weigh value pred cin => ?_, ?_⟩
  · simp [gpfCorrect, kfCorrect, gaussLik, call, pop, anyFailed, Entry.failed]
  · simp [gpfCorrect, kfCorrect, gaussLik, call, pop]

/-- The full-strength statement for the Gaussian particle correction (wrapping a Kalman
    correction, Gaussian likelihood), kept visible: *any* consulted call reporting "unavailable"
    ⇒ the predicted set is returned.  It is false for the code as it is: -/
def FaultIdentityGpf : Prop :=
  ∀ (num : Sym → Sym → Sym) (sample : Sym → Sym) (weigh : Sym → Sym → Unit → Sym) (s : Script) (p0 cin : Sym),
    anyFailed (gpfCorrect (kfCorrect num) sample (gaussLik ()) weigh s p0 cin).log = true →
    (gpfCorrect (kfCorrect num) sample (gaussLik ()) weigh s p0 cin).val = p0

theorem fault_identity_gpf_refuted : ¬ FaultIdentityGpf := by
  intro h
  have hc := @fault_identity_gpf_counterexample Sym Unit
  have h1 := (hc.1 Sym.full Sym.sampled (fun p c _ => Sym.weighed p c) () Sym.pred Sym.poison).1
  exact hc.2 (h Sym.full Sym.sampled (fun p c _ => Sym.weighed p c) { measure := [false] } Sym.pred Sym.poison h1)

/-! ### In-place calls `correct(b, b)` -/

/-- Kalman, unscented and serial unscented corrections called in place: a consulted call
    reporting "unavailable" leaves the object as it was (nothing is written before the last
    validity test, so the self-assignment on the early return is harmless). -/
theorem fault_identity_inplace_gauss (num : β → β → β) (s : Script) (b : β) :
    (anyFailed (gaussInPlace (kfCorrect num) s b).log = true → (gaussInPlace (kfCorrect num) s b).val = b) ∧
    (∀ v, anyFailed (gaussInPlace (ukfCorrect v num) s b).log = true → (gaussInPlace (ukfCorrect v num) s b).val = b) ∧
    (∀ sizeOk k, (anyFailed (gaussInPlace (sukfCorrect sizeOk k num) s b).log = true ∨ sizeOk = false) →
        (gaussInPlace (sukfCorrect sizeOk k num) s b).val = b) :=
  ⟨fun h => ((fault_identity_kf num s b b).1 h).1,
   fun v h => ((fault_identity_ukf v num s b b).1 h).1,
   fun sizeOk k h => ((fault_identity_sukf sizeOk k num s b b).1 h).1⟩

/-- The Gaussian particle correction called in place (as repaired by 5d39dcb: it works on a copy
    of the predicted set): an unavailable likelihood restores the object to what it was. -/
theorem fault_identity_gpf_inplace_partial (gauss : Script → β → β → R β) (sample : β → β)
    (lik : Script → R (Option γ)) (hl : LikSpec lik) (weigh : β → β → γ → β) (s : Script) (b : β)
    (h : anyFailed (lik (gauss s b b).script).log = true) :
    (gpfCorrectInPlace gauss sample lik weigh s b).val = b :=
  fault_identity_gpf_partial gauss sample lik hl weigh s b b h

/-- What the guard repairs: without the copy, an in-place call with an unavailable likelihood
    returned the object with the wrapped correction's Gaussians and redrawn positions (witness:
    every call valid except the noise covariance at the likelihood's fetch). -/
theorem gpf_inplace_unguarded_not_restored :
    let s : Script := { noise := [true, false] }
    anyFailed (gaussLik () (kfCorrect Sym.full s Sym.pred Sym.pred).script).log = true ∧
    (gpfCorrectInPlaceUnguarded (kfCorrect Sym.full) Sym.sampled (gaussLik ()) (fun p c _ => Sym.weighed p c) s Sym.pred).val
      = Sym.sampled (Sym.full Sym.pred Sym.pred) ∧
    (gpfCorrectInPlace (kfCorrect Sym.full) Sym.sampled (gaussLik ()) (fun p c _ => Sym.weighed p c) s Sym.pred).val
      = Sym.pred := by
  decide

/-! ### Public entry points; the Gaussian particle correction characterised exactly -/

/-- The contract every correction step is proved to satisfy: a consulted call reporting
    "unavailable" ⇒ the output is the predicted belief. -/
def FaultContract (f : Script → β → β → R β) : Prop :=
  ∀ s p c, anyFailed (f s p c).log = true → (f s p c).val = p

/-- `GaussianCorrection::correct` / `PFCorrection::correct` add nothing to and take nothing from
    the step: not skipped, the result *is* the step's (in particular nothing is done to the
    output after an early return); skipped, the predicted belief is returned and the model is
    not consulted at all.  Either way the contract carries over to the public entry point. -/
theorem fault_identity_entry (skip : Bool) (f : Script → β → β → R β) (s : Script) (pred cin : β) :
    (skip = false → correctEntry skip f s pred cin = f s pred cin) ∧
    (skip = true → (correctEntry skip f s pred cin).val = pred ∧ (correctEntry skip f s pred cin).log = [] ∧
        (correctEntry skip f s pred cin).script = s) ∧
    (FaultContract f → FaultContract (correctEntry skip f)) := by
  refine ⟨fun h => by simp [correctEntry, h], fun h => by simp [correctEntry, h], fun hf s p c h => ?_⟩
  cases skip
  · simp only [correctEntry] at h ⊢; exact hf s p c h
  · simp [correctEntry]

/-- The three Gaussian steps satisfy the contract (restating `fault_identity_kf/ukf/sukf`). -/
theorem fault_contract_gauss (num : β → β → β) :
    FaultContract (kfCorrect num) ∧ (∀ v, FaultContract (ukfCorrect v num)) ∧
    (∀ ok k, FaultContract (sukfCorrect ok k num)) :=
  ⟨fun s p c h => ((fault_identity_kf num s p c).1 h).1,
   fun v s p c h => ((fault_identity_ukf v num s p c).1 h).1,
   fun ok k s p c h => ((fault_identity_sukf ok k num s p c).1 (Or.inl h)).1⟩

/-- **The known finding, stated exactly** (strengthens `fault_identity_gpf_partial`).  For every
    wrapped correction satisfying the contract and every well-behaved likelihood:
    * likelihood phase failed ⇒ the predicted set, whatever the wrapped correction did;
    * wrapped correction failed, likelihood available ⇒ the output is *exactly* what a Gaussian
      particle correction whose wrapped correction is switched off produces from the same
      remaining answers — positions redrawn around, and weights updated against, the uncorrected
      Gaussians (the harness's `partial` twin) — for every choice of the numeric parts. -/
theorem gpf_wrapped_failure_is_partial_update (gauss : Script → β → β → R β) (hg : FaultContract gauss)
    (sample : β → β) (lik : Script → R (Option γ)) (hl : LikSpec lik) (weigh : β → β → γ → β)
    (s : Script) (pred cin : β) (hw : anyFailed (gauss s pred cin).log = true) :
    (anyFailed (lik (gauss s pred cin).script).log = true →
        (gpfCorrectW false gauss sample lik weigh s pred cin).val = pred) ∧
    (anyFailed (lik (gauss s pred cin).script).log = false →
        ∃ v, (lik (gauss s pred cin).script).val = some v ∧
          (gpfCorrectW false gauss sample lik weigh s pred cin).val = weigh pred (sample pred) v ∧
          (gpfCorrectW true gauss sample lik weigh (gauss s pred cin).script pred cin).val = weigh pred (sample pred) v) := by
  have hv := hg s pred cin hw
  have hspec := hl (gauss s pred cin).script
  constructor
  · intro h
    have hn := hspec.2 h
    simp [gpfCorrectW, gpfCorrect, correctEntry, hn]
  · intro h
    cases hval : (lik (gauss s pred cin).script).val with
    | none => rw [hspec.1 hval] at h; cases h
    | some v =>
      refine ⟨v, rfl, ?_, ?_⟩
      · simp [gpfCorrectW, gpfCorrect, correctEntry, hval, hv]
      · simp [gpfCorrectW, gpfCorrect, correctEntry, hval]

/-- In the free (symbolic) instance the partial theorem is tight: the Gaussian particle
    correction returns the predicted set **iff** the likelihood phase failed — for every wrapped
    correction (skipped or not), every well-behaved likelihood, every script, every output
    container.  No failure inside the wrapped correction alone is ever enough. -/
theorem fault_identity_gpf_exact (wskip : Bool) (gauss : Script → Sym → Sym → R Sym)
    (lik : Script → R (Option γ)) (hl : LikSpec lik) (s : Script) (cin : Sym) :
    (gpfCorrectW wskip gauss Sym.sampled lik (fun p c _ => Sym.weighed p c) s Sym.pred cin).val = Sym.pred ↔
      anyFailed (lik (correctEntry wskip gauss s Sym.pred cin).script).log = true := by
  have hspec := hl (correctEntry wskip gauss s Sym.pred cin).script
  constructor
  · intro h
    cases hval : (lik (correctEntry wskip gauss s Sym.pred cin).script).val with
    | none => exact hspec.1 hval
    | some v => simp [gpfCorrectW, gpfCorrect, hval] at h
  · intro h
    have hn := hspec.2 h
    simp [gpfCorrectW, gpfCorrect, hn]

/-- **Counterexample family**: the finding is not peculiar to `measure()` and the Kalman
    correction.  For each wrapped class and each call it consults, the model that reports
    "unavailable" at that call only (everything available afterwards) makes the Gaussian
    particle correction log a failed consulted call and return
    `weigh pred (sample pred) value` — for all numeric parts. -/
theorem fault_identity_gpf_counterexample_family (num : β → β → β) (sample : β → β) (weigh : β → β → γ → β)
    (value : γ) (pred cin : β) :
    (∀ s ∈ ([{ measure := [false] }, { predicted := [false] }, { innovation := [false] }, { noise := [false] }] : List Script),
        anyFailed (gpfCorrectW false (kfCorrect num) sample (gaussLik value) weigh s pred cin).log = true ∧
        (gpfCorrectW false (kfCorrect num) sample (gaussLik value) weigh s pred cin).val = weigh pred (sample pred) value) ∧
    (∀ v, ∀ s ∈ ([{ measure := [false] }, { predicted := [false] }, { innovation := [false] }] : List Script),
        anyFailed (gpfCorrectW false (ukfCorrect v num) sample (gaussLik value) weigh s pred cin).log = true ∧
        (gpfCorrectW false (ukfCorrect v num) sample (gaussLik value) weigh s pred cin).val = weigh pred (sample pred) value) ∧
    (∀ k, ∀ s ∈ ([{ measure := [false] }, { predicted := [false] }, { innovation := [false] }] : List Script),
        anyFailed (gpfCorrectW false (sukfCorrect true k num) sample (gaussLik value) weigh s pred cin).log = true ∧
        (gpfCorrectW false (sukfCorrect true k num) sample (gaussLik value) weigh s pred cin).val = weigh pred (sample pred) value) ∧
    (∀ (k : Nat) (s : Script), anyFailed (gpfCorrectW false (sukfCorrect false k num) sample (scriptedLik value .gpf) weigh { s with lik := [] } pred cin).log
              = !(pop s.measure).1 ∧
        (gpfCorrectW false (sukfCorrect false k num) sample (scriptedLik value .gpf) weigh { s with lik := [] } pred cin).val
          = weigh pred (sample pred) value) := by
  refine ⟨?_, ?_, ?_, ?_⟩
  · intro s hs
    simp only [List.mem_cons, List.not_mem_nil, or_false] at hs
    rcases hs with rfl | rfl | rfl | rfl <;>
      simp [gpfCorrectW, gpfCorrect, correctEntry, kfCorrect, gaussLik, call, pop, anyFailed, Entry.failed]
  · intro v s hs
    simp only [List.mem_cons, List.not_mem_nil, or_false] at hs
    rcases hs with rfl | rfl | rfl <;> cases v <;>
      simp [gpfCorrectW, gpfCorrect, correctEntry, ukfCorrect, utMeasurement, utAdditiveMeasurement, utFunction,
        gaussLik, call, pop, anyFailed, Entry.failed]
  · intro k s hs
    simp only [List.mem_cons, List.not_mem_nil, or_false] at hs
    rcases hs with rfl | rfl | rfl <;>
      simp [gpfCorrectW, gpfCorrect, correctEntry, sukfCorrect, gaussLik, call, pop, anyFailed, Entry.failed]
  · intro k s
    obtain ⟨fz, me, pr, inn, no, li⟩ := s
    rcases me with _ | ⟨_ | _, me⟩ <;>
      simp [gpfCorrectW, gpfCorrect, correctEntry, sukfCorrect, scriptedLik, call, pop, anyFailed, Entry.failed]

/-! ### Histories, decorators, hand-over -/

/-- **History lift**: if a correction leaves the belief untouched whenever one of its consulted
    calls fails, then in every sequence of calls on one object — whatever happened in the earlier
    calls, whatever they consumed of the script — each call with a failing consulted call returns
    that call's predicted belief. -/
theorem fault_identity_history (f : Script → β → β → R β)
    (hf : ∀ s p c, anyFailed (f s p c).log = true → (f s p c).val = p) :
    ∀ (calls : List (β × β)) (s : Script), ∀ x ∈ runCalls f s calls,
      anyFailed x.2.log = true → x.2.val = x.1 := by
  intro calls
  induction calls with
  | nil => intro s x hx; simp [runCalls] at hx
  | cons c rest ih =>
    intro s x hx
    obtain ⟨p, cin⟩ := c
    simp only [runCalls, List.mem_cons] at hx
    rcases hx with rfl | hx
    · exact hf s p cin
    · exact ih _ x hx

/-- The lift applies to the Kalman, unscented (all three variants) and serial unscented
    corrections. -/
theorem fault_identity_history_gauss (num : β → β → β) (calls : List (β × β)) (s : Script) :
    (∀ x ∈ runCalls (kfCorrect num) s calls, anyFailed x.2.log = true → x.2.val = x.1) ∧
    (∀ v, ∀ x ∈ runCalls (ukfCorrect v num) s calls, anyFailed x.2.log = true → x.2.val = x.1) ∧
    (∀ k, ∀ x ∈ runCalls (sukfCorrect true k num) s calls, anyFailed x.2.log = true → x.2.val = x.1) :=
  ⟨fault_identity_history _ (fun s p c h => ((fault_identity_kf num s p c).1 h).1) calls s,
   fun v => fault_identity_history _ (fun s p c h => ((fault_identity_ukf v num s p c).1 h).1) calls s,
   fun k => fault_identity_history _ (fun s p c h => ((fault_identity_sukf true k num s p c).1 (Or.inl h)).1) calls s⟩

/-- `update_weights_online` makes no difference to validity propagation: the two generic
    variants of the unscented correction are the same function of the script. -/
theorem ukf_online_same_as_generic (num : β → β → β) (s : Script) (pred cin : β) :
    ukfCorrect .genericOnline num s pred cin = ukfCorrect .generic num s pred cin := rfl

/-- A forwarding decorator is transparent: the decorated model answers every call exactly as
    the wrapped one, so every correction — a function of those answers — is unchanged. -/
theorem decorate_transparent {σ : Type} (m : MModel σ) : decorate m = m := by
  cases m with
  | mk a =>
    simp only [decorate, MModel.mk.injEq]
    funext s meth
    cases meth <;> rfl

/-- The hypothesis `LikSpec` of `fault_identity_bootstrap` is necessary: a user likelihood that
    consults a failing call but still reports a value makes the bootstrap correction update. -/
theorem fault_identity_bootstrap_needs_likspec :
    let bad : Script → R (Option Unit) := fun s => ⟨some (), s, [⟨.boot, .likelihood, false, true⟩]⟩
    ¬ LikSpec bad ∧
    anyFailed (bootCorrect bad (fun p _ => Sym.updated p) {} Sym.pred).log = true ∧
    (bootCorrect bad (fun p _ => Sym.updated p) {} Sym.pred).val ≠ Sym.pred := by
  refine ⟨fun h => ?_, by decide, by decide⟩
  have := (h {}).2 (by decide)
  simp at this

/-- **Hand-over** (code as repaired by 186c63d / 2d4bf06): a move-assigned or move-constructed
    bootstrap / Gaussian particle correction *is* the configured original — it asks the source's
    models in the source's state and carries its skip flag — so it corrects exactly as the
    original would have, for every script and belief. -/
theorem handover_transparent (target source : PFCorrObj β γ) :
    PFCorrObj.moveAssign target source = source ∧ PFCorrObj.moveConstruct source = source ∧
    (∀ upd pred, (PFCorrObj.moveAssign target source).bootCorrect upd pred = source.bootCorrect upd pred) ∧
    (∀ sample weigh pred cin,
      (PFCorrObj.moveAssign target source).gpfCorrect sample weigh pred cin = source.gpfCorrect sample weigh pred cin) := by
  cases source
  exact ⟨rfl, rfl, fun _ _ => rfl, fun _ _ _ _ => rfl⟩

/-- Hence fault identity survives the hand-over (bootstrap; likelihood satisfying `LikSpec`). -/
theorem fault_identity_bootstrap_handover (target source : PFCorrObj β γ) (hl : LikSpec source.lik)
    (hs : source.skip = false) (upd : β → γ → β) (pred : β)
    (h : anyFailed ((PFCorrObj.moveAssign target source).bootCorrect upd pred).log = true) :
    ((PFCorrObj.moveAssign target source).bootCorrect upd pred).val = pred := by
  rw [(handover_transparent target source).2.2.1] at h ⊢
  simp only [PFCorrObj.bootCorrect, hs] at h ⊢
  exact (fault_identity_bootstrap source.lik hl upd source.models pred).1 h

/-! ### SIS: measurement acquisition fails ⇒ the correction is not attempted -/

theorem sis_freeze_failure_no_correct (correct : Script → β → β → R β) (normalise : β → β)
    (s : Script) (pred cin : β) (h : s.freeze.head? = some false) :
    (sisCorrectPhase correct normalise s pred cin).val = pred ∧
    (sisCorrectPhase correct normalise s pred cin).log = [⟨.sis, .freeze, false, true⟩] ∧
    (sisCorrectPhase correct normalise s pred cin).script = { s with freeze := s.freeze.tail } := by
  obtain ⟨fz, me, pr, inn, no, li⟩ := s
  rcases fz with _ | ⟨_ | _, fz⟩ <;> simp_all [sisCorrectPhase, call, pop]

theorem sis_freeze_success_corrects (correct : Script → β → β → R β) (normalise : β → β)
    (s : Script) (pred cin : β) (h : s.freeze.head? ≠ some false) :
    (sisCorrectPhase correct normalise s pred cin).val =
      normalise (correct { s with freeze := s.freeze.tail } pred cin).val := by
  obtain ⟨fz, me, pr, inn, no, li⟩ := s
  rcases fz with _ | ⟨_ | _, fz⟩ <;> simp_all [sisCorrectPhase, call, pop]

/-! ### The SIS loop over any number of steps -/

/-- **SIS, history level.**  In a run of any number of filtering steps on one filter — whatever
    prediction, correction, normalisation and resampling compute, whatever earlier steps consumed
    of the scripts — every step whose measurement acquisition failed hands the predicted set of
    *that* step to the logger and to resampling, made no call other than `freeze`, and left the
    remaining answers of every other method untouched (the correction was not attempted); every
    other step ran the correction on its predicted set and normalised.  The run has one record
    per step. -/
theorem sis_history (predict : β → β) (correct : Script → β → β → R β) (normalise resample : β → β) :
    ∀ (n : Nat) (first : Bool) (s : Script) (cor : β),
      (sisRun predict correct normalise resample n first s cor).length = n ∧
      ∀ st ∈ sisRun predict correct normalise resample n first s cor,
        (st.script.freeze.head? = some false →
            st.res.val = st.pred ∧ st.res.log = [⟨.sis, .freeze, false, true⟩] ∧
            st.res.script = { st.script with freeze := st.script.freeze.tail }) ∧
        (st.script.freeze.head? ≠ some false →
            st.res.val = normalise (correct { st.script with freeze := st.script.freeze.tail } st.pred st.cin).val) := by
  intro n
  induction n with
  | zero => intro first s cor; exact ⟨rfl, fun st hst => by simp [sisRun] at hst⟩
  | succ n ih =>
    intro first s cor
    refine ⟨by simp [sisRun, (ih _ _ _).1], fun st hst => ?_⟩
    simp only [sisRun, List.mem_cons] at hst
    rcases hst with rfl | hst
    · exact ⟨fun h => sis_freeze_failure_no_correct correct normalise s _ _ h,
             fun h => sis_freeze_success_corrects correct normalise s _ _ h⟩
    · exact (ih _ _ _).2 st hst

/-- Steps are chained as in `SIS::filtering_step`: step 0 uses the initialised set without a
    prediction; each later step predicts from the previous step's resampled result and starts
    from the answers the previous step left. -/
theorem sis_history_chain (predict : β → β) (correct : Script → β → β → R β) (normalise resample : β → β)
    (n : Nat) (s : Script) (cor : β) :
    sisRun predict correct normalise resample (n + 2) true s cor =
      ⟨cor, cor, s, sisCorrectPhase correct normalise s cor cor⟩ ::
      sisRun predict correct normalise resample (n + 1) false
        (sisCorrectPhase correct normalise s cor cor).script
        (resample (sisCorrectPhase correct normalise s cor cor).val) ∧
    ∀ (s' : Script) (c' : β),
      (sisRun predict correct normalise resample (n + 1) false s' c').head?.map (·.pred) = some (predict c') := by
  exact ⟨rfl, fun s' c' => rfl⟩

/-! ### Non-vacuity -/

/-- scripts with several simultaneous failures, and a model that answers differently at
    different call sites, satisfy the hypotheses -/
example : anyFailed (kfCorrect Sym.full { measure := [true], predicted := [false], noise := [false] } Sym.pred Sym.poison).log = true := by
  decide

example : (kfCorrect Sym.full { measure := [true, false] } Sym.pred Sym.poison).val = Sym.full Sym.pred Sym.poison := by
  decide

/-- the partial Gaussian-particle statement is not vacuous: likelihood fails at its second call -/
example : anyFailed (gaussLik () (kfCorrect Sym.full { predicted := [true, false] } Sym.pred Sym.poison).script).log = true := by
  decide

/-- an ignored answer really is ignored: noise covariance reported invalid, correction goes on -/
example : (ukfCorrect .additive Sym.full { noise := [false] } Sym.pred Sym.poison).val = Sym.full Sym.pred Sym.poison := by
  decide

end BFL
