import BFL.Driver.Proto
import BFL.Model.Fault
/-
Driver entries for C12 (beliefs instantiated symbolically: `Sym`).

  fault <class> <seed> <n> <m> <k> <sub> fz=<bits> me=<bits> pr=<bits> in=<bits> no=<bits> li=<bits>
     class: kf | ukfa | ukfg | sukf | glik | bootg | boots | gpf-<kf|ukfa|ukfg|sukf>-<g|s>
     -> out=<pred|full|partial|none|some> log=<me1,pr0,…|->
  fault sis-<bootg|boots> <seed> <n> <m> <k> <steps> fz=… …
     -> s0:<pred|corrected|normpred>:<calls> s1:…
-/
namespace BFL.DriverFault
open BFL BFL.Proto BFL.Fault

abbrev P := BFL.Proto.R
abbrev FR := BFL.Fault.R

def parseBits (pre : String) (t : String) : Option (List Bool) :=
  if t.startsWith (pre ++ "=") then
    let b := (t.drop (pre.length + 1)).toString
    if b == "-" then some []
    else if b.toList.all (fun c => c == '0' || c == '1') then some (b.toList.map (· == '1'))
    else none
  else none

def readScript : P Script := do
  let rd (pre : String) : P (List Bool) := do
    let t ← tok
    match parseBits pre t with
    | some l => pure l
    | none => failure
  let fz ← rd "fz"; let me ← rd "me"; let pr ← rd "pr"; let inn ← rd "in"; let no ← rd "no"; let li ← rd "li"
  pure { freeze := fz, measure := me, predicted := pr, innovation := inn, noise := no, lik := li }

def methodStr : Method → String
  | .freeze => "fz" | .measure => "me" | .predictedMeasure => "pr"
  | .innovation => "in" | .noiseCov => "no" | .likelihood => "li"

def logStr (l : List Entry) : String :=
  if l.isEmpty then "-" else ",".intercalate (l.map fun e => methodStr e.method ++ (if e.valid then "1" else "0"))

def symLabel : Sym → String
  | .pred => "pred"
  | .full .pred .poison => "full"
  | .updated .pred => "full"
  | .weighed .pred (.sampled (.full .pred .poison)) => "full"
  | .weighed .pred (.sampled .pred) => "partial"
  | .normalised (.updated .pred) => "corrected"
  | .normalised .pred => "normpred"
  | _ => "other"

/-- the wrapped / stand-alone Gaussian corrections; `noiseCount` = k · (m / sub) for the serial one -/
def gaussOf (cls : String) (m k sub : Nat) : Option (Script → Sym → Sym → FR Sym) :=
  match cls with
  | "kf" => some (kfCorrect Sym.full)
  | "ukfa" => some (ukfCorrect .additive Sym.full)
  | "ukfg" => some (ukfCorrect .generic Sym.full)
  | "sukf" => some (sukfCorrect (m % sub == 0) (k * (m / sub)) Sym.full)
  | _ => none

def likOf (c : String) (site : Site) : Option (Script → FR (Option Unit)) :=
  match c with
  | "g" => some (gaussLik ())
  | "s" => some (scriptedLik () site)
  | _ => none

def sisSteps (lik : Script → FR (Option Unit)) : Nat → Nat → Script → List String
  | 0, _, _ => []
  | fuel + 1, i, s =>
    let r := sisCorrectPhase (fun s p _ => bootCorrect lik (fun p _ => Sym.updated p) s p) Sym.normalised s Sym.pred Sym.poison
    ("s" ++ toString i ++ ":" ++ symLabel r.val ++ ":" ++ logStr r.log) :: sisSteps lik fuel (i + 1) r.script

def faultLine : P String := do
  let cls ← tok
  let _ ← nat; let _ ← nat; let m ← nat; let k ← nat; let sub ← nat
  let s ← readScript
  done
  if sub == 0 then failure
  let fin (r : FR Sym) : String := "out=" ++ symLabel r.val ++ " log=" ++ logStr r.log
  match cls.splitOn "-" with
  | ["glik"] =>
    let r := gaussLik () s
    pure ("out=" ++ (if r.val.isSome then "some" else "none") ++ " log=" ++ logStr r.log)
  | ["bootg"] => pure (fin (bootCorrect (gaussLik ()) (fun p _ => Sym.updated p) s Sym.pred))
  | ["boots"] => pure (fin (bootCorrect (scriptedLik () .boot) (fun p _ => Sym.updated p) s Sym.pred))
  | ["gpf", w, l] =>
    match gaussOf w m k sub, likOf l .gpf with
    | some g, some lk => pure (fin (gpfCorrect g Sym.sampled lk (fun p c _ => Sym.weighed p c) s Sym.pred Sym.poison))
    | _, _ => failure
  | ["sis", b] =>
    match (if b == "bootg" then likOf "g" .boot else if b == "boots" then likOf "s" .boot else none) with
    | some lk => pure (join (sisSteps lk sub 0 s))
    | none => failure
  | [c] =>
    match gaussOf c m k sub with
    | some g => pure (fin (g s Sym.pred Sym.poison))
    | none => failure
  | _ => failure

def handle (op : String) (args : List String) : Option String :=
  match op with
  | "fault" => some ((BFL.Proto.run faultLine args).getD "bad-args")
  | _ => none

end BFL.DriverFault
