"""C14 — no operation reads or writes outside its matrices or mixes incompatible sizes.

Proof stage : theorems of lean/BFL/Props/C14.lean (`Valid cfg -> every side condition of the transcribed
              matrix operations holds`, plus `..._counterexample` witnesses for the known findings).
Tie stage   : two-way.  For every configuration of the enumerated spaces the real function runs in the
              dbg build (ASan + UBSan + Eigen assertions: a violated side condition aborts the case) and
              the Lean driver evaluates the same transcription the theorems are about: it must predict
              which configurations run clean (and the shapes / return values they produce) and which abort.
Oracle      : a configuration that satisfies the documented precondition (`V1`, the hypothesis of the
              theorems) and aborts — or does not report exhaustion through its return value — violates C14;
              the replay is the configuration line.
Outside the property (recorded as notes, never an alarm): disagreements on configurations that do NOT
satisfy the precondition (extra defensive checks, conditions Eigen does not assert).
Also aggregates the `sanitizer_crashes` counters of the other properties' evidence files (supporting
evidence: every harness runs on the dbg build).
"""
import itertools
import json
import re
import threading

import vlib

H = "h_bounds"
LEAN_MODULES = ["BFL.Model.Bounds.Algebra", "BFL.Model.Bounds.Models", "BFL.Model.Bounds.Sigma", "BFL.Model.Bounds.Particles", "BFL.Model.Bounds.Cases", "BFL.Model.Bounds.Filters", "BFL.Model.Bounds.Handover",
                "BFL.Proofs.Bounds", "BFL.Proofs.BoundsSigma", "BFL.Proofs.BoundsCorr", "BFL.Proofs.BoundsPart", "BFL.Proofs.BoundsFilt", "BFL.Proofs.BoundsHand", "BFL.Props.C14"]

LAYOUTS_SMALL = [(dl, dc, q) for dl in range(0, 4) for dc in range(0, 3) for q in (0, 1) if not (q == 1 and dc == 0)]


def lay(dl, dc, q):
    return "%d %d %d" % (dl, dc, q)


def dim_of(dl, dc, q, dn=0):
    return dl + dc * (4 if q else 1) + dn


def dcov_of(dl, dc, q, dn=0):
    return dl + dc * (3 if q else 1) + dn


# --------------------------------------------------------------------------- enumerated spaces

def gen_wna(ctx):
    out = []
    for d in (1, 2, 3):
        for num in range(0, 4):
            out.append(("b_wna_noise %d %d" % (d, num), "wna_noise"))
            out.append(("b_wna_move %d %d" % (d, num), "wna_move"))
            for sr in range(0, 8):
                if sr == 2 * d or ctx.tier == "thorough" or (sr + num + d) % 3 == 0:
                    out.append(("b_wna_motion %d %d %d" % (d, num, sr), "wna_motion"))
                    out.append(("b_wna_tp %d %d %d" % (d, num, sr), "wna_tp"))
    return out


def subsets(n):
    for k in range(0, n + 1):
        for c in itertools.combinations(range(n), k):
            yield list(c)


def gen_lm(ctx):
    """all measured-component subsets of states of size <= 5 x noise sizes (+ out-of-range / repeated components)"""
    out = []
    nmax = 5
    for n in range(0, nmax + 1):
        for comps in subsets(n):
            k = len(comps)
            rrs = range(0, n + 2) if ctx.tier == "thorough" else sorted(set([max(k - 1, 0), k, k + 1]))
            for rr in rrs:
                for rc in ((rr, rr + 1) if (ctx.tier == "thorough" or rr == k) else (rr,)):
                    for num in ((0, 1, 3) if ctx.tier == "thorough" else ((n + k) % 4,)):
                        out.append(("b_lm %d %d %d %d %d %s" % (n, rr, rc, num, k, " ".join(map(str, comps))), "lm"))
        # out-of-range and repeated components
        out.append(("b_lm %d 1 1 2 1 %d" % (n, n), "lm"))
        out.append(("b_lm %d 2 2 2 2 0 0" % n, "lm"))
        out.append(("b_lm %d 2 2 1 2 %d 0" % (n, max(n - 1, 0)), "lm"))
    return out


def gen_ssm(ctx):
    """trajectory lengths 0..4 x number of bufferData calls beyond the end x state sizes"""
    out = []
    for d in (1, 2, 3):
        for T in range(0, 5):
            for calls in sorted(set([0, T, T + 1, T + 3])):
                out.append(("b_ssm %d %d %d %d" % (d, T, 2 * d, calls), "ssm"))
            for sr in (2 * d - 1, 2 * d + 1, 0):
                out.append(("b_ssm %d %d %d %d" % (d, T, sr, T + 1), "ssm"))
            for calls in (0, 1, T, T + 2):
                out.append(("b_ssmlog %d %d %d" % (d, T, calls), "ssmlog"))
    return out


def gen_sls(ctx):
    out = []
    for d in (1, 2, 3):
        n = 2 * d
        allsub = list(subsets(n))
        subs = allsub if (ctx.tier == "thorough" or d < 3) else [c for i, c in enumerate(allsub) if i % 4 == ctx.seed % 4 or len(c) in (0, n)]
        for comps in subs:
            k = len(comps)
            for T in ((0, 1, 3) if ctx.tier == "thorough" else ((k + d) % 3,)):
                out.append(("b_sls %d %d %d %d %d %d %s" % (d, T, n, k, T + 2, k, " ".join(map(str, comps))), "sls"))
        for T in (0, 2):
            out.append(("b_sls %d %d %d 1 %d 1 0" % (d, T, n - 1, T + 1), "sls"))       # H over a smaller space than the state
            out.append(("b_sls %d %d %d 1 %d 1 0" % (d, T, n + 1, T + 1), "sls"))
            out.append(("b_sls %d %d %d 2 %d 1 0" % (d, T, n, T + 1), "sls"))           # noise size != measured components
            out.append(("b_sls %d %d %d 1 %d 1 %d" % (d, T, n, T + 1, n), "sls"))       # component out of range
    return out


def gen_hist(ctx):
    """window sizes x fill levels (exhaustive over 0..33 x 0..33 in the thorough tier), shrink / grow / get after each"""
    out = []
    S = 3
    rng = range(0, 34)
    for w in rng:
        for f in rng:
            if ctx.tier != "thorough" and not (f in (0, 1, 2, 4, 5, 6, 29, 30, 31, 33) or w in (0, 1, 2, 3, 29, 30, 31) or (w + f) % 7 == ctx.seed % 7):
                continue
            ops = ["s%d" % ((w + 11) % 34)] + ["a%d" % S] * f + ["g", "s%d" % w, "g", "a%d" % S, "g", "d", "g", "i", "i", "g"]
            out.append(("b_hist %d %s" % (S, " ".join(ops)), "hist"))
    g = ctx.gen("hist")
    for _ in range(ctx.n(150, 1500)):
        S = g.r.choice([0, 1, 2, 5])
        n = g.r.randint(1, 60)
        ops = []
        S0 = S
        for _ in range(n):
            x = g.r.random()
            if x < 0.5:
                ops.append("a%d" % S)
            elif x < 0.7:
                ops.append("s%d" % g.r.choice([0, 1, 2, 3, 4, 5, 7, 29, 30, 31, 40, g.r.randint(0, 35)]))
            elif x < 0.8:
                ops.append("g")
            elif x < 0.85:
                ops.append("d")
            elif x < 0.90:
                ops.append("i")
            elif x < 0.93:
                ops.append("c")
            elif x < 0.95:
                ops.append("m0")
            else:
                # move ASSIGNMENT from / into a buffer of another state size, content and window; the buffer in use afterwards
                # has the SOURCE's state size
                S2 = g.r.choice([s2 for s2 in (0, 1, 2, 3, 4, 5, 7) if s2 != S])
                cnt, w = g.r.choice([0, 1, 3, 6, 31]), g.r.choice([0, 0, 2, 3, 30])
                if g.r.random() < 0.6:
                    ops.append("M%d_%d_%d" % (S2, cnt, w))
                    S = S2
                    ops.append("g")
                else:
                    ops.append("T%d_%d_%d" % (S2, cnt, w))
        ops.append("g")
        out.append(("b_hist %d %s" % (S0, " ".join(ops)), "hist"))
    # hand-over between buffers differing in state size (smaller / larger), content (empty / shorter / longer than the window) and window
    for S in (2, 4):
        for S2 in (1, 2, 3, 4, 6):
            if S2 == S:
                continue
            for fill in (0, 2, 6):
                for cnt in (0, 3, 7):
                    for w in (0, 2):
                        pre = ["a%d" % S] * fill
                        out.append(("b_hist %d %s M%d_%d_%d g a%d g a%d a%d a%d a%d a%d g" % (S, " ".join(pre), S2, cnt, w, S2, S2, S2, S2, S2, S2), "hist"))
                        out.append(("b_hist %d %s T%d_%d_%d g a%d g a%d a%d a%d a%d a%d g" % (S, " ".join(pre), S2, cnt, w, S, S, S, S, S, S), "hist"))
            out.append(("b_hist %d a%d M%d_3_0 a%d g" % (S, S, S2, S), "hist"))       # used with the OLD size after the hand-over: outside the precondition
    # invalid side: wrong element size, use of a moved-from buffer
    for bad in (["a2", "g"], ["a3", "a4", "g"], ["a3", "m1", "s5", "a3", "g"], ["a3", "m1", "a3", "g"], ["a0", "g"], ["a4", "a3", "a3", "a3", "a3", "a3", "g"]):
        out.append(("b_hist 3 %s" % " ".join(bad), "hist"))
    return out


def gen_grid(ctx):
    """grid sizes x particle counts x state layouts"""
    out = []
    lays = [(r, 0, 0) for r in range(0, 8)] + [(3, 1, 0), (2, 2, 0), (0, 1, 1), (1, 1, 1), (0, 4, 0)]
    for nx in range(0, 4):
        for ny in range(0, 4):
            for N in sorted(set([nx * ny, nx * ny + 1, 0, 1])):
                for (dl, dc, q) in lays:
                    if ctx.tier != "thorough" and N != nx * ny and (dl + nx + ny) % 3:
                        continue
                    out.append(("b_grid %d %d %d %s" % (nx, ny, N, lay(dl, dc, q)), "grid"))
    return out


def all_layouts(noise=(0, 1, 2, 3)):
    """linear 0..4 x circular 0..2 x Euler/quaternion x noise"""
    for dl in range(0, 5):
        for dc in range(0, 3):
            for q in (0, 1):
                if q == 1 and dc == 0:
                    continue
                for dn in noise:
                    yield (dl, dc, q, dn)


OUT_LAYOUTS = [(ol, oc, oq) for ol in range(0, 3) for oc in range(0, 3) for oq in (0, 1) if not (oq == 1 and oc == 0)]


def gen_sigma(ctx):
    out = []
    g = ctx.gen("sigma")
    for (dl, dc, q, dn) in all_layouts():
        for K in ((0, 1, 2, 4) if ctx.tier == "thorough" else (1, 1 + (dl + dc + dn) % 3)):
            out.append(("b_sp %d %d %d %d %d" % (K, dl, dc, q, dn), "sp"))
        out.append(("b_sp 0 %d %d %d %d" % (dl, dc, q, dn), "sp"))
        # augmentWithNoise (once / twice / non-square / zero components)
        for K in ((0, 1, 2, 3, 4) if ctx.tier == "thorough" else (1, 3)):
            if K == 0 and dl + dc + dn == 0:
                continue
            out.append(("b_gmaug %d %s %d %d 0 0" % (K, lay(dl, dc, q), dn, dn), "gmaug"))
            out.append(("b_gmaug %d %s %d %d %d %d" % (K, lay(dl, dc, q), dn, dn, (dn + 1) % 3, (dn + 1) % 3), "gmaug"))
        out.append(("b_gmaug 2 %s %d %d 0 0" % (lay(dl, dc, q), dn, dn + 1), "gmaug"))
        if dl + dc + dn > 0:     # (0 components, 0 dimensions) loops 2^64 times over empty blocks: not a configuration worth a 2^64-iteration run
            out.append(("b_gmaug 0 %s %d %d 0 0" % (lay(dl, dc, q), dn, dn), "gmaug"))
    for dof in range(0, 6):
        out.append(("b_utw %d" % dof, "utw"))
    # generic unscented transform: valid configurations for every input layout, a sample of output descriptions
    for (dl, dc, q, dn) in all_layouts():
        dcv = dcov_of(dl, dc, q, dn)
        outs = OUT_LAYOUTS if ctx.tier == "thorough" else g.r.sample(OUT_LAYOUTS, 3)
        for (ol, oc, oq) in outs:
            K = 1 + (dl + dc + dn + ol) % 3
            prows = dim_of(ol, oc, oq)
            out.append(("b_ut %d %d %d %d %d %d %d %d %d %d 0 1" % (K, dl, dc, q, dn, dcv, ol, oc, oq, prows), "ut"))
        (ol, oc, oq) = g.r.choice(OUT_LAYOUTS)
        prows = dim_of(ol, oc, oq)
        base = "b_ut 2 %d %d %d %d" % (dl, dc, q, dn)
        out.append(("%s %d %d %d %d %d 0 0" % (base, dcv, ol, oc, oq, prows), "ut"))              # failed evaluation
        if ctx.tier == "thorough" or (dl + 2 * dc + dn) % 4 == ctx.seed % 4:
            out.append(("%s %d %d %d %d %d 0 1" % (base, dcv + 1, ol, oc, oq, prows), "ut"))      # weights for another dof
            out.append(("%s %d %d %d %d %d 0 1" % (base, max(dcv - 1, 0), ol, oc, oq, prows), "ut"))
            out.append(("%s %d %d %d %d %d 0 1" % (base, dcv, ol, oc, oq, prows + 1), "ut"))      # more rows than described
            out.append(("%s %d %d %d %d %d 0 1" % (base, dcv, ol, oc, oq, max(prows - 1, 0)), "ut"))
            out.append(("%s %d %d %d %d %d 1 1" % (base, dcv, ol, oc, oq, prows), "ut"))          # one column too many
    # through state models
    for d in (1, 2, 3):
        for kind in (0, 1):
            for K in (1, 2, 3):
                out.append(("b_utwna %d %d %d %d 0 %d" % (kind, d, K, 2 * d, 2 * d), "utwna"))
            for (dl, dn, w) in ((2 * d - 1, 0, 2 * d - 1), (2 * d + 1, 0, 2 * d + 1), (2 * d, 1, 2 * d + 1), (2 * d, 0, 2 * d + 1), (2 * d, 2 * d, 4 * d)):
                out.append(("b_utwna %d %d 2 %d %d %d" % (kind, d, dl, dn, w), "utwna"))
    for n in range(1, 5):
        for kind in (0, 1):
            for (dl, dc) in ((n, 0), (n - 1, 1)):
                if dl < 0:
                    continue
                out.append(("b_utsm %d 2 %d %d 0 0 %d %d %d %d %d 0" % (kind, dl, dc, n, n, n, dl, dc), "utsm"))
            out.append(("b_utsm %d 2 %d 0 0 0 %d %d %d %d 0 0" % (kind, n, n, n + 1, n, n), "utsm"))     # F of another size
            out.append(("b_utsm %d 2 %d 0 0 0 %d %d %d %d 0 0" % (kind, n, n, n, n + 1, n), "utsm"))     # Q != F: throws
            out.append(("b_utsm %d 2 %d 0 0 0 %d %d %d %d 0 0" % (kind, n, n, n, n, n + 1), "utsm"))     # description of another size
            out.append(("b_utsm %d 2 %d 0 0 1 %d %d %d %d 0 0" % (kind, n, n + 1, n, n, n), "utsm"))     # augmented input
            out.append(("b_utsm %d 2 %d 0 0 0 %d 0 0 %d 0 0" % (kind, n, n, n), "utsm"))                 # empty F: throws
    return out


def meas_tokens(il, ic, iq, inn, ml, mc, mq, prows, dcols, irows, ysize, rr, mv=1, pv=1, iv=1):
    return "%d %d %d %d  %d %d %d  %d %d %d %d %d  %d %d %d" % (il, ic, iq, inn, ml, mc, mq, prows, dcols, irows, ysize, rr, mv, pv, iv)


def gen_corr(ctx):
    """state layouts x measurement layouts x {UKF generic, UKF additive, SUKF(sub, reduced)}, KF; valid + perturbed"""
    out = []
    g = ctx.gen("corr")
    state_lays = [(dl, dc, q) for (dl, dc, q) in LAYOUTS_SMALL if dcov_of(dl, dc, q) >= 1]
    meas_lays = [(ml, mc, mq) for ml in range(0, 4) for mc in range(0, 2) for mq in (0, 1) if not (mq == 1 and mc == 0) and dcov_of(ml, mc, mq) >= 1]
    for (dl, dc, q) in state_lays:
        for (ml, mc, mq) in meas_lays:
            if ctx.tier != "thorough" and (dl + 2 * dc + 3 * q + ml + mc + mq) % 3 != ctx.seed % 3:
                continue
            if ctx.tier != "thorough" and (q or mq) and (dl + ml + dc) % 4 != ctx.seed % 4:
                continue        # quaternion configurations abort (known findings): a sample is enough in the quick tier, each costs a process start
            K = 1 + (dl + ml) % 2
            tot, dof = dim_of(ml, mc, mq), dcov_of(ml, mc, mq)
            st = "%d %s %d %s" % (K, lay(dl, dc, q), K, lay(dl, dc, q))
            # UKF additive / generic, shapes as declared
            out.append(("b_ukfc 1 %s %s" % (st, meas_tokens(dl, dc, q, dof, ml, mc, mq, tot, 0, dof, tot, dof)), "ukf_add"))
            out.append(("b_ukfc 0 %s %s" % (st, meas_tokens(dl, dc, q, dof, ml, mc, mq, tot, 0, dof, tot, dof)), "ukf_gen"))
            # SUKF: every sub size 0 .. M+1 (non-dividing included), reduced and full noise covariance
            M = tot
            for sub in range(0, M + 2):
                if ctx.tier != "thorough" and sub not in (0, 1, M, M + 1) and (sub + dl) % 2:
                    continue
                for red in (0, 1):
                    rr = sub if red else M
                    out.append(("b_ukfc 2 %s %s %d %d" % (st, meas_tokens(dl, dc, q, rr, ml, mc, mq, tot, 0, tot, tot, rr), sub, red), "sukf"))
    # the same corrections through a move-constructed object (checklist g), every 4th configuration
    out += [("b_ukfcmv" + ln[len("b_ukfc"):], grp) for i, (ln, grp) in enumerate(list(out)) if i % 4 == ctx.seed % 4 and ln.startswith("b_ukfc ")]
    # perturbations around one valid Euclidean configuration (invalid side of the tie + early returns)
    base = dict(il=3, ic=0, iq=0, inn=2, ml=2, mc=0, mq=0, prows=2, dcols=0, irows=2, ysize=2, rr=2)
    for kind in (0, 1, 2):
        tail = " 2 1" if kind == 2 else ""
        for fl in ((0, 1, 1), (1, 0, 1), (1, 1, 0)):
            out.append(("b_ukfc %d 2 3 0 0 2 3 0 0 %s%s" % (kind, meas_tokens(mv=fl[0], pv=fl[1], iv=fl[2], **base), tail), "corr_flags"))
            out.append(("b_ukfc %d 2 3 0 0 1 1 0 0 %s%s" % (kind, meas_tokens(mv=fl[0], pv=fl[1], iv=fl[2], **base), tail), "corr_flags"))
        for key, delta in (("prows", 1), ("prows", -1), ("dcols", 1), ("irows", 1), ("irows", -1), ("rr", 1), ("rr", -1), ("il", 1), ("il", -1), ("inn", 1)):
            b = dict(base)
            b[key] = max(b[key] + delta, 0)
            out.append(("b_ukfc %d 2 3 0 0 2 3 0 0 %s%s" % (kind, meas_tokens(**b), tail), "corr_perturbed"))
        for (cK, cl) in ((1, 3), (3, 3), (2, 2), (2, 4)):
            out.append(("b_ukfc %d 2 3 0 0 %d %d 0 0 %s%s" % (kind, cK, cl, meas_tokens(**base), tail), "corr_perturbed"))
    out.append(("b_ukfc 2 2 3 0 0 2 3 0 0 %s 2 0" % meas_tokens(3, 0, 0, 4, 4, 0, 0, 4, 0, 4, 4, 2), "corr_perturbed"))   # full flag, reduced R
    out.append(("b_ukfc 2 2 3 0 0 2 3 0 0 %s 2 1" % meas_tokens(3, 0, 0, 4, 4, 0, 0, 4, 0, 4, 4, 4), "corr_perturbed"))   # reduced flag, full R
    # KF
    for n in range(1, 5):
        for m in range(1, 4):
            for K in (1, 2, 3):
                if ctx.tier != "thorough" and (n + m + K) % 2:
                    continue
                out.append(("b_kfc %d %d 0 0 %d %d 0 0 %d %d %d 1" % (K, n, K, n, m, n, m), "kf"))
                out.append(("b_kfc %d %d 1 0 %d %d 1 0 %d %d %d 1" % (K, n - 1, K, n - 1, m, n, m), "kf"))
        out.append(("b_kfc 2 %d 0 0 2 %d 0 0 2 %d 2 0" % (n, n, n), "kf"))          # no measurement
        out.append(("b_kfc 2 %d 0 0 2 %d 0 0 2 %d 2 1" % (n, n, n + 1), "kf"))      # H with a column too many
        out.append(("b_kfc 2 %d 0 0 2 %d 0 0 2 %d 3 1" % (n, n, n), "kf"))          # measurement of another size
        out.append(("b_kfc 2 %d 0 0 1 %d 0 0 2 %d 2 1" % (n, n, n), "kf"))          # fewer components in corr_state
        out.append(("b_kfc 2 %d 0 0 2 %d 0 0 2 %d 2 1" % (n, n + 1, n), "kf"))      # corr_state of another size
        out.append(("b_kfc 2 %d 0 0 2 %d 0 0 0 %d 0 1" % (n, n, n), "kf"))          # empty H: throws
    out.append(("b_kfc 2 0 1 1 2 0 1 1 2 4 2 1", "kf"))                               # quaternion state, H over total_size
    out.append(("b_kfc 2 0 1 1 2 0 1 1 2 3 2 1", "kf"))                               # quaternion state, H over dof
    return out


def gen_containers(ctx):
    out = []
    lays = [(2, 0, 0, 0), (2, 1, 0, 1), (1, 1, 1, 0), (1, 2, 1, 2), (0, 1, 0, 0), (0, 0, 0, 0)]
    for (dl, dc, q, dn) in lays:
        dim, dcv = dim_of(dl, dc, q, dn), dcov_of(dl, dc, q, dn)
        for K in (1, 2, 3):
            for i in (0, K - 1, K, K + 2):
                pre = "b_gmacc %d %d %d %d %d" % (K, dl, dc, q, dn)
                out.append(("%s mean1 %d 0 0" % (pre, i), "gmacc"))
                out.append(("%s cov1 %d 0 0" % (pre, i), "gmacc"))
                out.append(("%s w1 %d 0 0" % (pre, i), "gmacc"))
                for j in sorted(set([0, max(dim - 1, 0), dim])):
                    out.append(("%s mean2 %d %d 0" % (pre, i, j), "gmacc"))
                for (j, k) in sorted(set([(0, 0), (max(dcv - 1, 0), max(dcv - 1, 0)), (dcv, 0), (0, dcv)])):
                    out.append(("%s cov3 %d %d %d" % (pre, i, j, k), "gmacc"))
                if dn == 0:
                    out.append(("b_psacc %d %s state1 %d 0" % (K, lay(dl, dc, q), i), "psacc"))
                    for j in sorted(set([0, max(dim - 1, 0), dim])):
                        out.append(("b_psacc %d %s state2 %d %d" % (K, lay(dl, dc, q), i, j), "psacc"))
    g = ctx.gen("containers")
    targets = [(K2, dl2, dc2) for K2 in (0, 1, 3) for dl2 in (0, 2, 3, 6) for dc2 in (0, 1, 2)]
    for (dl, dc, q, dn) in all_layouts(noise=(0, 2)):
        if ctx.tier != "thorough" and (dl + dc + dn) % 2:
            continue
        for K in (1, 3):
            for (K2, dl2, dc2) in (targets if ctx.tier == "thorough" else g.r.sample(targets, 5) + [(K, dl, dc), (K + 1, dl, dc)]):
                out.append(("b_gmresize %d %d %d %d %d %d %d %d" % (K, dl, dc, q, dn, K2, dl2, dc2), "gmresize"))
                if dn == 0:
                    out.append(("b_psresize %d %s %d %d %d" % (K, lay(dl, dc, q), K2, dl2, dc2), "psresize"))
    for (dl, dc, q) in LAYOUTS_SMALL:
        for K1 in (0, 1, 2):
            for K2 in (0, 1, 3):
                out.append(("b_psadd %d %s %d %s" % (K1, lay(dl, dc, q), K2, lay(dl, dc, q)), "psadd"))
        out.append(("b_psadd 2 %s 3 %s" % (lay(dl, dc, q), lay(dl + 1, dc, q)), "psadd"))
        out.append(("b_psadd 2 %s 3 %s" % (lay(dl, dc, q), lay(dl, dc + 1, q)), "psadd"))
        if dc > 0:
            out.append(("b_psadd 2 %s 3 %s" % (lay(dl, dc, q), lay(dl, dc, 1 - q)), "psadd"))
            out.append(("b_psadd 2 %s 0 %s" % (lay(dl, dc, q), lay(dl, dc, 1 - q)), "psadd"))
    return out


WEIGHT_PROFILES = {0: "normalised uniform", 1: "normalised skewed", 2: "all -inf", 3: "all underflowing", 4: "exponentials sum to 0.5",
                   5: "exponentials sum to 1e-6*N", 6: "exponentials sum to N > 1", 7: "one finite weight, others -inf", 8: "all NaN"}


def gen_resampling(ctx):
    """N x weight profiles (normalised, un-normalised with sum < 1 / << 1 / > 1, -inf, underflow, NaN) x prior ratios x layouts x
    initialisation grids x parent-vector lengths: the SHAPE of the weight vector is what the precondition fixes, not its values"""
    out = []
    lays = [(4, 0, 0), (2, 0, 0), (3, 1, 0), (6, 0, 0), (0, 1, 1), (1, 1, 1), (2, 2, 0)]
    profs = sorted(WEIGHT_PROFILES)
    for (dl, dc, q) in lays:
        for N in range(0, 8):
            for prof in profs:
                if ctx.tier != "thorough" and (dl, dc, q) not in ((2, 0, 0), (1, 1, 1)) and (N + prof + dl) % 3 != ctx.seed % 3:
                    continue
                out.append(("b_rs %d %s %d %s %d %d" % (N, lay(dl, dc, q), N, lay(dl, dc, q), N, prof), "rs"))
        for (rN, plen) in ((3, 4), (5, 4), (4, 3), (4, 5)):
            for prof in (0, 2, 6):
                out.append(("b_rs 4 %s %d %s %d %d" % (lay(dl, dc, q), rN, lay(dl, dc, q), plen, prof), "rs"))
        out.append(("b_rs 4 %s 4 %s 4 0" % (lay(dl, dc, q), lay(dl + 1, dc, q)), "rs"))
        if dc:
            out.append(("b_rs 4 %s 4 %s 4 4" % (lay(dl, dc, q), lay(dl, dc, 1 - q)), "rs"))
    for N in (10, 17, 33):
        for prof in profs:
            out.append(("b_rs %d 2 0 0 %d 2 0 0 %d %d" % (N, N, N, prof), "rs"))
    ratios = [(0, 1), (1, 10), (1, 3), (1, 2), (2, 3), (9, 10), (1, 1), (3, 2)]
    for (dl, dc, q) in lays:
        for N in range(0, 11):
            for (a, b) in ratios:
                p = N * a // b
                grids = [(2, 2), (0, 0)]
                if p > 0:
                    grids.append((1, p))            # a grid that matches the number of prior particles
                for (nx, ny) in grids:
                    if ctx.tier != "thorough" and (N + a + b + nx + dl) % 3 != ctx.seed % 3 and not (N <= 1 or a >= b):
                        continue
                    prof = (N + a + nx + dl + dc) % len(profs)
                    out.append(("b_rwp %d %d %d %s %d %d %d %d" % (N, a, b, lay(dl, dc, q), nx, ny, N, prof), "rwp"))
        for plen in (7, 9):
            out.append(("b_rwp 8 1 2 %s 2 2 %d 0" % (lay(dl, dc, q), plen), "rwp"))
        for prof in profs:
            out.append(("b_rwp 8 1 2 %s 2 2 8 %d" % (lay(dl, dc, q), prof), "rwp"))
            out.append(("b_rwp 7 1 2 %s 1 3 7 %d" % (lay(dl, dc, q), prof), "rwp"))
    return out


def gen_extraction(ctx):
    """linear x circular sizes x 12 methods x both overloads x windows shorter than the call sequence; perturbed shapes"""
    out = []
    for ls in range(0, 4):
        for cs in range(0, 3):
            S = ls + cs
            for m in range(0, 12):
                for full in (0, 1):
                    for (N, reps, window) in ((1, 2, 0), (4, 7, 0), (3, 6, 2), (5, 9, 3)):
                        if ctx.tier != "thorough" and (ls + cs + m + N) % 3 != ctx.seed % 3 and not (N == 1):
                            continue
                        if full:
                            out.append(("b_ee %d %d %d 1 %d %d %d %d %d %d %d %d %d" % (ls, cs, m, S, N, N, N, N, N, N, reps, window), "ee"))
                        else:
                            out.append(("b_ee %d %d %d 0 %d %d %d 0 0 0 0 %d %d" % (ls, cs, m, S, N, N, reps, window), "ee"))
    # perturbed shapes around (ls, cs) = (2, 1), N = 4
    for m in range(0, 12):
        b = dict(prow=3, pcol=4, wlen=4, pwlen=4, llen=4, tpr=4, tpc=4)
        for key in b:
            for delta in (-1, 1):
                c = dict(b)
                c[key] += delta
                out.append(("b_ee 2 1 %d 1 %d %d %d %d %d %d %d 2 0" % (m, c["prow"], c["pcol"], c["wlen"], c["pwlen"], c["llen"], c["tpr"], c["tpc"]), "ee_perturbed"))
        out.append(("b_ee 2 1 %d 0 3 0 0 0 0 0 0 2 0" % m, "ee_perturbed"))
    for fn in ("mean", "mode", "map"):
        for N in (0, 1, 3):
            out.append(("b_eefn 2 1 %s 3 %d %d %d %d %d" % (fn, N, N, N, N, N), "eefn"))
    return out


def gen_gpf(ctx):
    out = [("b_gpfmove %d %d" % (mode, n), "gpfmove") for mode in range(0, 5) for n in (1, 3)]
    out += [("b_gpfsample %d %d" % (m, c), "gpfsample") for m in range(1, 6) for c in range(1, 6) if abs(m - c) <= 1]
    return out


GENERATORS = [gen_wna, gen_lm, gen_ssm, gen_sls, gen_hist, gen_grid, gen_sigma, gen_corr, gen_containers, gen_resampling, gen_extraction, gen_gpf]

# witnesses of the `..._counterexample` theorems (replayed on the implementation on every run) and past failures
WITNESSES = [
    ("b_ukfc 1 2 1 1 1 2 1 1 1  1 1 1 2  2 0 0  2 0 2 2 2  1 1 1", "ukf_add"),            # unsafe_ukf_quaternion_state_counterexample
    ("b_ukfc 1 2 3 0 0 2 3 0 0  3 0 0 3  0 1 1  4 0 3 4 3  1 1 1", "ukf_add"),            # unsafe_ukf_quaternion_measurement_counterexample
    ("b_ukfc 2 2 1 1 1 2 1 1 1  1 1 1 2  4 0 0  4 0 4 4 2  1 1 1  2 1", "sukf"),          # unsafe_sukf_quaternion_state_counterexample
    ("b_likq 2 0 2 4 2 0 1", "likq"), ("b_likq 2 0 2 4 2 1 1", "likq"),                            # unsafe_sukf_likelihood_noise_shrunk_counterexample
    ("b_gpfmove 3 3", "gpfmove"), ("b_gpfmove 4 3", "gpfmove"), ("b_gpfmove 1 3", "gpfmove"),   # fixed by 1b09d3a
    ("b_grid 1 1 1 2 0 0", "grid"), ("b_grid 2 2 4 6 0 0", "grid"),                               # fixed by 8ea2579
    ("b_ssm 1 0 2 2", "ssm"),                                                                       # fixed by 4751db6
    ("b_rwp 8 1 2 0 1 1 2 2 8 0", "rwp"), ("b_rs 4 2 0 0 4 2 0 0 4 4", "rs"), ("b_rs 4 2 0 0 4 2 0 0 4 3", "rs"),                                                            # fixed by afe0735
    ("b_hist 3 s10 a3 a3 a3 a3 s3 g", "hist"),                                                      # fixed by 382f8e9
    ("b_ssm 2 2 4 5", "ssm"),                                                                       # fixed by 3e146d2
    ("b_wna_noise 1 3", "wna_noise"), ("b_wna_noise 3 2", "wna_noise"),                            # fixed by d63c821
    ("b_lm 4 1 1 2 1 2", "lm"), ("b_lm 4 3 3 2 3 0 1 3", "lm"),                                    # fixed by f96e245
    ("b_utmm 1 2 2 0 0 0 2  2 0 0 2  2 0 0  2 0 2 2 2  1 0 1", "utmm"),                            # fixed by ca060a6
    ("b_corrseq 1 3 0 0  3 0 0 2  2 0 0  2 0 2 2 2  1 1 1  2  2 1 1 1 0  2 1 0 1 0", "ukf_seq"),     # fixed by 5117f2c
    ("b_corrseq 2 2 0 0  2 0 0 2  4 0 0  4 0 4 4 2  1 1 1  2 1  2  1 1 1 1 0  1 1 1 0 6", "sukf_seq"),  # fixed by 9d4c3da (measurement 4, then 6 with a failing innovation)
]


def gen_utmm(ctx):
    out = []
    for (dl, dc, q, dn) in all_layouts(noise=(0, 2)):
        if ctx.tier != "thorough" and (dl + dc + dn) % 2 != ctx.seed % 2:
            continue
        dcv = dcov_of(dl, dc, q, dn)
        for (ml, mc, mq) in ((2, 0, 0), (1, 1, 0), (0, 1, 1), (1, 2, 1)):
            tot, dof = dim_of(ml, mc, mq), dcov_of(ml, mc, mq)
            for kind in (0, 1):
                pre = "b_utmm %d 2 %d %d %d %d %d" % (kind, dl, dc, q, dn, dcv)
                out.append(("%s %s" % (pre, meas_tokens(dl, dc, q, dn, ml, mc, mq, tot, 0, dof, tot, dof)), "utmm"))
                out.append(("%s %s" % (pre, meas_tokens(dl, dc, q, dn, ml, mc, mq, tot, 0, dof, tot, dof, pv=0)), "utmm"))
                if kind == 1 and ml == 2:
                    out.append(("%s %s" % (pre, meas_tokens(dl, dc, q, dn, ml, mc, mq, tot, 0, dof, tot, dof + 1)), "utmm"))   # noise covariance of another size
    return out


GENERATORS.append(gen_utmm)


def gen_sequences(ctx):
    """call sequences on ONE object: noise samples with sizes going up and down; corrections succeeding and failing in turn"""
    out = []
    g = ctx.gen("seq")
    num_seqs = [[3, 1, 0, 2], [0, 1, 2, 3], [3, 2, 1, 0], [1], [5, 1, 5, 0, 4], [2, 2, 2]]
    for _ in range(ctx.n(6, 40)):
        num_seqs.append([g.r.randint(0, 6) for _ in range(g.r.randint(2, 8))])
    for d in (1, 2, 3):
        for ns in num_seqs:
            out.append(("b_wna_seq %d %d %s" % (d, len(ns), " ".join(map(str, ns))), "wna_seq"))
    for (n, comps) in ((4, [0, 2]), (4, [1]), (6, [0, 2, 4]), (2, [0, 1]), (5, [4, 0, 2, 1])):
        for ns in num_seqs:
            out.append(("b_lm_seq %d %d %s %d %s" % (n, len(comps), " ".join(map(str, comps)), len(ns), " ".join(map(str, ns))), "lm_seq"))
    # one step = (K, measure ok, predictedMeasure ok, innovation ok, measurement size at this call [0 = as configured])
    def step_seqs(sizes):
        alphabet = [(K, mv, pv, iv, z) for (K, mv, pv, iv) in ((2, 1, 1, 1), (1, 1, 1, 1), (2, 0, 1, 1), (2, 1, 0, 1), (2, 1, 1, 0), (1, 1, 0, 1), (1, 1, 1, 0), (3, 1, 1, 1))
                    for z in sizes]
        seqs = [[a] for a in alphabet]
        succ = [a for a in alphabet if a[1] and a[2] and a[3]]
        # a failed call after a successful one (every failing stage x every size change, non-monotone), then a success again
        seqs += [[a, b] for a in succ for b in alphabet]
        if ctx.tier == "thorough":
            seqs += [[a, b, c] for a in succ for b in alphabet if not (b[1] and b[2] and b[3]) for c in succ[::3]]
        for _ in range(ctx.n(60, 400)):
            seqs.append([g.r.choice(alphabet) for _ in range(g.r.randint(3, 7))])
        return seqs
    configs = [((3, 0, 0), (2, 0, 0)), ((2, 1, 0), (1, 1, 0))]
    for (dl, dc, q), (ml, mc, mq) in configs:
        tot, dof = dim_of(ml, mc, mq), dcov_of(ml, mc, mq)
        for kind in (0, 1, 2, 3):
            if kind == 2:
                variants = [("%d %d %d %d  %d 0 0  %d 0 %d %d %d  1 1 1  2 1" % (dl, dc, q, 2, 4, 4, 4, 4, 2), (0, 2, 4, 6)),       # reduced R, sub-size 2
                            ("%d %d %d %d  %d 0 0  %d 0 %d %d %d  1 1 1  2 0" % (dl, dc, q, 4, 4, 4, 4, 4, 4), (0, 2, 6, 3))]       # full R (3: not a multiple)
            elif kind == 3:
                variants = [("%d %d %d %d  %d 0 0  %d 0 %d %d %d  1 1 1" % (dl, dc, q, tot, tot, tot, tot, tot, tot), (0,))]
            else:
                variants = [("%d %d %d %d  %d %d %d  %d 0 %d %d %d  1 1 1" % (dl, dc, q, dof, ml, mc, mq, tot, dof, tot, dof), (0, 1, 3))]
            for meas, sizes in variants:
                for sq in step_seqs(sizes):
                    steps = "  ".join("%d %d %d %d %d" % st for st in sq)
                    out.append(("b_corrseq %d %d %d %d  %s  %d  %s" % (kind, dl, dc, q, meas, len(sq), steps), ("ukf_seq", "ukf_seq", "sukf_seq", "kf_seq")[kind]))
    # BootstrapCorrection / GPFCorrection / EstimatesExtraction: a failed call after a successful one, then every getter (twice)
    b_alpha = [(3, 1, 1, 1), (1, 1, 1, 1), (2, 0, 1, 1), (2, 1, 0, 1), (3, 1, 1, 0)]
    b_seqs = [[a, b] for a in b_alpha for b in b_alpha] + [[g.r.choice(b_alpha) for _ in range(g.r.randint(3, 6))] for _ in range(ctx.n(20, 100))]
    for (dl, dc, q) in ((4, 0, 0), (1, 1, 1)):
        for sq in b_seqs:
            out.append(("b_bootseq %s  %s  %d  %s" % (lay(dl, dc, q), meas_tokens(dl, dc, q, 2, 2, 0, 0, 2, 0, 2, 2, 2), len(sq), "  ".join("%d %d %d %d" % st for st in sq)), "boot_seq"))
    g_alpha = [(3, 1), (1, 1), (2, 0), (3, 0)]
    g_seqs = [[a, b] for a in g_alpha for b in g_alpha] + [[g.r.choice(g_alpha) for _ in range(g.r.randint(3, 5))] for _ in range(ctx.n(10, 60))]
    for d in (1, 2, 3):
        for hm in (1, 2):
            for sq in g_seqs:
                out.append(("b_gpfcseq %d %d %d  %s" % (d, hm, len(sq), "  ".join("%d %d" % st for st in sq)), "gpfc_seq"))
    for (ls, cs) in ((2, 1), (0, 2), (3, 0)):
        for N in (1, 4):
            for _ in range(ctx.n(25, 150)):
                sq = [(g.r.randint(0, 11), g.r.randint(0, 1)) for _ in range(g.r.randint(2, 9))]
                out.append(("b_eeseq %d %d %d %d  %s" % (ls, cs, N, len(sq), "  ".join("%d %d" % st for st in sq)), "ee_seq"))
    return out


GENERATORS.append(gen_sequences)


def gen_filters(ctx):
    """deepening round: LinearStateModel::propagate branches, KF/UKF/GPF predictions, DrawParticles, GaussianLikelihood,
    BootstrapCorrection, GPFCorrection::correctStep, SIS (real thread), in-place calls (aliasing)"""
    out = []
    flags3 = [(a, b, c) for a in (0, 1) for b in (0, 1) for c in (0, 1)]
    for fn in range(0, 4):
        for (sS, hE, sE) in flags3:
            for num in (0, 1, 3):
                out.append(("b_linprop %d %d %d %d %d %d %d %d" % (fn, fn, num, fn, num, sS, hE, sE), "linprop"))
            for (sr, pr, pc) in ((fn + 1, fn, 2), (fn, fn + 1, 2), (fn, fn, 3)):
                out.append(("b_linprop %d %d 2 %d %d %d %d %d" % (fn, sr, pr, pc, sS, hE, sE), "linprop"))
    for n in range(0, 4):
        lays = [(n, 0, 0)] + ([(n - 1, 1, 0)] if n >= 1 else [])
        for (dl, dc, q) in lays:
            for K in (1, 2, 3):
                for mode in (0, 1, 2, 3):
                    for exo in (0, 1):
                        for alias in (0, 1):
                            out.append(("b_kfp %d %s %d %s %d %d %d %d" % (K, lay(dl, dc, q), K, lay(dl, dc, q), n, mode, exo, alias), "kfp"))
                out.append(("b_gpfp %d %s %d %s %d" % (K, lay(dl, dc, q), K, lay(dl, dc, q), n), "gpfp"))
            for mode in (0, 1, 2):
                out.append(("b_kfp 2 %s 1 %s %d %d 1 0" % (lay(dl, dc, q), lay(dl, dc, q), n, mode), "kfp"))
                out.append(("b_kfp 2 %s 3 %s %d %d 0 0" % (lay(dl, dc, q), lay(dl, dc, q), n, mode), "kfp"))
                out.append(("b_kfp 2 %s 2 %s %d %d 0 0" % (lay(dl, dc, q), lay(dl + 1, dc, q), n, mode), "kfp"))
                out.append(("b_kfp 2 %s 2 %s %d %d 1 0" % (lay(dl, dc, q), lay(dl, dc, q), n + 1, mode), "kfp"))
            out.append(("b_gpfp 2 %s 3 %s %d" % (lay(dl, dc, q), lay(dl, dc, q), n), "gpfp"))
            out.append(("b_gpfp 2 %s 2 %s %d" % (lay(dl, dc, q), lay(dl + 1, dc, q), n), "gpfp"))
            out.append(("b_gpfp 2 %s 2 %s %d" % (lay(dl, dc, q), lay(dl, dc, q), n + 1), "gpfp"))
    out.append(("b_kfp 2 0 1 1 2 0 1 1 4 0 0 0", "kfp"))
    for (dl, dc, q) in LAYOUTS_SMALL:
        dim, dcv = dim_of(dl, dc, q), dcov_of(dl, dc, q)
        for K in (1, 2):
            for qn in (1, 2):
                for skip in (0, 1):
                    out.append(("b_ukfp 0 %d %s  0 %d %s %d %d" % (K, lay(dl, dc, q), qn, lay(dl, dc, q), qn, skip), "ukfp_gen"))
            out.append(("b_ukfp 0 %d %s  0 2 %s 3 0" % (K, lay(dl, dc, q), lay(dl, dc, q)), "ukfp_gen"))           # declared noise != covariance size
            out.append(("b_ukfp 0 %d %s  0 2 %s 2 0" % (K, lay(dl, dc, q), lay(dl + 1, dc, q)), "ukfp_gen"))       # description of another layout
            if dim >= 1:
                for skip in (0, 1):
                    out.append(("b_ukfp 1 %d %s  %d %d %s 0 %d" % (K, lay(dl, dc, q), dim, dim, lay(dl, dc, q), skip), "ukfp_add"))
                out.append(("b_ukfp 1 %d %s  %d %d %s 0 0" % (K, lay(dl, dc, q), dim, dim + 1, lay(dl, dc, q)), "ukfp_add"))   # throws
                out.append(("b_ukfp 1 %d %s  %d %d %s 0 0" % (K, lay(dl, dc, q), dim + 1, dim + 1, lay(dl, dc, q)), "ukfp_add"))
    for d in (1, 2, 3):
        n = 2 * d
        for (dl, dc) in ((n, 0), (n - 1, 1)):
            for N in range(0, 4):
                for exo in (0, 1):
                    out.append(("b_draw %d %d %d %d 0 %d %d %d 0 %d" % (d, N, dl, dc, N, dl, dc, exo), "draw"))
            out.append(("b_draw %d 3 %d %d 0 2 %d %d 0 0" % (d, dl, dc, dl, dc), "draw"))
            out.append(("b_draw %d 3 %d %d 0 3 %d %d 0 1" % (d, dl, dc, dl + 1, dc), "draw"))
            out.append(("b_draw %d 3 %d %d 0 3 %d %d 0 0" % (d, dl + 1, dc, dl + 1, dc), "draw"))
    for N in range(0, 4):
        for (mv, pv, iv) in flags3:
            out.append(("b_glik %d 4  %s" % (N, meas_tokens(4, 0, 0, 2, 2, 0, 0, 2, 0, 2, 2, 2, mv, pv, iv)), "glik"))
            for (dl, dc, q) in ((4, 0, 0), (1, 1, 1), (2, 1, 0)):
                for alias in (0, 1):
                    out.append(("b_boot %d %s %d %s %d  %s" % (N, lay(dl, dc, q), N, lay(dl, dc, q), alias, meas_tokens(dl, dc, q, 2, 2, 0, 0, 2, 0, 2, 2, 2, mv, pv, iv)), "boot"))
        out.append(("b_glik %d 4  %s" % (N, meas_tokens(4, 0, 0, 2, 2, 0, 0, 2, 0, 2, 2, 3)), "glik"))
        out.append(("b_glik %d 4  %s" % (N, meas_tokens(4, 0, 0, 2, 2, 0, 0, 2, 1, 2, 2, 2)), "glik"))
        out.append(("b_boot %d 4 0 0 1 1 0 0 0  %s" % (N, meas_tokens(4, 0, 0, 2, 2, 0, 0, 2, 0, 2, 2, 2)), "boot"))
        out.append(("b_boot %d 4 0 0 %d 4 0 0 0  %s" % (N, N, meas_tokens(4, 0, 0, 2, 2, 0, 0, 2, 1, 2, 2, 2)), "boot"))
        out.append(("b_boot %d 4 0 0 %d 4 0 0 0  %s" % (N, N, meas_tokens(4, 0, 0, 2, 2, 0, 0, 2, 0, 3, 2, 2)), "boot"))
    for d in (1, 2, 3):
        for N in (1, 2, 3):
            for hm in (1, 2):
                for mv in (0, 1):
                    for alias in (0, 1):
                        out.append(("b_gpfc %d %d %d %d %d %d %d" % (d, N, N, hm, hm, mv, alias), "gpfc"))
            for mv in (0, 1):
                out.append(("b_gpfc %d %d %d 2 2 %d 0" % (d, N, N + 1, mv), "gpfc"))
                out.append(("b_gpfc %d %d %d 2 2 %d 0" % (d, N, max(N - 1, 0), mv), "gpfc"))
                out.append(("b_gpfc %d %d %d 2 3 %d 0" % (d, N, N, mv), "gpfc"))
                out.append(("b_gpfc %d %d %d 0 0 %d 0" % (d, N, N, mv), "gpfc"))
    for d in (1, 2, 3):
        n = 2 * d
        for (lin, circ) in ((n, 0), (n - 1, 1)):
            for (N, nx, ny) in ((1, 1, 1), (4, 2, 2), (6, 2, 3), (6, 3, 2), (5, 2, 2)):
                for hm in (1, 2):
                    for steps in ((0, 1, 2, 4) if ctx.tier == "thorough" else ((N + hm + d) % 3, 3)):
                        out.append(("b_sis %d %d %d %d %d %d %d %d" % (N, lin, circ, d, nx, ny, hm, steps), "sis"))
        out.append(("b_sis 4 %d 0 %d 2 2 2 3" % (n + 1, d), "sis"))        # state of another size than the motion model: aborts at the first prediction
        out.append(("b_sis 4 %d 0 %d 2 2 2 1" % (n + 1, d), "sis"))        # … but not before
        out.append(("b_sis 0 %d 0 %d 0 0 2 1" % (n, d), "sis"))
    for (dl, dc, q) in LAYOUTS_SMALL:
        for K in (0, 1, 2, 3):
            out.append(("b_psaddself %d %s" % (K, lay(dl, dc, q)), "psaddself"))
            if K >= 1:
                out.append(("b_gmaugalias %d %s" % (K, lay(dl, dc, q)), "gmaugalias"))
    return out


GENERATORS.append(gen_filters)


def gen_handover(ctx):
    """checklist g: objects of DIFFERENT configuration handed over by move / copy assignment and construction, both used before, the
    receiver used afterwards with the source's sizes (every class with a hand-written move / copy operation that C14 drives)"""
    out = []
    pairs = [(2, 3), (3, 2), (1, 4), (4, 1)]
    for cls in (0, 1, 2, 7):
        for (a, b) in pairs:
            for kind in (0, 1):
                for N in (1, 3):
                    out.append(("b_handover %d %d %d 0 %d 0 %d" % (cls, kind, a, b, N), "handover"))
    for (a, b) in ((1, 2), (2, 1), (1, 3), (3, 1), (2, 3), (3, 2)):
        for kind in (0, 1):
            for N in (1, 3):
                out.append(("b_handover 3 %d %d 0 %d 0 %d" % (kind, a, b, N), "handover"))
                for (ha, hb) in ((1, 2), (2, 1)):
                    out.append(("b_handover 5 %d %d %d %d %d %d" % (kind, a, ha, b, hb, N), "handover"))
    for (sa, ma, sb, mb) in ((2, 1, 4, 2), (4, 2, 2, 1), (3, 3, 1, 1), (1, 1, 3, 2)):
        for kind in (0, 1):
            for N in (1, 4):
                out.append(("b_handover 4 %d %d %d %d %d %d" % (kind, sa, ma, sb, mb, N), "handover"))
    for (ga, ra, gb, rb) in ((2, 5, 3, 2), (3, 2, 2, 5), (1, 9, 4, 0), (4, 0, 1, 9), (2, 5, 2, 7)):
        for kind in (0, 1):
            for N in (4, 8, 10):
                out.append(("b_handover 6 %d %d %d %d %d %d" % (kind, ga, ra, gb, rb, N), "handover"))
    for (la, ca, lb, cb) in ((1, 1, 3, 1), (3, 1, 1, 1), (2, 0, 4, 0), (4, 0, 2, 0), (2, 0, 1, 1), (0, 2, 3, 0), (1, 0, 0, 3)):
        for kind in (0, 1):
            for meth in range(0, 12):
                out.append(("b_handover 8 %d %d %d %d %d %d" % (kind, la, ca, lb, cb, meth), "handover"))
    for cls in (9, 10, 11):
        for (n, m) in ((3, 2), (2, 1), (4, 3), (1, 1)):
            for N in (1, 2):
                out.append(("b_handover %d 1 0 0 %d %d %d" % (cls, n, m, N), "handover"))
    for cls in (12, 13):
        for (la, ca, lb, cb) in ((1, 1, 3, 0), (3, 0, 1, 1), (2, 2, 1, 0), (1, 0, 2, 2), (0, 1, 4, 1)):
            for kind in (0, 1, 2, 3):
                for N in (1, 3):
                    out.append(("b_handover %d %d %d %d %d %d %d" % (cls, kind, la, ca, lb, cb, N), "handover"))
    for kind in (0, 1, 2, 3):
        for N in (1, 4):
            out.append(("b_handover 14 %d 0 0 3 0 %d" % (kind, N), "handover"))
    return out


GENERATORS.append(gen_handover)



# --------------------------------------------------------------------------- round 4

LOGDIR = vlib.BUILD / ("c14-logger-%d" % __import__("os").getpid())
WINDOWED = (1, 2, 3, 5, 6, 7, 9, 10, 11)      # smean wmean emean smode wmode emode smap wmap emap
HUGE = (2 ** 31, 2 ** 32, 2 ** 32 + 1, 2 ** 64 - 1)


def gen_round4(ctx):
    """round-4 classes: self move / const-rvalue hand-over; histories longer than any fixed internal capacity (>= 31, >= 65, >= 257
    elements) for every window; EstimatesExtraction hand-over language; Logger; filter skip commands in front of filtering steps;
    default virtuals; two-argument LinearModel constructor; indices over the whole size_t range"""
    out = []
    g = ctx.gen("round4")
    # --- self move (kind 4) of every class with a move assignment, Resampling::operator=(const Resampling&&) (kind 5)
    for cls in (0, 1, 2, 7):
        for b in (1, 2, 3, 4):
            for N in (1, 3):
                out.append(("b_handover %d 4 %d 0 %d 0 %d" % (cls, b % 4 + 1, b, N), "handover"))
    for b in (1, 2, 3):
        for N in (1, 3):
            out.append(("b_handover 3 4 %d 0 %d 0 %d" % (b % 3 + 1, b, N), "handover"))
            for hb in (1, 2):
                out.append(("b_handover 5 4 %d %d %d %d %d" % (b % 3 + 1, 3 - hb, b, hb, N), "handover"))
    for (sb, mb) in ((4, 2), (2, 1), (1, 1), (3, 2)):
        for N in (1, 4):
            out.append(("b_handover 4 4 %d %d %d %d %d" % (sb + 1, mb, sb, mb, N), "handover"))
    for (gb, rb) in ((3, 2), (2, 5), (4, 0), (1, 9)):
        for N in (4, 8, 10):
            out.append(("b_handover 6 4 %d %d %d %d %d" % (gb + 1, 9 - rb, gb, rb, N), "handover"))
    for (lb, cb) in ((3, 1), (1, 1), (4, 0), (0, 3), (2, 0)):
        for meth in range(0, 12):
            out.append(("b_handover 8 4 %d %d %d %d %d" % (cb + 1, lb, lb, cb, meth), "handover"))
    for cls in (12, 13):
        for (lb, cb) in ((3, 0), (1, 1), (2, 2), (0, 1)):
            for N in (1, 3):
                out.append(("b_handover %d 4 %d %d %d %d %d" % (cls, lb + 1, cb, lb, cb, N), "handover"))
    for kind in (4, 5):
        for N in (1, 4, 17):
            for b1 in (2, 3):
                out.append(("b_handover 14 %d 0 0 %d 0 %d" % (kind, b1, N), "handover"))
    # --- HistoryBuffer: more elements than any fixed capacity, EVERY window 2..30 (and the clamped 0, 1, 31, 2^31, 2^32-1), the
    #     history read around every multiple of 30 / 32 / 64 / 128 / 256 and after a self move
    marks = set()
    for base in (30, 32, 60, 64, 90, 128, 256):
        marks.update(range(base - 2, base + 4))
    for w in list(range(0, 33)) + [2 ** 31, 2 ** 32 - 1]:
        for total in (35, 70, 262):
            if ctx.tier != "thorough" and total == 262 and w % 4 != ctx.seed % 4 and w not in (2, 29, 30, 31):
                continue
            ops = ["s%d" % w]
            wc = 2 if w < 2 else min(w, 30)
            for i in range(1, total + 1):
                ops.append("a3")
                if i in marks or i <= 3 or i in (wc - 1, wc, wc + 1) or (i % wc == 1 and i < 100):
                    ops.append("g")
                if i == 40:
                    ops += ["S", "g"]
            ops += ["g", "d", "g", "a3", "g", "i", "a3", "g"]
            out.append(("b_hist 3 %s" % " ".join(ops), "hist"))
    for _ in range(ctx.n(20, 150)):          # long random histories (up to 300 operations) with self moves
        S, n, ops = g.r.choice([1, 2, 4]), g.r.randint(61, 300), []
        for _ in range(n):
            x = g.r.random()
            ops.append("a%d" % S if x < 0.8 else g.r.choice(["g", "g", "S", "d", "i", "m0", "s%d" % g.r.choice([2, 3, 7, 29, 30, 31, 64])]))
        out.append(("b_hist %d %s g" % (S, " ".join(ops)), "hist"))
    # --- EstimatesExtraction: >= 31 / >= 65 / >= 257 extractions with every window and every windowed method
    for w in range(1, 33):
        for mi, m in enumerate(WINDOWED):
            for reps in (33, 66, 258):
                if ctx.tier != "thorough" and not ((w + mi) % 9 == ctx.seed % 9 or (w in (1, 2, 29, 30, 31) and mi % 3 == ctx.seed % 3)):
                    continue
                if ctx.tier != "thorough" and reps == 258 and w % 3 != ctx.seed % 3:
                    continue
                ls, cs, N = 1 + (w % 2), w % 3 % 2, 2 + w % 3
                out.append(("b_ee %d %d %d 1 %d %d %d %d %d %d %d %d %d" % (ls, cs, m, ls + cs, N, N, N, N, N, N, reps, w), "ee"))
    out.append(("b_ee 2 1 1 0 3 4 4 0 0 0 0 40 2147483647", "ee"))       # window INT_MAX: clamped to 30
    # --- EstimatesExtraction hand-over language
    def ee_move(kind):
        return "%s%d_%d_%d_%d_%d" % (kind, g.r.choice([0, 1, 2, 4]) + (1 if kind == "M" else 0), g.r.choice([0, 1, 2]), g.r.choice([0, 0, 2, 7, 30]),
                                     g.r.choice([0, 1, 3, 6, 35]), g.r.choice(list(WINDOWED) + [0, 4, 8]))
    for (ls, cs) in ((2, 1), (3, 0), (0, 2), (1, 1)):
        for N in (1, 4):
            for m in WINDOWED:
                # used, handed over to itself / a new object / from and into an extractor of other sizes, used again longer than the window
                pre = " ".join(["x%d_1" % m] * 4)
                post = " ".join(["x%d_1" % m] * 7)
                out.append(("b_eehand %d %d %d %s S %s c %s" % (ls, cs, N, pre, post, post), "eehand"))
                out.append(("b_eehand %d %d %d %s M%d_%d_3_5_%d %s" % (ls, cs, N, pre, ls + 2, cs, m, post), "eehand"))
                out.append(("b_eehand %d %d %d w2 %s T%d_%d_0_2_%d %s w30 %s" % (ls, cs, N, pre, cs + 1, ls, WINDOWED[(m + 3) % 9], post, post), "eehand"))
            for _ in range(ctx.n(4, 30)):
                ops = []
                for _ in range(g.r.randint(3, 40)):
                    x = g.r.random()
                    ops.append("x%d_%d" % (g.r.randint(0, 11), g.r.randint(0, 1)) if x < 0.7 else
                               g.r.choice(["S", "c", "w%d" % g.r.choice([0, 1, 2, 5, 30, 31]), ee_move("M"), ee_move("T")]))
                out.append(("b_eehand %d %d %d %s x1_0 x10_1" % (ls, cs, N, " ".join(ops)), "eehand"))
    out.append(("b_eehand 2 0 0 x1_0", "eehand"))        # no particles: outside the precondition
    # --- Logger: every (names, data) pair of the generic subclass x every operation sequence of length <= 3, longer ones, shipped classes
    alpha = ["e1_1", "e0_2", "d", "l", "q"]
    seqs = [[a] for a in alpha] + [[a, b] for a in alpha for b in alpha] + [[a, b, c] for a in ("e1_1", "e0_2") for b in alpha for c in alpha]
    seqs += [["e1_1", "l", "l", "d", "l", "e1_3", "e1_4", "l", "q", "d", "d", "q"], ["e0_5", "l", "e1_6", "l", "e0_7", "q", "d", "e0_8", "q", "l"]]
    for n in range(0, 5):
        for k in range(1, 5):
            for sq in (seqs if (ctx.tier == "thorough" or (n + k) % 4 == ctx.seed % 4 or n == k) else seqs[-2:] + [["e1_1", "l"]]):
                out.append(("b_logger %s 0 %d %d %s" % (LOGDIR, n, k, " ".join(sq)), "logger"))
    for cls in (1, 2, 3):
        for sq in seqs[:5] + seqs[5:30:3] + seqs[-2:] + [["e1_1", "l"], ["e1_9", "l", "l", "l", "d", "l", "q"]]:
            out.append(("b_logger %s %d 0 0 %s" % (LOGDIR, cls, " ".join(sq)), "logger"))
    # --- GaussianFilter::skip / ParticleFilter::skip: every command history of length <= 2 (6 names x on/off), then filtering steps
    cmds = [(w, b) for w in range(0, 6) for b in (1, 0)]
    hist = [[]] + [[c] for c in cmds] + [[c, e] for c in cmds for e in cmds]
    for exo in (0, 1):
        for i, h in enumerate(hist):
            if ctx.tier != "thorough" and len(h) == 2 and i % 3 != ctx.seed % 3:
                continue
            fn, K, hm = 1 + i % 3, 1 + i % 2, 1 + (i // 2) % 2
            out.append(("b_gfilter %d %d %d %d 2 %d %s" % (exo, fn, K, hm, len(h), " ".join("%d %d" % c for c in h)), "gfilter"))
        for (lin, circ, d) in ((2, 0, 1), (3, 1, 2), (6, 0, 3)):
            for h in hist[:13] + [[g.r.choice(cmds) for _ in range(g.r.randint(2, 5))] for _ in range(ctx.n(6, 40))]:
                out.append(("b_pfilter %d 4 %d %d %d 2 2 %d 3 %d %s" % (exo, lin, circ, d, 1 + len(h) % 2, len(h), " ".join("%d %d" % c for c in h)), "pfilter"))
    out.append(("b_gfilter 0 2 2 0 1 0", "gfilter"))           # empty H: throws
    out.append(("b_pfilter 0 4 3 0 2 2 2 1 2 1 1 1", "pfilter"))   # state of another size than the motion model, but the prediction is skipped
    out.append(("b_pfilter 0 4 3 0 2 2 2 1 2 0", "pfilter"))       # … and not skipped: aborts at the first prediction
    # --- default virtuals reached through shipped classes
    for which in range(1, 8):
        out.append(("b_defaults %d 0 0 0" % which, "defaults"))
    for fn in (1, 2, 3):
        for sr in (fn, fn + 1, max(fn - 1, 0)):
            for N in (0, 1, 3):
                out.append(("b_defaults 0 %d %d %d" % (fn, sr, N), "defaults"))
    # --- two-argument LinearModel constructor
    out += [("b_lm2" + ln[len("b_lm"):], "lm") for i, (ln, _) in enumerate(gen_lm(ctx)) if i % 3 == ctx.seed % 3 and ln.startswith("b_lm ")]
    # --- indices over the whole size_t range (all outside the precondition: every one must abort, none may be narrowed to a valid one)
    for big in HUGE:
        out.append(("b_gmacc 2 2 1 0 0 mean1 %d 0 0" % big, "gmacc"))
        out.append(("b_gmacc 2 2 1 0 0 cov1 %d 0 0" % big, "gmacc"))
        out.append(("b_gmacc 2 2 1 0 0 w1 %d 0 0" % big, "gmacc"))
        out.append(("b_gmacc 2 2 1 0 0 mean2 0 %d 0" % big, "gmacc"))
        out.append(("b_gmacc 2 2 1 0 0 cov3 1 %d 0" % big, "gmacc"))
        out.append(("b_gmacc 2 2 1 0 0 cov3 1 0 %d" % big, "gmacc"))
        out.append(("b_psacc 3 2 1 0 state1 %d 0" % big, "psacc"))
        out.append(("b_psacc 3 2 1 0 state2 1 %d" % big, "psacc"))
    # --- quaternion / circular layouts for consumers that had linear ones only
    for (d, dl, dc, q) in ((2, 0, 1, 1), (3, 2, 1, 1), (2, 2, 2, 0), (1, 0, 2, 0)):
        for N in (1, 3):
            for exo in (0, 1):
                out.append(("b_draw %d %d %d %d %d %d %d %d %d %d" % (d, N, dl, dc, q, N, dl, dc, q, exo), "draw"))
    for (dl, dc, q) in ((0, 1, 1), (2, 2, 1), (0, 2, 0)):
        for N in (1, 3):
            out.append(("b_boot %d %s %d %s 0  %s" % (N, lay(dl, dc, q), N, lay(dl, dc, q), meas_tokens(dl, dc, q, 2, 2, 0, 0, 2, 0, 2, 2, 2)), "boot"))
    return out


GENERATORS.append(gen_round4)


def gen_static_sequences(ctx):
    """DEEPEN v: call sequences in ONE process whose shapes are non-monotone in rows while the element count does not grow (2 x 100, then
    5 x 11 / 6 x 11, then 2 x 100 again) for every consumer with a sample / sigma-point / workspace buffer; run in order by ONE harness process"""
    m2 = meas_tokens(2, 0, 0, 1, 1, 0, 0, 1, 0, 1, 1, 1)
    m5 = meas_tokens(5, 0, 0, 3, 3, 0, 0, 3, 0, 3, 3, 3)
    a = ["b_wna_noise 1 100", "b_wna_motion 1 100 2", "b_wna_tp 1 100 2", "b_lm_seq 6 2 0 1 1 100", "b_sp 20 2 0 0 0", "b_ut 20 2 0 0 0 2 2 0 0 2 0 1",
         "b_kfc 20 2 0 0 20 2 0 0 1 2 1 1", "b_ukfc 1 20 2 0 0 20 2 0 0 %s" % m2, "b_ukfc 2 20 2 0 0 20 2 0 0 %s 1 0" % m2,
         "b_rs 100 2 0 0 100 2 0 0 100 0", "b_rwp 100 1 2 2 0 0 2 2 100 0", "b_ee 2 0 1 1 2 100 100 100 100 100 100 3 0", "b_glik 100 2  %s" % m2,
         "b_boot 100 2 0 0 100 2 0 0 0  %s" % m2, "b_draw 1 100 2 0 0 100 2 0 0 0", "b_gpfc 1 50 50 1 1 1 0", "b_kfp 20 2 0 0 20 2 0 0 2 0 0 0",
         "b_ukfp 1 20 2 0 0  2 2 2 0 0 0 0", "b_gmaug 20 2 0 0 1 1 0 0", "b_psadd 50 2 0 0 50 2 0 0", "b_grid 10 10 100 4 0 0"]
    b = ["b_wna_noise 3 11", "b_wna_motion 3 11 6", "b_wna_tp 3 11 6", "b_lm_seq 6 5 0 1 2 3 4 1 11", "b_sp 1 5 0 0 0", "b_ut 1 5 0 0 0 5 5 0 0 5 0 1",
         "b_kfc 1 5 0 0 1 5 0 0 3 5 3 1", "b_ukfc 1 1 5 0 0 1 5 0 0 %s" % m5, "b_ukfc 2 1 5 0 0 1 5 0 0 %s 3 0" % m5,
         "b_rs 11 5 0 0 11 5 0 0 11 0", "b_rwp 11 1 2 5 0 0 2 2 11 0", "b_ee 5 0 1 1 5 11 11 11 11 11 11 3 0", "b_glik 11 5  %s" % m5,
         "b_boot 11 5 0 0 11 5 0 0 0  %s" % m5, "b_draw 3 11 6 0 0 11 6 0 0 0", "b_gpfc 3 11 11 3 3 1 0", "b_kfp 1 5 0 0 1 5 0 0 5 0 0 0",
         "b_ukfp 1 1 5 0 0  5 5 5 0 0 0 0", "b_gmaug 1 5 0 0 3 3 0 0", "b_psadd 5 5 0 0 6 5 0 0", "b_grid 1 11 11 4 0 0"]
    seq = []
    for x, y in zip(a, b):
        seq += [x, y, x]
    seq += a + b + a
    return [(" ".join(ln.split()), group_of(ln)) for ln in seq]


def gen_likelihood_query(ctx):
    """round 4 (b): getLikelihood() after the time-varying measurement model changed its size — at once, after a skipped correct(), after a real
    correct() — for UKF (both constructors), SUKF (every sub-size dividing both sizes, full and reduced noise covariance) and KF"""
    out = []
    for sub in (1, 2, 3):
        sizes = (sub, 2 * sub, 3 * sub)
        for m1 in sizes:
            for m2 in sizes:
                for red in (0, 1):
                    for how in (0, 1, 2):
                        for K in (1, 2):
                            out.append(("b_likq 2 %d %d %d %d %d %d" % (red, sub, m1, m2, how, K), "likq"))
    out.append(("b_likq 2 0 3 4 2 0 1", "likq"))        # sub-size dividing neither: nothing is ever corrected
    out.append(("b_likq 2 0 0 4 2 0 1", "likq"))        # sub-size 0: outside the precondition
    for kind in (0, 1, 3):
        for m1 in (1, 2, 4):
            for m2 in (1, 2, 4):
                for how in (0, 1, 2):
                    out.append(("b_likq %d 0 1 %d %d %d 2" % (kind, m1, m2, how), "likq"))
    return out


GENERATORS.append(gen_likelihood_query)

# --------------------------------------------------------------------------- running

def par_harness(binary, lines, jobs=8):
    """vlib.run_harness over `jobs` interleaved slices (a crash costs a process start; slices run concurrently)"""
    n = len(lines)
    outs, logs = [None] * n, {}
    slices = [list(range(j, n, jobs)) for j in range(jobs)]
    errs = []

    def work(idx):
        try:
            o, l = vlib.run_harness(binary, [lines[i] for i in idx], timeout=120)
            if any(x == "crash:timeout" for x in o):
                # vlib attributes a timeout to the first case of the remaining chunk: find the real one, case by case
                o, l = [], {}
                for k, i in enumerate(idx):
                    o1, l1 = vlib.run_harness(binary, [lines[i]], timeout=20)
                    o.append(o1[0])
                    if 0 in l1:
                        l[k] = l1[0]
            for k, i in enumerate(idx):
                outs[i] = o[k]
                if k in l:
                    logs[i] = l[k]
        except Exception as e:       # re-raised in the caller
            errs.append(e)

    ts = [threading.Thread(target=work, args=(s,)) for s in slices if s]
    for t in ts:
        t.start()
    for t in ts:
        t.join()
    if errs:
        raise errs[0]
    return outs, logs


def parse_driver(d):
    """-> (valid, kind, payload) with kind in ok / abort / throw / bad"""
    m = re.match(r"V([01]) (ok|abort|throw)(?: (.*))?$", d.strip())
    if not m:
        return None, "bad", d
    return m.group(1) == "1", m.group(2), (m.group(3) or "").strip()


def parse_harness(h):
    h = h.strip()
    if h.startswith("crash:"):
        return "abort", h
    if h.startswith("throw:"):
        return "throw", h
    if h == "ok" or h.startswith("ok "):
        return "ok", h[2:].strip()
    return "bad", h


def crash_detail(log):
    if not log:
        return ""
    m = re.search(r"Assertion `(.*?)' failed", log, re.S)
    if m:
        return "assertion: " + " ".join(m.group(1).split())[:240]
    m = re.search(r"(runtime error: [^\n]*)|(ERROR: AddressSanitizer[^\n]*)", log)
    return (m.group(0) if m else log[-240:])[:300]


def finding_key(line, group):
    """stable key of the violation class a valid-but-aborting configuration belongs to"""
    t = line.split()
    if t[0] == "b_corrseq":
        kind, dc, q, mc, mq = int(t[1]), int(t[3]), int(t[4]), int(t[10]), int(t[11])
        if kind == 3:
            return "kf-call-sequence:abort-on-valid"
        if kind in (0, 1):
            return "ukf-quaternion-state" if (q and dc > 0) else ("ukf-quaternion-measurement" if (mq and mc > 0) else "ukf-call-sequence:abort-on-valid")
        return "sukf-quaternion-state" if (q and dc > 0) else "sukf-call-sequence:abort-on-valid"
    if t[0] in ("b_ukfc", "b_ukfcmv"):
        kind, q = int(t[1]), int(t[5])
        dc = int(t[4])
        mc, mq = int(t[15]), int(t[16])
        if kind in (0, 1):
            if q and dc > 0:
                return "ukf-quaternion-state"
            if mq and mc > 0:
                return "ukf-quaternion-measurement"
            return "ukf-correct:abort-on-valid"
        if q and dc > 0:
            return "sukf-quaternion-state"
        return "sukf-correct:abort-on-valid"
    if t[0] == "b_psaddself":
        return "psadd-self-alias"
    if t[0] == "b_likq":
        kind, red, m1, m2, how = int(t[1]), int(t[2]), int(t[4]), int(t[5]), int(t[6])
        # SUKFCorrection::getLikelihood reads the model's noise covariance at query time: full mode, members of an earlier, larger measurement
        return "sukf-likelihood-noise-shrunk" if (kind == 2 and not red and how != 2 and m2 < m1) else "likelihood-query:abort-on-valid"
    if t[0] == "b_handover":
        names = ["KFPrediction", "UKFPrediction", "GPFPrediction", "DrawParticles", "BootstrapCorrection", "GPFCorrection", "ResamplingWithPrior", "LTIStateModel",
                 "EstimatesExtraction", "UKFCorrection", "SUKFCorrection", "KFCorrection", "ParticleSet", "GaussianMixture", "Resampling"]
        c = int(t[1])
        return "handover-%s:abort-on-valid" % (names[c] if c < len(names) else "?")
    return "%s:abort-on-valid" % group


def aggregate_other_evidence():
    """supporting evidence: every other property's harness also runs on the dbg build"""
    agg = {}
    for p in sorted((vlib.VERIF / "evidence").glob("C*.json")):
        if p.stem == "C14":
            continue
        try:
            ev = json.loads(p.read_text())
        except Exception:
            continue
        cov = ev.get("coverage", {})
        agg[p.stem] = {"evaluations": cov.get("evaluations"), "sanitizer_crashes": cov.get("sanitizer_crashes"),
                       "violations": ev.get("violations"), "tier": ev.get("tier")}
    return agg


def branch_tags(line, group, hk, hp):
    """which branches of the anchored functions (and of the model) a case drives; counted in the evidence"""
    t = line.split()
    tags = []
    try:
        if group in ("ssm", "sls"):
            toks = hp.split()
            T = int(t[2])
            tags.append("SimulatedStateModel:ctor T=0 (guarded col(0))" if T == 0 else "SimulatedStateModel:ctor T>0")
            if T > 1:
                tags.append("SimulatedStateModel:ctor motion loop")
            if any(x == "0" for x in toks):
                tags.append("bufferData/freeze:exhausted -> false")
            if any(x.startswith("1:") for x in toks):
                tags.append("bufferData/freeze:data -> true")
        elif group == "grid":
            nx, ny, N = int(t[1]), int(t[2]), int(t[3])
            rows = dim_of(int(t[4]), int(t[5]), int(t[6]))
            tags.append("grid:count mismatch -> false" if N != nx * ny else ("grid:state not 4-dimensional -> false" if rows != 4 else ("grid:filled" if N else "grid:empty grid")))
        elif group == "hist":
            w, n = 5, 0
            for op in t[2:]:
                k = op[0]
                if k in "MT":
                    s2, cnt, w2 = [int(x) for x in op[1:].split("_")]
                    tags.append("move assignment %s a buffer of another state size" % ("from" if k == "M" else "into"))
                    if k == "M":
                        w = 5 if w2 == 0 else (2 if w2 < 2 else min(w2, 30))
                        n = min(cnt, w)
                    continue
                a = int(op[1:] or 0)
                if k == "a":
                    n += 1
                    if n > w:
                        n -= 1
                        tags.append("addElement:pop_back")
                    else:
                        tags.append("addElement:grow")
                elif k in "sdi":
                    req = a if k == "s" else (w - 1 if k == "d" else w + 1)
                    if req == w:
                        tags.append("setHistorySize:same window")
                        continue
                    tmp = 2 if req < 2 else (30 if req >= 30 else req)
                    tags.append("setHistorySize:clamp to 2" if req < 2 else ("setHistorySize:clamp to 30" if req >= 30 else "setHistorySize:in range"))
                    if tmp < w and tmp < n:
                        n = tmp
                        tags.append("setHistorySize:pop excess")
                    else:
                        tags.append("setHistorySize:nothing to pop")
                    w = tmp
                elif k == "c":
                    n = 0
                    tags.append("clear")
                elif k == "g":
                    tags.append("getHistoryBuffer:empty" if n == 0 else "getHistoryBuffer:columns")
                elif k == "m":
                    tags.append("move")
        elif group == "lm":
            n, rr, rc, k = int(t[1]), int(t[2]), int(t[3]), int(t[5])
            comps = [int(x) for x in t[6:6 + k]]
            if k == 0 or n == 0:
                tags.append("LinearModel:throw empty H")
            elif rr == 0 or rc == 0:
                tags.append("LinearModel:throw empty R")
            elif rr != rc:
                tags.append("LinearModel:throw non-square R")
            elif k != rr:
                tags.append("LinearModel:throw H/R size mismatch")
            elif any(c >= n for c in comps):
                tags.append("LinearModel:throw component out of bound")
            else:
                tags.append("LinearModel:constructed")
        elif t[0] in ("b_ukfc", "b_ukfcmv"):
            kind = int(t[1])
            mv, pv, iv = int(t[22]), int(t[23]), int(t[24])
            name = ("UKF generic", "UKF additive", "SUKF")[kind]
            if not mv:
                tags.append(name + ":no measurement -> copy")
            elif kind == 2 and int(t[25]) > 0 and dim_of(int(t[14]), int(t[15]), int(t[16])) % int(t[25]) != 0:
                tags.append("SUKF:measurement size not a multiple of the sub-size -> copy")
            elif not pv:
                tags.append(name + ":prediction failed -> copy")
            elif not iv:
                tags.append(name + ":innovation failed -> copy")
            else:
                tags.append(name + ":update")
                if kind == 2:
                    tags.append("SUKF:reduced R" if int(t[26]) else "SUKF:full R")
            if hk == "ok" and hp.split()[-2:-1] == ["1"]:
                tags.append("getLikelihood:evaluated")
            elif hk == "ok":
                tags.append("getLikelihood:not available")
        elif group == "kf":
            tags.append("KF:update" if int(t[12]) else "KF:no measurement -> copy")
        elif group == "linprop":
            sS, hE, sE = int(t[6]), int(t[7]), int(t[8])
            tags.append("LinearStateModel::propagate:" + ("all skipped -> copy" if sS and hE and sE else "F x + exogenous" if (not sS and hE and not sE) else
                                                          "F x" if not sS else "exogenous only" if (hE and not sE) else "nothing written"))
        elif group == "kfp":
            tags.append("KFPrediction:skip mode %s%s%s" % (("none", "prediction", "state", "exogenous")[int(t[11])], " +exo" if int(t[12]) else "", " in place" if int(t[13]) else ""))
        elif group in ("glik", "boot"):
            mv, pv, iv = int(t[-3]), int(t[-2]), int(t[-1])
            tags.append("GaussianLikelihood:" + ("no measurement" if not mv else "no prediction" if not pv else "no innovation" if not iv else "evaluated"))
        elif group == "gpfc":
            tags.append("GPFCorrection:" + ("weights updated" if int(t[6]) else "likelihood unavailable -> copy") + (" in place" if int(t[7]) else ""))
        elif group == "sis":
            tags.append("SIS:%d filtering step(s)" % int(t[8]))
        elif group in ("ukf_seq", "sukf_seq", "kf_seq"):
            toks = hp.split()
            prev_ok = False
            for x in toks:
                f = x.split(":")
                ok = f[2] == "1"
                if prev_ok and not ok:
                    tags.append("call sequence:likelihood withdrawn after a failed correction")
                elif prev_ok and ok:
                    tags.append("call sequence:likelihood available again / still")
                prev_ok = ok
        elif group == "gmaug":
            r1, c1, r2, c2 = int(t[5]), int(t[6]), int(t[7]), int(t[8])
            tags.append("augmentWithNoise:non-square -> false" if r1 != c1 else "augmentWithNoise:augmented")
            if r2 + c2 > 0:
                tags.append("augmentWithNoise:second augmentation")
            if int(t[1]) > 1:
                tags.append("augmentWithNoise:blocks moved right to left")
        elif group in ("gmresize", "psresize"):
            off = 6 if group == "gmresize" else 5
            K, dl, dc = int(t[1]), int(t[2]), int(t[3])
            K2, dl2, dc2 = int(t[off]), int(t[off + 1]), int(t[off + 2])
            q = int(t[4])
            if (K, dl, dc) == (K2, dl2, dc2):
                tags.append("resize:nothing to do")
            elif dim_of(dl, dc, q) == dim_of(dl2, dc2, q) and dcov_of(dl, dc, q) == dcov_of(dl2, dc2, q) and K != K2:
                tags.append("resize:conservative (components only)")
            else:
                tags.append("resize:full")
        elif group in ("ut", "utmm"):
            if hk == "ok" and hp.split()[:1] == ["0"]:
                tags.append("unscented_transform:function evaluation failed -> (false, default, 0x0)")
            elif hk == "ok":
                tags.append("unscented_transform:evaluated")
        elif group in ("ee", "ee_perturbed"):
            names = ["mean", "smean", "wmean", "emean", "mode", "smode", "wmode", "emode", "map", "smap", "wmap", "emap"]
            m, full = int(t[3]), int(t[4])
            tags.append("extract:%s%s" % (names[m], " (5 args)" if full else ""))
            if m >= 8 and not full:
                tags.append("extract:map-based method without previous weights -> not available")
            if int(t[6]) == 1 and int(t[2]) > 0:
                tags.append("directional_mean:single column shortcut")
        elif group == "rs":
            tags.append("Resampling:weights " + WEIGHT_PROFILES.get(int(t[10]), "?"))
        elif group == "rwp":
            tags.append("ResamplingWithPrior:weights " + WEIGHT_PROFILES.get(int(t[10]), "?"))
            N, a, b = int(t[1]), int(t[2]), int(t[3])
            p = N * a // b
            tags.append("ResamplingWithPrior:no prior particles" if p == 0 else "ResamplingWithPrior:prior + resampled")
            if p > 0 and int(t[7]) * int(t[8]) == p:
                tags.append("ResamplingWithPrior:initialiser accepts the prior subset")
            elif p > 0:
                tags.append("ResamplingWithPrior:initialiser refuses (ignored)")
        elif group == "sp":
            dl, dc, q, dn = int(t[2]), int(t[3]), int(t[4]), int(t[5])
            if dl:
                tags.append("sigma_point:linear block")
            if dc:
                tags.append("sigma_point:quaternion blocks" if q else "sigma_point:euler block")
            if dn:
                tags.append("sigma_point:noise block")
    except (ValueError, IndexError):
        pass
    return tags


ENTRY = {
    "wna_noise": "WhiteNoiseAcceleration::getNoiseSample", "wna_move": "WhiteNoiseAcceleration (moved) ::getNoiseSample",
    "wna_motion": "WhiteNoiseAcceleration::motion", "wna_tp": "WhiteNoiseAcceleration::getTransitionProbability",
    "lm": "LinearModel ctor/getNoiseSample/predictedMeasure", "ssm": "SimulatedStateModel ctor/bufferData", "ssmlog": "SimulatedStateModel::log",
    "sls": "SimulatedLinearSensor ctor/freeze", "hist": "HistoryBuffer", "grid": "InitSurveillanceAreaGrid::initialize",
    "sp": "sigma_point", "gmaug": "GaussianMixture::augmentWithNoise", "utw": "UTWeight", "ut": "unscented_transform (generic)",
    "utwna": "unscented_transform (WhiteNoiseAcceleration)", "utsm": "unscented_transform (state model overloads)",
    "utmm": "unscented_transform (measurement model overloads)", "ukf_add": "UKFCorrection (additive)", "ukf_gen": "UKFCorrection (generic)",
    "sukf": "SUKFCorrection", "corr_flags": "correction step (early returns)", "corr_perturbed": "correction step", "kf": "KFCorrection",
    "gmacc": "GaussianMixture accessors", "psacc": "ParticleSet accessors", "gmresize": "GaussianMixture::resize", "psresize": "ParticleSet::resize",
    "psadd": "ParticleSet::operator+=", "rs": "Resampling::resample", "rwp": "ResamplingWithPrior::resample", "ee": "EstimatesExtraction::extract",
    "ee_perturbed": "EstimatesExtraction::extract", "eefn": "EstimatesExtraction::mean/mode/map", "gpfmove": "GPFCorrection (moved) ::sampleFromProposal",
    "gpfsample": "GPFCorrection::sampleFromProposal", "wna_seq": "WhiteNoiseAcceleration::getNoiseSample/motion (call sequence on one object)",
    "lm_seq": "LinearModel::getNoiseSample (call sequence on one object)", "ukf_seq": "UKFCorrection::correct/getLikelihood (call sequence on one object)",
    "sukf_seq": "SUKFCorrection::correct/getLikelihood (call sequence on one object)", "kf_seq": "KFCorrection::correct/getLikelihood (call sequence on one object)",
    "boot_seq": "BootstrapCorrection::correct/getLikelihood (call sequence on one object)", "gpfc_seq": "GPFCorrection::correct/getLikelihood (call sequence on one object)",
    "ee_seq": "EstimatesExtraction::setMethod/extract/getInfo (call sequence on one object)",
    "linprop": "LinearStateModel::propagate", "kfp": "KFPrediction::predict", "gpfp": "GPFPrediction::predict", "ukfp_gen": "UKFPrediction::predict (generic)",
    "ukfp_add": "UKFPrediction::predict (additive)", "draw": "DrawParticles::predict", "glik": "GaussianLikelihood::likelihood",
    "boot": "BootstrapCorrection::correct/getLikelihood", "gpfc": "GPFCorrection::correct", "sis": "SIS (initialisation + filtering steps, real thread)",
    "handover": "object handed over by move / copy (source of another configuration), then used",
    "eehand": "EstimatesExtraction (extractions, window changes, move construction / assignment / self move)",
    "logger": "Logger::enable_log/disable_log/logger (file streams indexed by position)",
    "gfilter": "GaussianFilter::skip + filtering steps (KFPrediction, KFCorrection; real thread)",
    "pfilter": "ParticleFilter::skip + SIS filtering steps (real thread)",
    "defaults": "default (throwing) virtuals of StateModel / MeasurementModel / GaussianCorrection through shipped classes",
    "likq": "getLikelihood() after the measurement model changed its size (at once / after a skipped correct() / after correct())",
    "psaddself": "ParticleSet::operator+= (a += a)", "gmaugalias": "GaussianMixture::augmentWithNoise(own covariance block)",
}


def group_of(line):
    """entry-point group of a corpus / replay line, from its op"""
    t = line.split()
    op = t[0][2:] if t[0].startswith("b_") else t[0]
    if op == "ukfc":
        return ("ukf_gen", "ukf_add", "sukf")[min(int(t[1]), 2)]
    if op == "corrseq":
        return ("ukf_seq", "ukf_seq", "sukf_seq", "kf_seq")[min(int(t[1]), 3)]
    if op == "ukfcmv":
        return ("ukf_gen", "ukf_add", "sukf")[min(int(t[1]), 2)]
    return {"kfc": "kf", "lm2": "lm"}.get(op, op)


def run(ctx):
    ctx.proof_stage()
    binary = vlib.build_harness(H)
    cases = []
    if ctx.replay:
        rp = json.loads(open(ctx.replay).read())
        line = rp.get("replay", {}).get("input_line")
        cases = [(line, rp.get("replay", {}).get("group") or group_of(line))] if line else []
    else:
        corpus = vlib.VERIF / "corpus" / "C14" / "cases.txt"
        if corpus.exists():
            cases += [(ln.strip(), group_of(ln)) for ln in corpus.read_text().split("\n") if ln.strip() and not ln.startswith("#")]
        cases += WITNESSES
        for gen in GENERATORS:
            cases += gen(ctx)
    # distinct lines, first occurrence wins
    seen, uniq = set(), []
    for line, group in cases:
        key = " ".join(line.split())
        if key not in seen:
            seen.add(key)
            uniq.append((key, group))
    cases = uniq
    lines = [c[0] for c in cases]
    import os, shutil
    logdirs = set(ln.split()[1] for ln in lines if ln.startswith("b_logger ") and len(ln.split()) > 1)
    for d in logdirs:                      # Logger cases write into a temporary directory under the build dir, removed afterwards
        if os.path.realpath(d).startswith(os.path.realpath(str(vlib.BUILD))):
            os.makedirs(d, exist_ok=True)
    try:
        houts, logs = par_harness(binary, lines)
        # static / thread-local scratch state: ordered sequences run by ONE process (not deduplicated, not sliced)
        seq_cases = [] if ctx.replay else gen_static_sequences(ctx)
        if seq_cases:
            so, sl = vlib.run_harness(binary, [c[0] for c in seq_cases], timeout=120)
            base = len(cases)
            houts += so
            for k, v in sl.items():
                logs[base + k] = v
            cases += seq_cases
            lines += [c[0] for c in seq_cases]
    finally:
        for d in logdirs:
            if os.path.realpath(d).startswith(os.path.realpath(str(vlib.BUILD))):
                shutil.rmtree(d, ignore_errors=True)
    douts = vlib.run_driver(lines)

    hist_group, hist_outcome = {}, {}
    valid_clean = valid_abort = invalid_abort = invalid_clean = throws = 0
    prop_bad, corr_bad, notes = [], [], []
    inv_agree = inv_total = 0
    branch_sites, branch_hits = {}, {}
    for i, ((line, group), h, d) in enumerate(zip(cases, houts, douts)):
        hist_group[group] = hist_group.get(group, 0) + 1
        valid, dk, dp = parse_driver(d)
        hk, hp = parse_harness(h)
        if dk == "bad" or hk == "bad":
            corr_bad.append(("protocol:" + group, "harness/driver did not understand the case (%s | %s)" % (h[:60], d[:60]), line, h, d))
            continue
        if dk == "abort":
            branch_sites[dp] = branch_sites.get(dp, 0) + 1
        agree = (hk == dk) and (hk != "ok" or hp.split() == dp.split())
        oc = "%s/%s" % ("valid" if valid else "invalid", hk)
        hist_outcome[oc] = hist_outcome.get(oc, 0) + 1
        name = ENTRY.get(group, group)
        for tag in branch_tags(line, group, hk, hp):
            branch_hits[tag] = branch_hits.get(tag, 0) + 1
        if valid:
            if hk == "abort":
                valid_abort += 1
                key = finding_key(line, group)
                what = "%s aborts under assertions/sanitizers on a configuration that satisfies its documented precondition (%s; %s)" % (
                    name, h.strip(), crash_detail(logs.get(i)))
                what += "; the shape model " + ("predicts it: " + dp if dk == "abort" else "predicts a clean run (an operation was added or changed that the transcription does not contain)")
                prop_bad.append((key, what, line, group, h, d, logs.get(i, "")))
            elif hk == "ok" and dk == "abort":
                valid_clean += 1
                notes.append("model pessimistic on a valid configuration (implementation ran clean): %s | model: %s" % (line, dp))
            elif not agree:
                valid_clean += 1
                if group in ("ssm", "sls") and hk == "ok" and dk == "ok":
                    prop_bad.append(("%s:exhaustion-not-reported" % group,
                                     "%s: the sequence of return values / data shapes differs from the proved one (exhaustion must be reported through the return value): implementation `%s`, model `%s`" % (name, hp, dp),
                                     line, group, h, d, ""))
                else:
                    corr_bad.append(("correspondence:" + group, "%s: implementation `%s` vs model `%s`" % (name, h.strip()[:200], d.strip()[:200]), line, h, d))
            else:
                valid_clean += 1
                if hk == "throw":
                    throws += 1
        else:
            inv_total += 1
            if hk == "abort":
                invalid_abort += 1
            else:
                invalid_clean += 1
            if agree:
                inv_agree += 1
            else:
                notes.append("outside the precondition, model and implementation differ (not an alarm): %s | impl: %s | model: %s" % (line, h.strip()[:80], d.strip()[:120]))

    reported = set()
    for key, what, line, group, h, d, log in prop_bad:
        if key in reported and len(reported) > 40:
            continue
        reported.add(key)
        ctx.violation(key, what, {"harness": H, "input_line": line, "group": group, "observed": h.strip()[:500], "model": d.strip()[:500],
                                  "sanitizer_log_tail": (log or "")[-1500:]})
    seen_corr = set()
    for key, what, line, h, d in corr_bad:
        if key in seen_corr:
            continue
        seen_corr.add(key)
        n_same = sum(1 for c in corr_bad if c[0] == key)
        ctx.violation(key, "model and implementation disagree on %d configuration(s) satisfying the precondition, no abort observed: %s" % (n_same, what),
                      {"harness": H, "input_line": line, "observed": h.strip()[:500], "model": d.strip()[:500],
                       "all_disagreeing_inputs": [c[2] for c in corr_bad if c[0] == key][:50]}, no_input=True)

    if ctx.tier == "thorough" and not ctx.replay:
        bad = vlib.leanchecker(LEAN_MODULES)
        ctx.coverage["leanchecker"] = {"modules": LEAN_MODULES, "failed": [m for m, _ in bad]}
        if bad:
            ctx.violation("leanchecker", "independent re-check of the compiled proofs failed: %s" % bad[0][1][-300:], {"modules": [m for m, _ in bad]}, no_input=True)

    agg = aggregate_other_evidence()
    nontrivial = sum(1 for (l, g) in cases if g not in ("utw",))
    ctx.coverage.update({
        "evaluations": len(cases), "distinct_nontrivial": nontrivial,
        "rule": "enumerated configuration spaces (all Dim x sample counts 0..3; all measured-component subsets of states of size <= 5 x noise sizes; trajectory lengths 0..4 x "
                "bufferData/freeze calls beyond the end; HistoryBuffer windows 0..33 x fill levels 0..33 (%s) + random operation sequences; grids 0..3 x 0..3 x state layouts; "
                "layouts linear 0..4 x circular 0..2 x Euler/quaternion x noise 0..3 for sigma_point / unscented_transform / augmentWithNoise, component counts 0..4; state x measurement "
                "layouts x {UKF generic, UKF additive, SUKF with every sub-size 0..M+1 reduced/full, KF}; container accessors / resize / +=; N 0..10 x prior ratios x layouts x grids for "
                "resampling; 12 extraction methods x both overloads x windows shorter than the call sequence) plus perturbations of each shape parameter (invalid side of the tie) and the "
                "witnesses of the counterexample theorems; distinct = distinct case lines; non-trivial = every case except the UTWeight size probes" % (
                    "complete" if ctx.tier == "thorough" else "boundary rows/columns + a seed-dependent diagonal"),
        "samples": [lines[0], lines[len(lines) // 3], lines[2 * len(lines) // 3], lines[-1]],
        "exhaustive": False,
        "traces_validated_against_impl": len(cases),
        "entry_point_histogram": hist_group, "outcome_histogram": hist_outcome,
        "valid_configurations_clean": valid_clean, "valid_configurations_aborting": valid_abort,
        "invalid_configurations_aborting": invalid_abort, "invalid_configurations_clean": invalid_clean,
        "exceptions_reported": throws,
        "invalid_side_agreement": "%d/%d" % (inv_agree, inv_total),
        "model_first_violated_site_histogram": dict(sorted(branch_sites.items(), key=lambda kv: -kv[1])[:60]),
        "distinct_violated_sites_hit": len(branch_sites),
        "branch_histogram": dict(sorted(branch_hits.items())),
        "model_vs_impl_disagreements_on_valid": len(corr_bad), "property_failures_on_impl": len(prop_bad),
        "sanitizer_crashes": len(logs),
        "sanitizer_crashes_on_valid_input": valid_abort,
        "other_properties_dbg_runs": agg,
    })
    ctx.notes += notes[:40]
    if len(notes) > 40:
        ctx.notes.append("... %d further notes" % (len(notes) - 40))
    ctx.assumptions += [
        "PARTIAL: the theorems are about the transcribed dimension arithmetic of the listed functions; memory safety of Eigen / libstdc++ and of un-transcribed code is covered only dynamically (sanitizer builds)",
        "data-dependent indices (resampling parent index, arg-max of weights / MAP values) are transcribed at their extreme admissible value; the harness makes that value occur",
        "Valid = shapes matching the declared descriptions, >= 1 component / particle, non-degenerate dimension, prior ratio in [0, 1), SUKF sub-size >= 1 (documented), indices in range",
    ]
