"""C15 — Gaussian density utilities agree with their definition and with each other; log-sum-exp.

Tie: the `bfl::utils::` templates (harness h_density) and the Lean model (driver ops ld/uvr/lse/lsex,
executed over Rat with only log/exp in Float) are fed the same lines.
Oracle (independent of the model and of the code's algorithm): determinant and quadratic form of the
assembled S exactly over Python Fractions, final log/exp in double; log-sum-exp literally as
log(sum(exp(x_i))) (no shift) in 60-digit decimal arithmetic.
Only the values the property speaks about are compared: log-densities, densities, log-sum-exp values.
"""
import decimal
import json
import math
from fractions import Fraction

import vlib
from vlib import hexd, frac, frac_of_hex, unhex

EPS = 2.0 ** -52
NEG_INF_HEX = "fff0000000000000"
LOG2PI = math.log(2.0 * math.pi)
# results below the smallest normal double are compared absolutely: Eigen's vectorised exp clamps its
# argument and returns ~5.6e-309 instead of 0 for very negative log-densities (observed; immaterial)
TINY = 2.3e-308


# ----------------------------------------------------------------------------- exact helpers

def run_driver_parallel(lines, jobs=None):
    """the exact-rational model runs are independent: several driver processes, outputs in input order"""
    from concurrent.futures import ThreadPoolExecutor
    jobs = jobs or max(1, min(12, vlib.NPROC - 2))
    if len(lines) < 2 * jobs:
        return vlib.run_driver(lines)
    chunks = [lines[i::jobs] for i in range(jobs)]
    with ThreadPoolExecutor(max_workers=jobs) as ex:
        outs = list(ex.map(vlib.run_driver, chunks))
    res = [None] * len(lines)
    for i, o in enumerate(outs):
        res[i::jobs] = o
    return res



def det_frac(A):
    n = len(A)
    M = [[Fraction(x) for x in row] for row in A]
    d = Fraction(1)
    for c in range(n):
        p = next((r for r in range(c, n) if M[r][c] != 0), None)
        if p is None:
            return Fraction(0)
        if p != c:
            M[c], M[p] = M[p], M[c]
            d = -d
        d *= M[c][c]
        for r in range(c + 1, n):
            f = M[r][c] / M[c][c]
            if f:
                M[r] = [a - f * b for a, b in zip(M[r], M[c])]
    return d


def ninf(A):
    return max((sum(abs(float(x)) for x in row) for row in A), default=0.0)


def kappa_inf(A, Ai):
    return max(1.0, ninf(A) * ninf(Ai))


def fabs(A):
    return [[abs(float(x)) for x in row] for row in A]


def flog(q):
    """log of a positive Fraction in double, also when it is outside the double range"""
    q = Fraction(q)
    if q <= 0:
        return float("nan")
    n, d = q.numerator, q.denominator
    sh = n.bit_length() - d.bit_length()
    if sh >= 0:
        r = Fraction(n, d << sh)
    else:
        r = Fraction(n << (-sh), d)
    return math.log(float(r)) + sh * math.log(2.0)


def is_pd_sym(A):
    n = len(A)
    S = [[(Fraction(A[i][j]) + Fraction(A[j][i])) / 2 for j in range(n)] for i in range(n)]
    piv = vlib.ldl_pivots_frac(S)
    return piv is not None and all(p > 0 for p in piv)


# ----------------------------------------------------------------------------- generators

def gen_points(g, d, b, style):
    r = g.r
    if style == "dyadic":
        m = [g.dyadic(-4, 4, 3) for _ in range(d)]
        x = [[g.dyadic(-4, 4, 3) for _ in range(b)] for _ in range(d)]
    else:
        sc = r.choice([1.0, 1.0, 10.0, 1e2, 1e4]) if style == "bigmag" else r.choice([0.5, 2.0, 4.0])
        m = [r.uniform(-sc, sc) for _ in range(d)]
        # points around the mean at a few standard deviations, plus far ones
        x = [[m[i] + r.uniform(-3, 3) * r.choice([0.1, 1.0, 1.0, 3.0]) for _ in range(b)] for i in range(d)]
        if style == "bigmag":
            x = [[r.uniform(-sc, sc) for _ in range(b)] for _ in range(d)]
    if b > 1 and r.random() < 0.3:
        for i in range(d):
            x[i][0] = m[i]            # one column exactly at the mean: quadratic form 0
    if b > 1 and r.random() < 0.25:
        j = r.randrange(1, b)         # near-duplicate columns: equal, or equal up to a relative 1e-9
        eps = r.choice([0.0, 1e-9])
        for i in range(d):
            x[i][j] = x[i][j - 1] * (1 + eps)
    return x, m


def batch_size(r):
    """1..5 mostly; exactly 2; 16 / 17 / 33 columns (vectorised code paths and their tails)"""
    return r.choice([1, 2, 2, 3, 4, 5, r.randint(1, 5), 16, 17, 33])


CHUNK_BATCHES = [255, 256, 257, 512, 64, 128, 1024, 1023, 0, 129]      # class p: multiples of 64 / 128 / 256 and +-1; the empty batch


def gen_ld(g, tier, idx, b_force=None):
    r = g.r
    big = 6 if tier == "quick" else 8
    style = r.choice(["dyadic", "full", "full", "illcond", "illcond", "scalar", "bigmag", "tinydet", "hugedet"])
    d = 1 if style == "scalar" else (idx % big + 1 if idx < 2 * big else r.randint(1, big))
    b = batch_size(r)
    if b_force is not None:
        b = b_force
        d = r.randint(1, 4)
    if style == "dyadic":
        S = g.spd_dyadic(d)
    elif style == "illcond":
        S = g.spd(d, cond=10 ** r.uniform(4, 6))
    elif style == "tinydet":
        S = g.spd(d, cond=10 ** r.uniform(0, 3), scale=10 ** r.uniform(-10, -4))
    elif style == "hugedet":
        S = g.spd(d, cond=10 ** r.uniform(0, 3), scale=10 ** r.uniform(4, 10))
    else:
        S = g.spd(d)
    x, m = gen_points(g, d, b, style)
    if style in ("tinydet", "hugedet"):
        s = math.sqrt(max(S[i][i] for i in range(d)))
        x = [[m[i] + (x[i][c] - m[i]) * s for c in range(b)] for i in range(d)]
    toks = ["ld", str(d), str(b)] + vlib.fmt_mat_cm(x) + [hexd(v) for v in m] + vlib.fmt_mat_cm(S)
    return " ".join(toks), {"op": "ld", "style": style, "d": d, "b": b, "cols": b_force is not None or r.random() < 0.25}


def divisors(d):
    return [k for k in range(1, d + 1) if d % k == 0]


def gen_uvr(g, tier, idx, b_force=None):
    r = g.r
    big = 6 if tier == "quick" else 8
    if b_force is not None:
        big = 4
    for _attempt in range(50):
        style = r.choice(["dyadic", "full", "full", "VeqUt", "kwide", "dominantUV", "indefW", "illR", "isoR", "scaled", "samediag", "samediag", "lastdiffers", "sametrace", "indefR", "indefR", "nearblocks"])
        # every (dimension, block size dividing it, encoding) triple first, then random ones
        triples = [(dd, v, e) for dd in range(1, big + 1) for v in divisors(dd) for e in (0, 1)]
        if idx < len(triples):
            d, bs, enc = triples[idx]
        else:
            d = r.randint(1, big)
            divs = divisors(d)
            enc = r.randint(0, 1)
            proper = [v for v in divs if v < d]
            bs = r.choice(proper) if (proper and r.random() < 0.7) else r.choice(divs + [1, d])
        if style in ("samediag", "lastdiffers", "sametrace", "nearblocks") and idx >= len(triples):
            # these need a row of >= 2 blocks (of size >= 2 for the first and the last)
            d = r.choice([4, 6, 6] + ([8] if big >= 8 else []))
            bs = r.choice([v for v in divisors(d) if 2 <= v < d]) if style != "lastdiffers" else r.choice([v for v in divisors(d) if v < d])
            enc = 1
        nb = d // bs
        k = r.randint(d + 1, d + 3) if style == "kwide" else r.randint(1, max(1, d + 1))
        if style == "indefR":
            k = d + r.randint(0, 1)
        b = batch_size(r) if b_force is None else b_force
        if b_force is not None:
            k = min(k, 4)
        unit = 10 ** r.uniform(-5, 5) if style == "scaled" else 1.0      # S scales by unit^2 (1e-10 .. 1e10), the points by unit
        nblk = 1 if enc == 0 else nb
        if style == "dyadic":
            blocks = [g.spd_dyadic(bs, 3) for _ in range(nblk)]
            U = [[g.dyadic(-2, 2, 2) for _ in range(k)] for _ in range(d)]
            W = [[0.0] * k for _ in range(k)]
            for i in range(k):
                W[i][i] = r.choice([0.5, 1.0, 2.0])
            if k > 1 and r.random() < 0.5:
                W[0][1] = W[1][0] = 0.25
        else:
            condR = 10 ** r.uniform(2, 4) if style == "illR" else 10 ** r.uniform(0, 2)
            blocks = [g.spd(bs, cond=condR, scale=10 ** r.uniform(-1, 1)) for _ in range(nblk)]
            if style == "isoR":       # isotropic blocks sigma_i^2 I (distinct sigma_i)
                blocks = [[[(10 ** r.uniform(-1, 1) if a == c else 0.0) for c in range(bs)] for a in range(bs)] for _ in range(nblk)]
                blocks = [[[blk[0][0] if a == c else 0.0 for c in range(bs)] for a in range(bs)] for blk in blocks]
            if style == "samediag" and bs >= 2:
                # the blocks share their diagonal exactly (same variances) and differ in the correlations only
                sd = [10 ** r.uniform(-0.5, 0.5) for _ in range(bs)]
                blocks = []
                for i in range(nblk):
                    Cm = g.spd(bs, cond=10 ** r.uniform(0.3, 1.5), scale=1.0)
                    dg = [math.sqrt(Cm[a][a]) for a in range(bs)]
                    blocks.append([[(sd[a] * sd[a]) if a == c else sd[a] * sd[c] * Cm[min(a, c)][max(a, c)] / (dg[a] * dg[c]) for c in range(bs)] for a in range(bs)])
            elif style == "lastdiffers" and nblk >= 2:
                blocks = [[list(row) for row in blocks[0]] for _ in range(nblk - 1)] + [blocks[-1]]      # all blocks equal except the last
            elif style == "nearblocks" and nblk >= 2:
                # consecutive blocks equal up to a relative 1e-6 .. 1e-10 in ONE entry of the diagonal (the smallest one):
                # "isApprox-equal" blocks are different blocks
                b0 = blocks[0]
                blocks = []
                for i in range(nblk):
                    blk = [list(row) for row in b0]
                    a = min(range(bs), key=lambda t: b0[t][t])
                    blk[a][a] = b0[a][a] * (1.0 + i * r.choice([1e-6, 1e-7, 1e-8]))
                    blocks.append(blk)
            elif style == "sametrace" and bs >= 2 and nblk >= 2:
                t0 = sum(blocks[0][a][a] for a in range(bs))                                                # same trace, different blocks
                blocks = [blocks[0]] + [[[v * t0 / sum(blk[a][a] for a in range(bs)) for v in row] for row in blk] for blk in blocks[1:]]
            su = 10 ** r.uniform(0.5, 1.5) if style == "dominantUV" else 10 ** r.uniform(-1, 0.5)
            U = [[r.uniform(-su, su) for _ in range(k)] for _ in range(d)]
            if style == "indefR":
                # R symmetric, invertible, well conditioned but NOT positive definite: some blocks get a negative
                # direction (negative determinant for one direction, positive again for two); S = U V + R is positive
                # definite all the same because U V dominates.  Only S is required to be positive definite.
                which = [i for i in range(nblk) if r.random() < 0.6] or [r.randrange(nblk)]
                for i in which:
                    blk = blocks[i]
                    for a in r.sample(range(bs), r.choice([1, 1, min(2, bs)])):
                        cdrop = r.uniform(1.5, 3.0) * blk[a][a]
                        blk[a][a] -= cdrop
                rmax = max(abs(v) for blk in blocks for row in blk for v in row)
                su = 1.0
                U = [[(1.0 if a == c else 0.0) + r.uniform(-0.3, 0.3) for c in range(k)] for a in range(d)]
            if style == "VeqUt":
                W = vlib.meye(k)
            elif style == "indefR":
                W = g.spd(k, cond=10 ** r.uniform(0, 1), scale=rmax * 10 ** r.uniform(0.8, 1.6))
            elif style == "indefW":
                W = g.spd(k, cond=10 ** r.uniform(0, 1), scale=1.0)
                j = r.randrange(k)
                # a small negative direction: S stays positive definite only if it is dominated by R (checked below)
                W[j][j] -= 1.02 * W[j][j]
                W = [[w * 0.05 for w in row] for row in W]
            else:
                W = g.spd(k, cond=10 ** r.uniform(0, 2), scale=10 ** r.uniform(-1, 1))
        if unit != 1.0:
            U = [[v * unit for v in row] for row in U]
            blocks = [[[v * unit * unit for v in row] for row in blk] for blk in blocks]
        V = vlib.mmul(W, vlib.mT(U))          # general V = W U^T (V = U^T only for style VeqUt)
        Rfull = [[Fraction(0)] * d for _ in range(d)]
        for i in range(nb):
            blk = blocks[0] if enc == 0 else blocks[i]
            for a in range(bs):
                for c in range(bs):
                    Rfull[bs * i + a][bs * i + c] = Fraction(blk[a][c])
        Uf = [[Fraction(v) for v in row] for row in U]
        Vf = [[Fraction(v) for v in row] for row in V]
        S = vlib.madd(vlib.mmul(Uf, Vf), Rfull)
        Si = vlib.minv_frac(S)
        if Si is None or not is_pd_sym(S):
            continue
        if kappa_inf(S, Si) > 1e6:
            continue
        Sf = [[float(v) for v in row] for row in S]
        x, m = gen_points(g, d, b, "dyadic" if style == "dyadic" else "full")
        s = math.sqrt(max(Sf[i][i] for i in range(d)))
        if style != "dyadic":
            m = [v * unit for v in m]
            x = [[m[i] + (x[i][c] * unit - m[i]) * (s / unit if unit != 1.0 else s) for c in range(b)] for i in range(d)]
        Rtok = vlib.fmt_mat_cm(blocks[0]) if enc == 0 else [hexd(blocks[i][a][c]) for i in range(nb) for c in range(bs) for a in range(bs)]
        toks = ["uvr", str(nb), str(bs), str(k), str(b), str(enc)] + vlib.fmt_mat_cm(x) + [hexd(v) for v in m] \
            + vlib.fmt_mat_cm(U) + vlib.fmt_mat_cm(V) + Rtok
        return " ".join(toks), {"op": "uvr", "style": style, "d": d, "nb": nb, "bs": bs, "k": k, "b": b, "enc": enc,
                                "cols": b_force is not None or r.random() < 0.25}
    raise RuntimeError("uvr generator: no admissible case in 50 attempts")


def gen_lse(g, tier, idx):
    r = g.r
    big = 8 if tier == "quick" else 40
    style = r.choice(["moderate", "huge", "spread", "neginf", "neginf", "equal", "single", "negbig", "posbig", "lonelyfinite", "mixed", "matrix"])
    n = 1 if style == "single" else (idx % big + 1 if idx < big else r.choice([r.randint(1, big), r.randint(1, big), 2, 16, 17, 33]))
    if style == "moderate":
        x = [r.uniform(-30, 30) for _ in range(n)]
    elif style == "huge":
        x = [r.uniform(9e3, 1e4) * r.choice([1, 1, -1]) for _ in range(n)]
    elif style == "spread":
        x = [r.choice([1e4, -1e4, r.uniform(-1e4, 1e4)]) for _ in range(n)]
        if n >= 2:
            i, j = r.sample(range(n), 2)
            x[i], x[j] = 1e4, -1e4
    elif style == "equal":
        v = r.uniform(-1e4, 1e4)
        x = [v] * n
    elif style == "negbig":       # every finite entry below -745: exp underflows without the shift
        lo = r.choice([-1e4, -2000.0, -810.0])
        x = [r.uniform(lo, lo + r.choice([1.0, 10.0, 50.0])) for _ in range(n)]
    elif style == "posbig":       # every entry above +710: exp overflows without the shift
        lo = r.choice([9e3, 2000.0, 711.0])
        x = [r.uniform(lo, lo + r.choice([1.0, 10.0, 50.0])) for _ in range(n)]
    elif style == "lonelyfinite":  # one finite (very negative) entry among -inf entries
        x = [-math.inf] * n
        x[r.randrange(n)] = r.choice([-1000.0, -1e4, r.uniform(-1e4, -746.0)])
    elif style == "single":
        x = [r.choice([0.0, 1e4, -1e4, r.uniform(-1e4, 1e4)])]
    elif style == "mixed":
        x = [r.choice([r.uniform(-1, 1), r.uniform(-800, -600), r.uniform(600, 800), r.uniform(-1e4, 1e4)]) for _ in range(n)]
    elif style == "matrix":
        x = [r.uniform(-50, 50) * r.choice([1, 1, 100]) for _ in range(n)]
    else:  # neginf: log-weights with zero-probability entries
        x = [r.uniform(-1e4, 1e4) if r.random() < 0.5 else -math.inf for _ in range(n)]
        x[r.randrange(n)] = r.choice([0.0, r.uniform(-1e4, 1e4), r.uniform(-800, -700)])   # at least one finite entry
        if n >= 2 and r.random() < 0.5:      # the first entry -inf: the running maximum starts at -inf
            j = next(i for i in range(n) if x[i] != -math.inf)
            if j != 0:
                x[0] = -math.inf
            elif n >= 2:
                x[0], x[1] = -math.inf, x[0]
    c = r.choice([0.0, 1.0, -3.5, 1000.0, -5000.0, r.uniform(-100, 100)])
    meta = {"op": "lse", "style": style, "n": n, "shift": c}
    if style == "matrix" and n >= 2:
        rr = r.choice([k for k in range(1, n + 1) if n % k == 0])
        meta["shape"] = [rr, n // rr]
    return " ".join(["lse", str(n)] + [hexd(v) for v in x]), meta


def gen_lse_long(g, kind, n):
    """class p / r4: long vectors (>= 20000 entries): a few entries at the maximum, the bulk 15 .. 40 below it
    (individually ~1e-7 .. 1e-18 of the sum, collectively visible), ties at the maximum at chunk boundaries"""
    r = g.r
    top = r.choice([0.0, 9000.0, -9000.0, r.uniform(-1e3, 1e3)])
    if kind == "band":
        x = [top - r.uniform(15.0, 40.0) for _ in range(n)]
        x[r.randrange(n)] = top
    elif kind == "bandties":
        x = [top - r.uniform(15.0, 40.0) for _ in range(n)]
        for p_ in (0, n - 1, 255, 256, 4095, 4096, n // 2, r.randrange(n)):
            x[p_] = top
    elif kind == "band16":          # everything 16 .. 20 below one maximum
        x = [top - r.uniform(16.0, 20.0) for _ in range(n)]
        x[r.choice([0, n - 1, r.randrange(n)])] = top
    elif kind == "allequal":
        x = [top] * n
    else:                           # "mixedlong": ordinary log-weights, some -inf, the bulk far below
        x = [top - r.choice([r.uniform(0, 5), r.uniform(15, 40), r.uniform(100, 2000), math.inf]) for _ in range(n)]
        x[r.randrange(n)] = top
    c = r.choice([1.0, -3.5, 1000.0, r.uniform(-100, 100)])
    meta = {"op": "lse", "style": "long-" + kind, "n": n, "shift": c}
    rr = r.choice([k for k in (2, 4, 100, 128, 256) if n % k == 0] or [1])
    meta["shape"] = [rr, n // rr]
    return " ".join(["lse", str(n)] + [hexd(v) for v in x]), meta


def gen_lse_ties(g):
    """ties at the maximum at every position and every pair of positions, n = 2 .. 9, 16, 17 (enumerated on every run);
    the other entries 0.5 .. 30 below"""
    r = g.r
    out = []
    for n in list(range(2, 10)) + [16, 17]:
        pos = [(p_,) for p_ in range(n)] + [(p_, q_) for p_ in range(n) for q_ in range(p_ + 1, n)]
        if n >= 16:
            pos = [(p_,) for p_ in range(n)] + [(p_, p_ + 1) for p_ in range(n - 1)] + [(0, n - 1), (0, 8), (7, 15), (0, 1, n - 1)]
        for ps in pos:
            top = r.choice([0.0, 3.25, -700.0, 5000.0, r.uniform(-50, 50)])
            x = [top - r.choice([r.uniform(0.5, 3.0), r.uniform(15.0, 30.0)]) for _ in range(n)]
            for p_ in ps:
                x[p_] = top
            out.append((" ".join(["lse", str(n)] + [hexd(v) for v in x]),
                        {"op": "lse", "style": "ties%d" % len(ps), "n": n, "shift": r.choice([1.0, -3.5, 1000.0])}))
    return out


# ----------------------------------------------------------------------------- oracles

def dec_of_float(ctx, v):
    f = Fraction(v)
    return ctx.divide(ctx.create_decimal(f.numerator), ctx.create_decimal(f.denominator))


def lse_oracle_float(x):
    ctx = decimal.Context(prec=60, Emax=decimal.MAX_EMAX, Emin=decimal.MIN_EMIN)
    s = decimal.Decimal(0)
    for v in x:
        if v == -math.inf:
            continue
        s = ctx.add(s, ctx.exp(dec_of_float(ctx, v)))
    return ctx.ln(s)


def density_tolerances(d, S, Si, diffs, stats_key, stats):
    """per column: (q exact, tolerance on the log-density) for a direct evaluation that inverts S"""
    kS = kappa_inf(S, Si)
    aSi = fabs(Si)
    out = []
    for v in diffs:
        q = sum(v[i] * Si[i][j] * v[j] for i in range(d) for j in range(d))
        av = [abs(float(t)) for t in v]
        bq = sum(av[i] * aSi[i][j] * av[j] for i in range(d) for j in range(d))
        tol_q = 64 * EPS * d * kS * bq
        out.append((q, tol_q))
    stats[stats_key] = max(stats.get(stats_key, 0.0), kS)
    return kS, out


def logdet_tol(d, kS):
    # relative error of a computed determinant: LU ~ d*eps*cond; the closed-form cofactor expansions Eigen
    # uses for d <= 4 cancel more strongly on ill-conditioned matrices (observed up to ~cond^1.7*eps)
    return 64 * EPS * d * (kS + min(kS, 1e6) ** 1.75 * 1e-3)


def check_ld_like(tag, d, b, Lc, Dc, Lstar, tolL, probs, stats, what):
    """Lc, Dc implementation values; Lstar oracle log-densities; tolL tolerances"""
    for c in range(b):
        t = tolL[c] + 8 * EPS * abs(Lstar[c])
        stats["max_relerr_" + tag] = max(stats.get("max_relerr_" + tag, 0.0), abs(Lc[c] - Lstar[c]) / t if t > 0 else 0.0)
        if t > max(0.05, 1e-6 * abs(Lstar[c])):
            stats["skipped_too_illconditioned"] = stats.get("skipped_too_illconditioned", 0) + 1
            continue
        if not (abs(Lc[c] - Lstar[c]) <= t):
            probs.append(("prop", tag + "-logdensity-wrong", "%s: column %d: log-density %.17g, definition gives %.17g (tol %.3g)" % (what, c, Lc[c], Lstar[c], t)))
        want = math.exp(Lstar[c]) if Lstar[c] > -745.2 else 0.0
        td = want * math.expm1(min(50.0, t + 8 * EPS * abs(Lstar[c]))) + 8 * EPS * want + TINY
        if not (abs(Dc[c] - want) <= td):
            probs.append(("prop", tag + "-density-wrong", "%s: column %d: density %.17g, exp(definition) = %.17g (tol %.3g)" % (what, c, Dc[c], want, td)))
        # the density is the exponential of the log-density the same function family returns
        e = math.exp(Lc[c]) if Lc[c] == Lc[c] and Lc[c] < 709 else float("inf")
        if not (abs(Dc[c] - e) <= 16 * EPS * e * (1 + abs(Lc[c])) + TINY):
            probs.append(("prop", tag + "-density-not-exp-of-log", "%s: column %d: density %.17g but exp(log-density) = %.17g" % (what, c, Dc[c], e)))


def check_cols(tag, b, Lb, Db, hcols, dcols, tol, Lstar, probs, stats):
    """the batch call against one call per column (implementation vs implementation: batch independence, theorems
    logDensity_batch_map / uvr_batch_map), and the per-column model run against the per-column implementation run"""
    if not hcols.startswith("ok"):
        probs.append(("prop", "impl-crash", "one call per column failed on a valid input: %s" % hcols[:80]))
        return
    (Lc, Dc), _ = parse_vecs(hcols.split(), 1, 2)
    if len(Lc) != b or len(Dc) != b:
        probs.append(("prop", "batch-size", "one call per column of a batch of %d gave %d / %d values" % (b, len(Lc), len(Dc))))
        return
    stats["batch_vs_columns_compared"] = stats.get("batch_vs_columns_compared", 0) + b
    mL = None
    if dcols is not None and dcols.startswith("ok"):
        dt = dcols.split()
        mL = [unhex(v) for v in dt[1:1 + b]]
    elif dcols is not None:
        probs.append(("corr", "model-undefined", "per-column model run not defined on a valid input: %s" % dcols[:40]))
    for c in range(b):
        tt = 2 * tol[c] + 16 * EPS * abs(Lstar[c])
        if tt > max(0.05, 1e-6 * abs(Lstar[c])):
            continue
        if not (abs(Lb[c] - Lc[c]) <= tt):
            probs.append(("prop", tag + "-batch-not-map-of-columns", "column %d of a batch of %d: log-density %.17g in the batch, %.17g evaluated on its own (tol %.3g)" % (c, b, Lb[c], Lc[c], tt)))
        big = max(abs(Db[c]), abs(Dc[c]))
        if not (abs(Db[c] - Dc[c]) <= big * math.expm1(min(50.0, tt)) + TINY):
            probs.append(("prop", tag + "-batch-not-map-of-columns-density", "column %d of a batch of %d: density %.17g in the batch, %.17g evaluated on its own" % (c, b, Db[c], Dc[c])))
        if mL is not None and not (abs(Lc[c] - mL[c]) <= tol[c] + 8 * EPS * abs(Lstar[c])):
            probs.append(("corr", tag + "-cols-mismatch", "column %d evaluated on its own: implementation %.17g model %.17g" % (c, Lc[c], mL[c])))


def parse_vecs(tok, p, count):
    out = []
    for _ in range(count):
        n = int(tok[p]); p += 1
        out.append([unhex(x) for x in tok[p:p + n]]); p += n
    return out, p


def check_ld(line, meta, hout, dout, stats, hcols=None, dcols=None):
    probs = []
    t = line.split()
    d, b = int(t[1]), int(t[2])
    p = 3
    x = vlib.mat_from_cm(t[p:p + d * b], d, b, frac_of_hex); p += d * b
    m = [frac_of_hex(v) for v in t[p:p + d]]; p += d
    S = vlib.mat_from_cm(t[p:p + d * d], d, d, frac_of_hex)
    if not hout.startswith("ok"):
        return [("prop", "impl-crash", "density utilities failed on a valid input: %s" % hout[:80])]
    if not dout.startswith("ok"):
        return [("corr", "model-undefined", "model not defined on a valid input: %s" % dout[:40])]
    (Lc, Dc), _ = parse_vecs(hout.split(), 1, 2)
    if len(Lc) != b or len(Dc) != b:
        return [("prop", "batch-size", "batch of %d points gave %d / %d values" % (b, len(Lc), len(Dc)))]
    dt = dout.split()
    mdet = frac(dt[1]); mq = [frac(v) for v in dt[2:2 + b]]
    mL = [unhex(v) for v in dt[2 + b:2 + 2 * b]]; mD = [unhex(v) for v in dt[2 + 2 * b:2 + 3 * b]]
    # independent exact oracle
    Si = vlib.minv_frac(S)
    det = det_frac(S)
    diffs = [[x[i][c] - m[i] for i in range(d)] for c in range(b)]
    kS, qt = density_tolerances(d, S, Si, diffs, "max_kappa_S", stats)
    if det != mdet or [q for q, _ in qt] != mq:
        probs.append(("corr", "model-vs-exact-oracle", "determinant / quadratic form of the exact model run differ from the independent exact evaluation"))
    ld = flog(det)
    Lstar = [-0.5 * (d * LOG2PI + ld + float(q)) for q, _ in qt]
    tolL = [0.5 * (tq + logdet_tol(d, kS)) for _, tq in qt]
    check_ld_like("direct", d, b, Lc, Dc, Lstar, tolL, probs, stats, "multivariate_gaussian_(log_)density")
    # correspondence: model (exact but for log/exp) vs implementation
    for c in range(b):
        tt = tolL[c] + 8 * EPS * abs(Lstar[c])
        if tt > max(0.05, 1e-6 * abs(Lstar[c])):
            continue
        if not (abs(Lc[c] - mL[c]) <= tt):
            probs.append(("corr", "logdensity-mismatch", "column %d: implementation %.17g model %.17g" % (c, Lc[c], mL[c])))
        if not (abs(mL[c] - Lstar[c]) <= 8 * EPS * (abs(Lstar[c]) + d * LOG2PI + abs(ld) + abs(float(mq[c])))):
            probs.append(("corr", "model-final-vs-oracle", "column %d: model %.17g oracle %.17g" % (c, mL[c], Lstar[c])))
    if hcols is not None:
        check_cols("direct", b, Lc, Dc, hcols, dcols, tolL, Lstar, probs, stats)
    return probs


def check_uvr(line, meta, hout, dout, stats, hcols=None, dcols=None):
    probs = []
    t = line.split()
    nb, bs, k, b, enc = (int(v) for v in t[1:6])
    d = nb * bs
    p = 6
    x = vlib.mat_from_cm(t[p:p + d * b], d, b, frac_of_hex); p += d * b
    m = [frac_of_hex(v) for v in t[p:p + d]]; p += d
    U = vlib.mat_from_cm(t[p:p + d * k], d, k, frac_of_hex); p += d * k
    V = vlib.mat_from_cm(t[p:p + k * d], k, d, frac_of_hex); p += k * d
    rc = bs if enc == 0 else d
    Rm = vlib.mat_from_cm(t[p:p + bs * rc], bs, rc, frac_of_hex)
    if not hout.startswith("ok"):
        return [("prop", "impl-crash", "density utilities failed on a valid input: %s" % hout[:80])]
    if not dout.startswith("ok"):
        return [("corr", "model-undefined", "model not defined on a valid input: %s" % dout[:40])]
    (Lu, Du, Ld, Dd, L2, D2), _ = parse_vecs(hout.split(), 1, 6)
    if any(len(v) != b for v in (Lu, Du, Ld, Dd)):
        return [("prop", "batch-size", "batch of %d points gave %s values" % (b, [len(v) for v in (Lu, Du, Ld, Dd)]))]
    dt = dout.split()
    q = 1
    mdetS = frac(dt[q]); q += 1
    mwd = [frac(v) for v in dt[q:q + b]]; q += b
    mL = [unhex(v) for v in dt[q:q + b]]; q += b
    mD = [unhex(v) for v in dt[q:q + b]]; q += b
    mdetD = frac(dt[q]); q += 1
    mqD = [frac(v) for v in dt[q:q + b]]; q += b
    mLd = [unhex(v) for v in dt[q:q + b]]; q += b
    mDd = [unhex(v) for v in dt[q:q + b]]; q += b
    mS = vlib.mat_from_cm(dt[q:q + d * d], d, d, frac)
    # theorem instance on the exact run: Woodbury / determinant lemma == direct, exactly
    if mdetS != mdetD or mwd != mqD:
        probs.append(("corr", "model-uvr-vs-direct", "exact model run: factorised determinant/quadratic form differ from the direct ones (theorem instance fails on Q)"))
    # independent exact oracle on the assembled S
    blocks = [[[Rm[a][(0 if enc == 0 else bs * i) + c] for c in range(bs)] for a in range(bs)] for i in range(nb)]
    Rfull = [[Fraction(0)] * d for _ in range(d)]
    for i in range(nb):
        for a in range(bs):
            for c in range(bs):
                Rfull[bs * i + a][bs * i + c] = blocks[i][a][c]
    S = vlib.madd(vlib.mmul(U, V), Rfull)
    if S != mS:
        probs.append(("corr", "model-assembled-S", "the model's assembled S differs from U V + blockdiag(R)"))
    Si = vlib.minv_frac(S)
    det = det_frac(S)
    diffs = [[x[i][c] - m[i] for i in range(d)] for c in range(b)]
    kS, qt = density_tolerances(d, S, Si, diffs, "max_kappa_S", stats)
    if det != mdetD or [qq for qq, _ in qt] != mqD:
        probs.append(("corr", "model-vs-exact-oracle", "determinant / quadratic form of the exact model run differ from the independent exact evaluation"))
    ld = flog(det)
    Lstar = [-0.5 * (d * LOG2PI + ld + float(qq)) for qq, _ in qt]
    # direct evaluation in C++ on fl(S): rounding S perturbs it relatively by eps
    tolD = [0.5 * (tq + logdet_tol(d, kS)) + 8 * EPS * d * kS * (1 + abs(float(qq))) for qq, tq in qt]
    check_ld_like("direct", d, b, Ld, Dd, Lstar, tolD, probs, stats, "direct density on the assembled S")
    # factorised evaluation: it inverts the blocks of R and M = I + V R^-1 U and forms R^-1 (I - U M^-1 V R^-1)
    Ri = vlib.minv_frac(Rfull)
    kR = max(kappa_inf(blk, vlib.minv_frac(blk)) for blk in blocks)
    Mx = vlib.madd(vlib.meye(k, Fraction(1), Fraction(0)), vlib.mmul(vlib.mmul(V, Ri), U))
    Mi = vlib.minv_frac(Mx)
    kM = kappa_inf(Mx, Mi)
    stats["max_kappa_M"] = max(stats.get("max_kappa_M", 0.0), kM)
    stats["max_kappa_R"] = max(stats.get("max_kappa_R", 0.0), kR)
    aRi, aU, aMi, aV = fabs(Ri), fabs(U), fabs(Mi), fabs(V)
    T = vlib.mmul(vlib.mmul(vlib.mmul(aU, aMi), aV), aRi)
    for i in range(d):
        T[i][i] += 1.0
    G = vlib.mmul(aRi, T)
    tolU = []
    for c in range(b):
        av = [abs(float(v)) for v in diffs[c]]
        bq = sum(av[i] * G[i][j] * av[j] for i in range(d) for j in range(d))
        tol_q = 64 * EPS * (d + k) * (kR + kM) * bq
        tol_ld = nb * logdet_tol(bs, kR) + logdet_tol(k, kM)
        tolU.append(0.5 * (tol_q + tol_ld))
    check_ld_like("uvr", d, b, Lu, Du, Lstar, tolU, probs, stats, "factorised (UVR) density")
    # the two encodings of the same R against each other (shared block vs the row repeating it)
    if len(L2) == b and len(D2) == b:
        stats["both_encodings_compared"] = stats.get("both_encodings_compared", 0) + 1
        for c in range(b):
            tt = 2 * tolU[c] + 16 * EPS * abs(Lstar[c])
            if tt > max(0.05, 1e-6 * abs(Lstar[c])):
                continue
            if not (abs(Lu[c] - L2[c]) <= tt):
                probs.append(("prop", "uvr-shared-vs-full-encoding", "column %d: log-density %.17g with one encoding of R, %.17g with the other (tol %.3g)" % (c, Lu[c], L2[c], tt)))
            big = max(abs(Du[c]), abs(D2[c]))
            if not (abs(Du[c] - D2[c]) <= big * math.expm1(min(50.0, tt)) + TINY):
                probs.append(("prop", "uvr-shared-vs-full-encoding-density", "column %d: density %.17g with one encoding of R, %.17g with the other" % (c, Du[c], D2[c])))
    # the two implementations against each other
    for c in range(b):
        tt = tolU[c] + tolD[c] + 16 * EPS * abs(Lstar[c])
        if tt > max(0.05, 1e-6 * abs(Lstar[c])):
            continue
        if not (abs(Lu[c] - Ld[c]) <= tt):
            probs.append(("prop", "uvr-vs-direct-logdensity", "column %d: factorised log-density %.17g, direct %.17g (tol %.3g)" % (c, Lu[c], Ld[c], tt)))
        big = max(abs(Du[c]), abs(Dd[c]))
        if not (abs(Du[c] - Dd[c]) <= big * math.expm1(min(50.0, tt)) + TINY):
            probs.append(("prop", "uvr-vs-direct-density", "column %d: factorised density %.17g, direct %.17g" % (c, Du[c], Dd[c])))
        # correspondence: model vs implementation
        if not (abs(Lu[c] - mL[c]) <= tolU[c] + 8 * EPS * abs(Lstar[c])):
            probs.append(("corr", "uvr-logdensity-mismatch", "column %d: implementation %.17g model %.17g" % (c, Lu[c], mL[c])))
    if hcols is not None:
        check_cols("uvr", b, Lu, Du, hcols, dcols, tolU, Lstar, probs, stats)
    return probs


def check_lse(line, meta, outs, stats):
    """outs: dict of harness/driver outputs for the base vector, the shifted vector and the matrix call"""
    probs = []
    t = line.split()
    n = int(t[1])
    x = [unhex(v) for v in t[2:2 + n]]
    h = outs["h"]
    if not h.startswith("ok"):
        return [("prop", "impl-crash", "log_sum_exp failed on a valid input: %s" % h[:80])]
    val = unhex(h.split()[1])
    star = lse_oracle_float(x)
    fstar = float(star)
    mx = max(x)
    tol = 4 * ((n + 2) * EPS + EPS * (abs(mx) + abs(fstar)))
    err = abs(Fraction(val) - Fraction(star)) if math.isfinite(val) else None
    stats["max_relerr_lse"] = max(stats.get("max_relerr_lse", 0.0), (float(err) / tol) if err is not None else float("inf"))
    if not math.isfinite(val):
        probs.append(("prop", "lse-not-finite", "log_sum_exp returned %r for entries with a finite one among them (overflow/underflow): exact value %.17g" % (val, fstar)))
    elif err > tol:
        probs.append(("prop", "lse-wrong", "log_sum_exp = %.17g, log(sum(exp(x))) = %.17g (tol %.3g)" % (val, fstar, tol)))
    # subtracting it normalises: sum exp(x_i - LSE) = 1 (theorem lse_normalizes), evaluated with the implementation's value
    if math.isfinite(val):
        tot = math.fsum(math.exp(v - val) for v in x if v != -math.inf and v - val < 700)
        tol_n = 8 * (n * EPS + EPS * (abs(mx) + abs(val))) + 2 * tol
        if not (abs(tot - 1.0) <= tol_n):
            probs.append(("prop", "lse-not-normalising", "sum exp(x_i - log_sum_exp(x)) = %.17g, not 1 (tol %.3g)" % (tot, tol_n)))
    # commutes with adding a constant
    hs = outs.get("hshift")
    if hs is not None:
        c = meta["shift"]
        if not hs.startswith("ok"):
            probs.append(("prop", "impl-crash", "log_sum_exp failed on a valid input: %s" % hs[:80]))
        else:
            vs = unhex(hs.split()[1])
            xs = outs["xshift"]
            # x + c is rounded entrywise: each entry moves by at most eps*|x_i + c|/2
            tol_s = tol + 4 * EPS * (abs(mx) + abs(c) + abs(fstar) + n)
            if not (math.isfinite(vs) and abs(vs - (val + c)) <= tol_s):
                probs.append(("prop", "lse-shift", "log_sum_exp(x + %r) = %.17g but log_sum_exp(x) + c = %.17g (tol %.3g)" % (c, vs, val + c, tol_s)))
    hm = outs.get("hmat")
    if hm is not None:
        if not hm.startswith("ok"):
            probs.append(("prop", "impl-crash", "log_sum_exp (matrix argument) failed: %s" % hm[:80]))
        else:
            vm = unhex(hm.split()[1])
            if not (math.isfinite(vm) and abs(vm - fstar) <= tol):
                probs.append(("prop", "lse-matrix-wrong", "log_sum_exp(matrix) = %.17g, log(sum(exp(x))) = %.17g" % (vm, fstar)))
    # correspondence: model (Float run and Ext-Rat run) vs implementation
    for key in ("d", "dx"):
        dv = outs[key]
        if not dv.startswith("ok") or dv.split()[1] in ("neginf", "nan"):
            probs.append(("corr", "lse-model-undefined", "model (%s) gives %s on a vector with a finite entry" % (key, dv[:40])))
            continue
        mv = unhex(dv.split()[1])
        if not (math.isfinite(val) and abs(mv - val) <= 2 * tol):
            probs.append(("corr", "lse-mismatch", "implementation %.17g model(%s) %.17g" % (val, key, mv)))
    return probs


# ----------------------------------------------------------------------------- run

def run_harness_confirmed(binary, lines):
    """run the harness; a case that ended in a crash is run once more on its own, and only a crash that
    repeats counts (a real crash is deterministic; a sanitizer run-time failure under machine load is not)"""
    hout, logs = vlib.run_harness(binary, lines)
    retried = 0
    for i, h in enumerate(hout):
        if h.startswith("crash") or " crash:" in h:
            retried += 1
            h2, l2 = vlib.run_harness(binary, [lines[i]])
            if h2 and not (h2[0].startswith("crash") or " crash:" in h2[0]):
                hout[i] = h2[0]
                logs.pop(i, None)
    return hout, logs, retried


def guarded(fn, line, hout, *args):
    """a malformed / short / non-numeric output is a finding about this case (with its input), never a crash of the check"""
    try:
        return fn(*args)
    except Exception as e:
        return [("prop", "unreadable-result", "results could not be evaluated (%s: %s); output: %s" % (type(e).__name__, str(e)[:80], hout[:120]))]


# Candidate finding (reported to the coordinator; /repo not edited): the routines take std::log of a determinant formed as a
# double.  For larger dimensions the determinant leaves the double range although S is perfectly conditioned (d = 170,
# S = 0.01 I: det = 1e-340 -> 0), and the log-density comes out +inf / -inf instead of a finite number (the density inf / 0 where
# the exact value is representable).  The real-arithmetic model has no such range, so this is a floating-point defect outside the
# model: recorded under coverage.candidate_findings, turned into a violation with the stable key below once decided.
# Repaired by fix 52d64dd (log det S from the LU pivots); the probes stay and alarm if the behaviour returns.
DET_RANGE_IS_VIOLATION = True
DET_RANGE_KEY = "density-determinant-out-of-double-range"


def range_probe(binary, quick):
    """diagonal covariances whose determinant under-/overflows a double; oracle in closed form"""
    found, nrun = [], 0
    for d, var in ((170, 0.01), (200, 100.0)) if quick else ((100, 0.01), (170, 0.01), (400, 0.01), (200, 100.0), (120, 1e-3)):
        S = [[var if i == j else 0.0 for j in range(d)] for i in range(d)]
        x = [[0.5 * math.sqrt(var) * ((i % 3) - 1)] for i in range(d)]
        m = [0.0] * d
        quad = sum((x[i][0] ** 2) / var for i in range(d))
        exact = -0.5 * (d * LOG2PI + d * math.log(var) + quad)
        lines = [" ".join(["ld", str(d), "1"] + vlib.fmt_mat_cm(x) + [hexd(v) for v in m] + vlib.fmt_mat_cm(S)),
                 " ".join(["uvr", str(d), "1", "1", "1", "0"] + vlib.fmt_mat_cm(x) + [hexd(v) for v in m]
                          + [hexd(0.0)] * (2 * d) + [hexd(var)])]
        outs, _ = vlib.run_harness(binary, lines)
        for which, o in zip(("multivariate_gaussian_log_density", "multivariate_gaussian_log_density_UVR (U = V = 0, shared 1x1 block)"), outs):
            nrun += 1
            t = o.split()
            try:
                val = unhex(t[2]) if t[0] == "ok" else float("nan")
            except Exception:
                val = float("nan")
            if not (math.isfinite(val) and abs(val - exact) <= 1e-9 * abs(exact)):
                found.append({"key": DET_RANGE_KEY, "routine": which, "input": "d = %d, S = %g * I (cond 1), mean 0, one point with entries 0.5 sigma * {-1, 0, 1}" % (d, var),
                              "observed_log_density": repr(val), "expected_log_density": exact,
                              "expected_density": (math.exp(exact) if exact < 709 else "above the double range"),
                              "line": lines[0][:200] + " ..."})
    return found, nrun


def corpus_cases():
    out = []
    p = vlib.VERIF / "corpus" / "C15" / "cases.txt"
    if p.exists():
        for ln in p.read_text().split("\n"):
            ln = ln.strip()
            if ln and not ln.startswith("#"):
                op = ln.split()[0]
                out.append((ln, {"op": op, "style": "corpus", "shift": [1.0, -3.5, 1000.0][len(out) % 3]}))
    return out


def run(ctx):
    ctx.proof_stage()
    binary = vlib.build_harness("h_density")
    cases = corpus_cases()
    g1, g2, g3 = ctx.gen("ld"), ctx.gen("uvr"), ctx.gen("lse")
    for i in range(ctx.n(160, 2500)):
        cases.append(gen_ld(g1, ctx.tier, i))
    for i in range(ctx.n(260, 3500)):
        cases.append(gen_uvr(g2, ctx.tier, i))
    for i in range(ctx.n(400, 6000)):
        cases.append(gen_lse(g3, ctx.tier, i))
    # class p (round 4): batches at chunk boundaries for every density routine, on every run; the first one early
    # (a large element count first: every later shape is "not growing" for a grow-only scratch buffer, class v)
    g4 = ctx.gen("chunks")
    chunk = []
    for j, bb in enumerate(CHUNK_BATCHES if ctx.quick() else CHUNK_BATCHES + [2048, 384, 511, 513, 768]):
        chunk.append(gen_ld(g4, ctx.tier, 10 ** 6, b_force=bb))
        chunk.append(gen_uvr(g4, ctx.tier, 10 ** 6, b_force=bb))
    ncorp = len([c for c in cases if c[1].get("style") == "corpus"])
    cases[ncorp:ncorp] = chunk[:2]
    cases += chunk[2:]
    # long log_sum_exp vectors and ties at the maximum at every position
    cases += gen_lse_ties(g4)
    longs = [("band", 20000), ("bandties", 20001), ("band16", 32768), ("allequal", 20000), ("mixedlong", 24576)]
    if not ctx.quick():
        longs += [("band", 65536), ("bandties", 40000), ("band16", 20480), ("band16", 100003), ("mixedlong", 50000), ("allequal", 65537)]
    for kind, nn in longs:
        cases.append(gen_lse_long(g4, kind, nn))
    if ctx.replay:
        line = json.load(open(ctx.replay))["replay"]["input_line"]
        cases = [(line, {"op": line.split()[0], "style": "replay", "shift": 1.0})]

    # lines for harness and driver
    hlines, dlines, index = [], [], []
    for line, meta in cases:
        op = meta["op"]
        if op in ("ld", "uvr"):
            ent = {"h": len(hlines), "d": len(dlines)}
            hlines.append(line); dlines.append(line)
            if meta.get("cols") or meta.get("style") in ("replay", "corpus"):
                ent["hcols"] = len(hlines); ent["dcols"] = len(dlines)
                cl = op + "cols " + line.split(" ", 1)[1]
                hlines.append(cl); dlines.append(cl)
            index.append(ent)
        else:
            t = line.split()
            n = int(t[1])
            x = [unhex(v) for v in t[2:2 + n]]
            ent = {"h": len(hlines), "d": len(dlines), "dx": len(dlines) + 1}
            hlines.append(line)
            dlines.append(line); dlines.append("lsex " + " ".join(t[1:]))
            c = meta.get("shift", 0.0)
            xs = [v + c for v in x]
            ent["hshift"] = len(hlines); ent["xshift"] = xs
            hlines.append(" ".join(["lse", str(n)] + [hexd(v) for v in xs]))
            if "shape" in meta:
                ent["hmat"] = len(hlines)
                hlines.append(" ".join(["lsem", str(meta["shape"][0]), str(meta["shape"][1])] + t[2:]))
            index.append(ent)
    hout, logs, retried = run_harness_confirmed(binary, hlines)
    dout = run_driver_parallel(dlines)

    range_found, range_run = ([], 0) if ctx.replay else range_probe(binary, ctx.quick())
    stats, hist, branch = {}, {}, {}
    distinct, nontrivial = set(), set()
    corr_bad, prop_bad = [], []
    for (line, meta), ent in zip(cases, index):
        op = meta["op"]
        hist["%s:%s" % (op, meta.get("style"))] = hist.get("%s:%s" % (op, meta.get("style")), 0) + 1
        distinct.add(line)
        if op == "ld":
            probs = guarded(check_ld, line, hout[ent["h"]], line, meta, hout[ent["h"]], dout[ent["d"]], stats,
                            hout[ent["hcols"]] if "hcols" in ent else None, dout[ent["dcols"]] if "dcols" in ent else None)
            t = line.split()
            if int(t[1]) > 1:
                nontrivial.add(line)
            branch["direct"] = branch.get("direct", 0) + 1
            if int(t[2]) in CHUNK_BATCHES or int(t[2]) >= 255:
                branch["direct:batch at a chunk boundary (%s columns)" % t[2]] = branch.get("direct:batch at a chunk boundary (%s columns)" % t[2], 0) + 1
            if "hcols" in ent:
                branch["direct:also one call per column"] = branch.get("direct:also one call per column", 0) + 1
        elif op == "uvr":
            probs = guarded(check_uvr, line, hout[ent["h"]], line, meta, hout[ent["h"]], dout[ent["d"]], stats,
                            hout[ent["hcols"]] if "hcols" in ent else None, dout[ent["dcols"]] if "dcols" in ent else None)
            t = line.split()
            nb, bs, enc = int(t[1]), int(t[2]), int(t[5])
            if nb * bs > 1:
                nontrivial.add(line)
            key = "uvr:R.cols()==block_size" if (enc == 0 or nb == 1) else "uvr:R.cols()!=block_size"
            branch[key] = branch.get(key, 0) + 1
            branch["uvr:enc=%s" % ("shared" if enc == 0 else "perBlock")] = branch.get("uvr:enc=%s" % ("shared" if enc == 0 else "perBlock"), 0) + 1
            if int(t[4]) in CHUNK_BATCHES or int(t[4]) >= 255:
                branch["uvr:batch at a chunk boundary (%s columns)" % t[4]] = branch.get("uvr:batch at a chunk boundary (%s columns)" % t[4], 0) + 1
            if "hcols" in ent:
                branch["uvr:also one call per column"] = branch.get("uvr:also one call per column", 0) + 1
            if bs == 1:
                branch["uvr:block=1"] = branch.get("uvr:block=1", 0) + 1
            if nb == 1:
                branch["uvr:block=d"] = branch.get("uvr:block=d", 0) + 1
            if meta.get("style") != "VeqUt":
                branch["uvr:V!=U^T"] = branch.get("uvr:V!=U^T", 0) + 1
        else:
            outs = {"h": hout[ent["h"]], "d": dout[ent["d"]], "dx": dout[ent["dx"]],
                    "hshift": hout[ent["hshift"]], "xshift": ent["xshift"]}
            if "hmat" in ent:
                outs["hmat"] = hout[ent["hmat"]]
            probs = guarded(check_lse, line, hout[ent["h"]], line, meta, outs, stats)
            t = line.split()
            if int(t[1]) > 1:
                nontrivial.add(line)
            if NEG_INF_HEX in t[2:]:
                branch["lse:has -inf"] = branch.get("lse:has -inf", 0) + 1
                if t[2] == NEG_INF_HEX:
                    branch["lse:first entry -inf"] = branch.get("lse:first entry -inf", 0) + 1
            xs = [unhex(v) for v in t[2:]]
            fin = [v for v in xs if v != -math.inf]
            if len(xs) >= 20000:
                branch["lse:n>=20000"] = branch.get("lse:n>=20000", 0) + 1
            if sum(1 for v in fin if v == max(fin)) >= 2 if len(xs) < 1000 else False:
                branch["lse:ties at the maximum"] = branch.get("lse:ties at the maximum", 0) + 1
            nband = sum(1 for v in fin if 15.0 <= max(fin) - v <= 40.0) if len(xs) >= 1000 else 0
            if nband >= 1000:
                branch["lse:>=1000 entries 15..40 below the maximum"] = branch.get("lse:>=1000 entries 15..40 below the maximum", 0) + 1
            if max(fin) - min(fin) > 1500:
                branch["lse:spread>1500 (naive evaluation would under/overflow)"] = branch.get("lse:spread>1500 (naive evaluation would under/overflow)", 0) + 1
            if max(abs(v) for v in fin) > 709:
                branch["lse:|x|>709 (exp overflows/underflows without the shift)"] = branch.get("lse:|x|>709 (exp overflows/underflows without the shift)", 0) + 1
        for kind, key2, what in probs:
            (corr_bad if kind == "corr" else prop_bad).append((key2, what, line, hout[ent["h"]]))
    seen = set()
    for key2, what, line, h in prop_bad:
        if key2 in seen:
            continue
        seen.add(key2)
        ctx.violation(key2, "utils: " + what, {"harness": "h_density", "input_line": line, "observed": h[:2000]})
    if corr_bad and not prop_bad:
        key2, what, line, h = corr_bad[0]
        ctx.violation("correspondence:" + key2, "model and implementation disagree (%d cases), no property predicate failed: %s" % (len(corr_bad), what),
                      {"harness": "h_density", "correspondence": "BFL/Model/Density.lean vs utils.h", "input_line": line, "observed": h[:2000]}, no_input=True)
    if range_found and DET_RANGE_IS_VIOLATION:
        f = range_found[0]
        ctx.violation(DET_RANGE_KEY, "utils: %s: %s: log-density %s, definition gives %.17g" % (f["routine"], f["input"], f["observed_log_density"], f["expected_log_density"]),
                      {"harness": "h_density", "input_line": f["line"], "observed": f["observed_log_density"]})
    ctx.coverage.update({
        "candidate_findings": range_found, "determinant_range_probes": range_run,
        "evaluations": len(cases), "distinct_nontrivial": len(nontrivial & distinct),
        "rule": "direct densities: d 1..%d, batch 1..5, SPD S with prescribed spectrum (cond <= 1e6, determinants 1e-40..1e40); factorised: d = nb*bs with every "
                "divisor bs (incl. 1 and d), k 1..d+3, V = W U^T with W identity / SPD / indefinite (S = UV + R positive definite with cond_inf <= 1e6 by rejection), "
                "shared and per-block R with all blocks distinct; log_sum_exp: n 1..%d, entries in [-1e4, 1e4] and -inf (never all), spreads 1e4 vs -1e4, "
                "x and x + c, matrix-shaped arguments; round 4: batches of 0, 64, 128, 129, 255, 256, 257, 512, 1023, 1024 columns for both density "
                "routines (each also evaluated by one call per column), ties at the maximum at every position / pair of positions (n 2..9, 16, 17), "
                "vectors of 20000..32768 entries (thorough: 100003) with the bulk 15..40 below the maximum; non-trivial = dimension / length > 1; distinct = distinct input lines" % ((6, 8) if ctx.quick() else (8, 40)),
        "samples": [cases[0][0][:300], next((c[0][:300] for c in cases if c[1]["op"] == "uvr"), ""), cases[-1][0][:300]],
        "style_histogram": hist, "branch_histogram": branch, "numeric": stats,
        "traces_validated_against_impl": len(cases),
        "model_vs_impl_disagreements": len(corr_bad), "property_failures_on_impl": len(prop_bad),
        "sanitizer_crashes": len(logs), "crashed_cases_rerun_individually": retried,
    })
    ctx.assumptions += [
        "inverse routine contract InvOK certified exactly (A X = 1 and X A = 1 over Q) on every inverse the exact model run takes",
        "floating point: implementation compared with the exact value within a tolerance scaled by the condition numbers of the matrices the code inverts "
        "(S; for the factorised form the blocks of R and I + V R^-1 U); cases whose tolerance exceeds 0.05 in the log-density are counted, not judged",
        "log_sum_exp oracle: log(sum(exp(x_i))) without shift in 60-digit decimal arithmetic",
    ]
