import BFL.Model.SUKF
import BFL.Bridge.Mat
import BFL.Bridge.Det
import BFL.Bridge.Transc
import BFL.Proofs.Density
import BFL.Proofs.DensityModel
import BFL.Proofs.SUKF
/-
The executable serial-UKF model (`BFL/Model/SUKF.lean`) in Mathlib's vocabulary, over ℝ:
what each transcribed line computes.  (Helper lemmas; the property theorems are in `BFL/Props/C05.lean`.)
-/
namespace BFL
open Matrix

variable {n nb bs s : Nat}

/-- the block-diagonal matrix of the noise blocks the serial correction uses -/
noncomputable def SNoise.Rf (R : SNoise ℝ (nb * bs) bs) : Matrix (Fin (nb * bs)) (Fin (nb * bs)) ℝ :=
  bdiag (fun j => toM (R.blockAt j))

/-- "the noise covariance is block diagonal with equal block size": a full matrix has zero entries
    outside its diagonal blocks (nothing to require of the shared block) -/
def SNoise.BlockDiag : SNoise ℝ (nb * bs) bs → Prop
  | .full R => ∀ p q, bdiv p ≠ bdiv q → R p q = 0
  | .reduced _ => True

theorem SNoise.toM_toFull (R : SNoise ℝ (nb * bs) bs) (h : R.BlockDiag) : toM R.toFull = R.Rf := by
  cases R with
  | full R0 =>
    ext p q
    simp only [SNoise.toFull, SNoise.Rf, SNoise.blockAt, bdiag, toM_apply, Matrix.of_apply, Mat.blkDiag, Mat.of_apply]
    by_cases hpq : p.divNat = q.divNat
    · rw [if_pos hpq]
      conv_rhs => rw [hpq]
      rw [bidx_div_mod]
      conv_rhs => rw [← hpq]
      rw [bidx_div_mod]
    · rw [if_neg hpq]
      exact h p q (by rw [bdiv_eq, bdiv_eq]; exact hpq)
  | reduced R0 =>
    ext p q
    by_cases hpq : p.divNat = q.divNat <;>
      simp [SNoise.toFull, SNoise.Rf, SNoise.blockAt, bdiag, bdiv_eq, bmod_eq, hpq]

theorem toM_subCols {r c : Nat} (M : Mat ℝ r c) (v : Vec ℝ r) : toM (subCols M v) = Matrix.of (fun i j => M i j - v i) := rfl
theorem toM_sukfScaleCols {r c : Nat} (M : Mat ℝ r c) (w : Vec ℝ c) : toM (sukfScaleCols M w) = Matrix.of (fun i j => M i j * w j) := rfl

theorem sqrtW_apply (wc : Vec ℝ s) (j : Fin s) : sqrtW wc j = Real.sqrt (wc j) := by
  simp [sqrtW]

theorem toM_blkRows {c : Nat} (Y : Mat ℝ (nb * bs) c) (j : Fin nb) :
    toM (Mat.blkRows Y j) = (toM Y).submatrix (bidx j) id := rfl

/-- a running matrix sum (`acc += g j`) -/
theorem toM_foldl_add {r c : Nat} : ∀ (k : Nat) (g : Fin k → Mat ℝ r c) (init : Mat ℝ r c),
    toM (Fin.foldl k (fun acc j => Mat.eval (Mat.add acc (g j))) init) = toM init + ∑ j, toM (g j)
  | 0, g, init => by simp [Fin.foldl_zero]
  | k + 1, g, init => by
    rw [Fin.foldl_succ_last, Mat.eval_eq, toM_add, toM_foldl_add k (fun j => g j.castSucc) init,
      Fin.sum_univ_castSucc, add_assoc]

/-- a running vector sum -/
theorem toV_foldl_add {r : Nat} : ∀ (k : Nat) (g : Fin k → Vec ℝ r) (init : Vec ℝ r),
    toV (Fin.foldl k (fun acc j => Vec.eval (Vec.add acc (g j))) init) = toV init + ∑ j, toV (g j)
  | 0, g, init => by simp [Fin.foldl_zero]
  | k + 1, g, init => by
    rw [Fin.foldl_succ_last, Vec.eval_eq, toV_add, toV_foldl_add k (fun j => g j.castSucc) init,
      Fin.sum_univ_castSucc, add_assoc]

theorem Rf_inv {inv : InvFn ℝ} (R : SNoise ℝ (nb * bs) bs) (hR : ∀ j, InvOK inv (R.blockAt j)) :
    R.Rf⁻¹ = bdiag (fun j => toM (inv bs (R.blockAt j))) ∧ IsUnit R.Rf := by
  have h : ∀ j, toM (R.blockAt j) * toM (inv bs (R.blockAt j)) = 1 := fun j => hR j
  exact ⟨DensityProofs.bdiag_inv _ _ h, DensityProofs.bdiag_isUnit _ _ h⟩

/-- `C_inv = I + Yᵀ R⁻¹ Y` with `R` the block-diagonal matrix of the noise blocks -/
theorem toM_sukfCinv {inv : InvFn ℝ} (R : SNoise ℝ (nb * bs) bs) (Y : Mat ℝ (nb * bs) s)
    (hR : ∀ j, InvOK inv (R.blockAt j)) :
    toM (sukfCinv inv R Y) = 1 + (toM Y)ᵀ * R.Rf⁻¹ * toM Y := by
  have hfold : sukfCinv inv R Y = Fin.foldl nb (fun acc j => Mat.eval (Mat.add acc
      (Mat.mul (Mat.mul (Mat.eval (Mat.blkRows Y j)).transpose (inv bs (Mat.eval (R.blockAt j)))) (Mat.eval (Mat.blkRows Y j))))) Mat.one := rfl
  rw [hfold, toM_foldl_add, toM_one, (Rf_inv R hR).1, SUKFProofs.mul_bdiag_mul]
  congr 1
  refine Finset.sum_congr rfl (fun j _ => ?_)
  simp only [Mat.eval_eq, toM_mul, toM_transpose, toM_blkRows]
  rfl

/-- `d = Yᵀ R⁻¹ ν` -/
theorem toV_sukfD {inv : InvFn ℝ} (R : SNoise ℝ (nb * bs) bs) (Y : Mat ℝ (nb * bs) s) (ν : Vec ℝ (nb * bs))
    (hR : ∀ j, InvOK inv (R.blockAt j)) :
    toV (sukfD inv R Y ν) = ((toM Y)ᵀ * R.Rf⁻¹) *ᵥ toV ν := by
  have hfold : sukfD inv R Y ν = Fin.foldl nb (fun acc j => Vec.eval (Vec.add acc
      ((Mat.mul (Mat.eval (Mat.blkRows Y j)).transpose (inv bs (Mat.eval (R.blockAt j)))).mulVec
        (Vec.of (fun c => ν (bidx j c)))))) Vec.zero := rfl
  rw [hfold, toV_foldl_add, (Rf_inv R hR).1, SUKFProofs.mul_bdiag_mulVec]
  have hz : toV (Vec.zero : Vec ℝ s) = 0 := by ext i; simp
  rw [hz, zero_add]
  refine Finset.sum_congr rfl (fun j _ => ?_)
  simp only [Mat.eval_eq, toV_mulVec, toM_mul, toM_transpose, toM_blkRows]
  rfl

/-! ### One component: serial = standard -/

section comp
variable (inv : InvFn ℝ) (nc : Nat) (R : SNoise ℝ (nb * bs) bs) (Rfull : Mat ℝ (nb * bs) (nb * bs))
  (m : Vec ℝ n) (P : Mat ℝ n n) (X : Mat ℝ n s) (Yp : Mat ℝ (nb * bs) s) (wm wc : Vec ℝ s) (y : Vec ℝ (nb * bs))

/-- mean-shifted propagated points `Yo`, input offsets `Xo` (unweighted) -/
def offY : Mat ℝ (nb * bs) s := subCols Yp (Yp.mulVec wm)

theorem sukf_Y_eq : toM (sukfComp inv nc R m X Yp wm wc y).Y
    = Matrix.of (fun i j => toM (offY Yp wm) i j * Real.sqrt (wc j)) := by
  ext i j; simp [sukfComp, offY, sukfScaleCols, sqrtW_apply]

theorem sukf_Xw_eq : toM (sukfComp inv nc R m X Yp wm wc y).Xw
    = Matrix.of (fun i j => toM (offX nc m X) i j * Real.sqrt (wc j)) := by
  ext i j; simp [sukfComp, offX, sukfScaleCols, sqrtW_apply]

theorem ukf_Pyy_eq : toM (ukfComp inv nc Rfull m P X Yp wm wc y).Pyy
    = toM (wOuter (offY Yp wm) wc (offY Yp wm)) + toM Rfull := by
  simp [ukfComp, offY]

theorem ukf_Pxy_eq : toM (ukfComp inv nc Rfull m P X Yp wm wc y).Pxy = toM (wOuter (offX nc m X) wc (offY Yp wm)) := by
  simp [ukfComp, offY, offX]

theorem toM_wOuter {r r' c : Nat} (A : Mat ℝ r c) (w : Vec ℝ c) (B : Mat ℝ r' c) :
    toM (wOuter A w B) = (Matrix.of fun i j => toM A i j * w j) * (toM B)ᵀ := by
  simp [wOuter, toM_sukfScaleCols]

/-- with non-negative covariance weights the `√wc`-weighted points reproduce the weighted moments -/
theorem sukf_moments (hw : ∀ j, 0 ≤ wc j) :
    let c := sukfComp inv nc R m X Yp wm wc y
    toM c.Y * (toM c.Y)ᵀ = toM (wOuter (offY Yp wm) wc (offY Yp wm)) ∧
    toM c.Xw * (toM c.Y)ᵀ = toM (wOuter (offX nc m X) wc (offY Yp wm)) ∧
    toM c.Xw * (toM c.Xw)ᵀ = toM (wOuter (offX nc m X) wc (offX nc m X)) := by
  simp only [sukf_Y_eq, sukf_Xw_eq, toM_wOuter]
  exact ⟨SUKFProofs.sqrt_scale_outer _ _ _ hw, SUKFProofs.sqrt_scale_outer _ _ _ hw,
    SUKFProofs.sqrt_scale_outer _ _ _ hw⟩

/-- the innovation covariance `Yo W Yoᵀ + R` is positive definite -/
theorem ukf_Pyy_posDef (hw : ∀ j, 0 ≤ wc j) (hRpd : ∀ j, (toM (R.blockAt j)).PosDef) (hRfull : toM Rfull = R.Rf) :
    (toM (ukfComp inv nc Rfull m P X Yp wm wc y).Pyy).PosDef := by
  rw [ukf_Pyy_eq, hRfull, ← (sukf_moments inv nc R m X Yp wm wc y hw).1]
  have h1 : (toM (sukfComp inv nc R m X Yp wm wc y).Y * (toM (sukfComp inv nc R m X Yp wm wc y).Y)ᵀ).PosSemidef := by
    simpa using Matrix.posSemidef_self_mul_conjTranspose (toM (sukfComp inv nc R m X Yp wm wc y).Y)
  exact Matrix.PosDef.posSemidef_add h1 (SUKFProofs.bdiag_posDef _ hRpd)

/-- Serial = standard for one component: covariance, mean; every inverse taken is defined. -/
theorem sukfComp_eq_ukfComp (hinv : InvCorrect inv) (hw : ∀ j, 0 ≤ wc j)
    (hRpd : ∀ j, (toM (R.blockAt j)).PosDef) (hRfull : toM Rfull = R.Rf)
    (hX : toM (wOuter (offX nc m X) wc (offX nc m X)) = toM P) :
    toM (sukfComp inv nc R m X Yp wm wc y).cov = toM (ukfComp inv nc Rfull m P X Yp wm wc y).cov ∧
    toV (sukfComp inv nc R m X Yp wm wc y).mean = toV (ukfComp inv nc Rfull m P X Yp wm wc y).mean ∧
    IsUnit (toM (sukfCinv inv R (sukfComp inv nc R m X Yp wm wc y).Y)) ∧
    (toM (ukfComp inv nc Rfull m P X Yp wm wc y).Pyy).PosDef := by
  have hRok : ∀ j, InvOK inv (R.blockAt j) := fun j => hinv _ _ (hRpd j).isUnit
  have hSpd := ukf_Pyy_posDef inv nc R Rfull m P X Yp wm wc y hw hRpd hRfull
  have hSu := hSpd.isUnit
  obtain ⟨mYY, mXY, mXX⟩ := sukf_moments inv nc R m X Yp wm wc y hw
  set c := sukfComp inv nc R m X Yp wm wc y with hc
  set u := ukfComp inv nc Rfull m P X Yp wm wc y with hu
  have hS_eq : toM c.Y * (toM c.Y)ᵀ + R.Rf = toM u.Pyy := by rw [hu, ukf_Pyy_eq, hRfull, mYY]
  have hRfu : IsUnit R.Rf := (Rf_inv R hRok).2
  have hSu' : IsUnit (toM c.Y * (toM c.Y)ᵀ + R.Rf) := by rw [hS_eq]; exact hSu
  have hCu := SUKFProofs.Cinv_isUnit (toM c.Y) R.Rf hRfu hSu'
  have hCinv := toM_sukfCinv (inv := inv) R c.Y hRok
  have hCu' : IsUnit (toM (sukfCinv inv R c.Y)) := by rw [hCinv]; exact hCu
  have hCok : InvOK inv (sukfCinv inv R c.Y) := hinv _ _ hCu'
  have hSok : InvOK inv u.Pyy := hinv _ _ hSu
  have hSt : (toM u.Pyy)ᵀ = toM u.Pyy := by simpa using hSpd.isHermitian.eq
  have hPxy : toM u.Pxy = toM c.Xw * (toM c.Y)ᵀ := by rw [hu, ukf_Pxy_eq, mXY]
  refine ⟨?_, ?_, hCu', hSpd⟩
  · have hcov : toM c.cov = toM c.Xw * toM (inv s (sukfCinv inv R c.Y)) * (toM c.Xw)ᵀ := by
      simp only [hc, sukfComp, toM_mul, toM_transpose, Mat.eval_eq]
    have hucov : toM u.cov = toM P - (toM u.Pxy * toM (inv _ u.Pyy)) * toM u.Pyy * (toM u.Pxy * toM (inv _ u.Pyy))ᵀ := by
      simp only [hu, ukfComp, toM_sub, toM_mul, toM_transpose, Mat.eval_eq]
    rw [hcov, hucov, hCok.eq, hCinv, SUKFProofs.cov_eq _ _ _ hRfu hSu', mXX, hX, hSok.eq,
      SUKFProofs.ukf_cov_eq _ _ _ hSu hSt, hS_eq, hPxy]
  · have hmean : toV c.mean = toV m + (toM c.Xw * toM (inv s (sukfCinv inv R c.Y))) *ᵥ toV (sukfD inv R c.Y c.innov) := by
      simp only [hc, sukfComp, toV_add, toV_mulVec, toM_mul, Mat.eval_eq]
    have humean : toV u.mean = toV m + (toM u.Pxy * toM (inv _ u.Pyy)) *ᵥ toV c.innov := by
      simp only [hu, hc, ukfComp, sukfComp, toV_add, toV_mulVec, toM_mul, Mat.eval_eq]
    rw [hmean, humean, hCok.eq, hCinv, toV_sukfD R c.Y c.innov hRok, SUKFProofs.mean_eq _ _ _ _ hRfu hSu',
      hSok.eq, hS_eq, hPxy]

end comp

/-! ### Euler-circular state rows -/

theorem sukfDirSub_eq_arg (a b : ℝ) : sukfDirSub a b = Complex.arg (Complex.cos (a - b : ℝ) + Complex.sin (a - b : ℝ) * Complex.I) := by
  unfold sukfDirSub
  simp only [transc_atan2, transc_sin, transc_cos]
  have key : ∀ θ : ℝ, (⟨Real.cos θ, Real.sin θ⟩ : ℂ) = Complex.cos (θ : ℝ) + Complex.sin (θ : ℝ) * Complex.I := by
    intro θ
    apply Complex.ext <;> simp [Complex.cos_ofReal_re, Complex.sin_ofReal_re, Complex.cos_ofReal_im, Complex.sin_ofReal_im]
  rw [key]

/-- `directional_sub` is the plain difference when it lies in `(−π, π]` -/
theorem sukfDirSub_eq_sub {a b : ℝ} (h : a - b ∈ Set.Ioc (-Real.pi) Real.pi) : sukfDirSub a b = a - b := by
  rw [sukfDirSub_eq_arg, Complex.arg_cos_add_sin_mul_I h]

/-- and always lies in `(−π, π]` -/
theorem sukfDirSub_mem (a b : ℝ) : sukfDirSub a b ∈ Set.Ioc (-Real.pi) Real.pi := by
  rw [sukfDirSub_eq_arg]; exact Complex.arg_mem_Ioc _

theorem offX_zero {n s : Nat} (m : Vec ℝ n) (X : Mat ℝ n s) : offX 0 m X = subCols X m := by
  ext i j
  simp [offX, subCols]

/-- sigma points within half a turn of the mean on the circular rows: the offsets are plain differences -/
theorem offX_eq_subCols {n s : Nat} (nc : Nat) (m : Vec ℝ n) (X : Mat ℝ n s)
    (h : ∀ (i : Fin n) (j : Fin s), n ≤ i.val + nc → X i j - m i ∈ Set.Ioc (-Real.pi) Real.pi) :
    offX nc m X = subCols X m := by
  ext i j
  simp only [offX, subCols, Mat.of_apply]
  split
  · rfl
  · rename_i hlt
    exact sukfDirSub_eq_sub (h i j (Nat.le_of_not_lt hlt))

end BFL
