import BFL.Model.AnyBox
/-
Model of `bfl::any::any`, part 2: `operator new` fails (`std::bad_alloc`).

Where any.h calls `operator new`: the new-expressions `new holder<T>(…)` of the value constructors (any.h:125, 138)
and of `holder::clone()` (any.h:288, reached from the copy constructor, hence from every copy-and-swap
assignment).  Inside such a new-expression, after the storage of the holder has been obtained, the copy
constructor of the held object may itself call `operator new` (the character buffer of a `std::string`; Eigen
obtains matrix storage from `malloc` directly, the probes own nothing); so may the copy returned by a copying
value cast.  `news` lists these calls in the order in which the operation makes them; `stepNoMem j` is the operation
when its j-th call (0-based) throws `std::bad_alloc`:

* the storage of the holder itself: nothing has happened yet — the state is unchanged, not even a ghost event;
* the buffer of the held copy inside `new holder<T>(value)`: the new-expression releases the holder storage
  (`failedNew`, as for a throwing copy constructor), no `any` comes to life, the exception leaves before `swap`;
* the buffer of the copy a value cast returns: nothing happened.

`Fault`, `stepF`, `runF`: histories in which every operation carries its own fault (none, the throwing probe
armed, the j-th allocation fails).  Core Lean only: the driver executes these definitions.
-/
namespace BFL.AnyBox

/-- does the copy constructor of this held value call `operator new`?  Only a `std::string` whose payload does
    not fit the small-string buffer (every non-moved-from string of the pool: 70 characters). -/
def copyAllocates (v : Val) : Bool :=
  match v.tag with
  | .str => decide (v.code ≠ -1)
  | _ => false

/-- a call of `operator new` inside an operation -/
inductive NewKind where
  | holder      -- storage of a `new holder<T>`
  | value       -- buffer of the copy of a held object
  deriving DecidableEq, Repr, Inhabited

/-- calls made while a holder for a copy of `v` is created -/
def newsOfClone (v : Option Val) : List NewKind :=
  match v with
  | some v => if copyAllocates v then [.holder, .value] else [.holder]
  | none => [.holder]          -- dangling `content`: excluded by `Own`

/-- the calls of `operator new` an operation makes, in order -/
def news (n : Nat) (s : St) : Op → List NewKind
  | .ctorAny k src c =>
    if freeN n s k && liveN s src && decide (c ≠ .rref) && hasValue s (.named src) then newsOfClone (held s (.named src)) else []
  | .ctorVal k c v =>
    if freeN n s k then (if c ≠ .rref ∧ copyAllocates v = true then [.holder, .value] else [.holder]) else []
  | .asgnAny a b c =>
    if liveN s a && liveN s b && decide (c ≠ .rref) && hasValue s (.named b) then newsOfClone (held s (.named b)) else []
  | .asgnVal a c v =>
    if liveN s a then (if c ≠ .rref ∧ copyAllocates v = true then [.holder, .value] else [.holder]) else []
  | .castVal a t f =>
    match copied n s (.castVal a t f) with
    | some v => if copyAllocates v then [.value] else []
    | none => []
  | _ => []

/-- the operation when its j-th call of `operator new` throws `std::bad_alloc` -/
def stepNoMem (n : Nat) (s : St) (op : Op) (j : Nat) : St × Out :=
  match (news n s op)[j]? with
  | none => step n s op                       -- the operation makes fewer calls: nothing fails
  | some .holder => (s, .threw)
  | some .value =>
    match op with
    | .castVal _ _ _ => (s, .threw)
    | _ => (failedNew s, .threw)

/-- what goes wrong during one operation -/
inductive Fault where
  | none
  | copyThrows            -- the throwing probe is armed (`stepX`)
  | newFails (j : Nat)    -- the j-th call of `operator new` throws
  deriving DecidableEq, Repr, Inhabited

def stepF (n : Nat) (s : St) (x : Op × Fault) : St × Out :=
  match x.2 with
  | .none => step n s x.1
  | .copyThrows => stepX n s (x.1, true)
  | .newFails j => stepNoMem n s x.1 j

def runF (n : Nat) (s : St) (xs : List (Op × Fault)) : St :=
  xs.foldl (fun s x => (stepF n s x).1) s

/-! ### the same on the abstract pool -/

def specNews (n : Nat) (p : APool) : Op → List NewKind
  | .ctorAny k src c =>
    if (decide (k < n) && (p k).isNone) && (p src).isSome && decide (c ≠ .rref) && (aHeld p src).isSome then newsOfClone (aHeld p src) else []
  | .ctorVal k c v =>
    if decide (k < n) && (p k).isNone then (if c ≠ .rref ∧ copyAllocates v = true then [.holder, .value] else [.holder]) else []
  | .asgnAny a b c =>
    if (p a).isSome && (p b).isSome && decide (c ≠ .rref) && (aHeld p b).isSome then newsOfClone (aHeld p b) else []
  | .asgnVal a c v =>
    if (p a).isSome then (if c ≠ .rref ∧ copyAllocates v = true then [.holder, .value] else [.holder]) else []
  | .castVal a t f =>
    match specCopied n p (.castVal a t f) with
    | some v => if copyAllocates v then [.value] else []
    | none => []
  | _ => []

/-- specification: an operation during which an allocation fails throws and changes nothing -/
def specStepF (n : Nat) (p : APool) (x : Op × Fault) : APool × Out :=
  match x.2 with
  | .none => specStep n p x.1
  | .copyThrows => specStepX n p (x.1, true)
  | .newFails j => if j < (specNews n p x.1).length then (p, .threw) else specStep n p x.1

def specRunF (n : Nat) (p : APool) (xs : List (Op × Fault)) : APool :=
  xs.foldl (fun p x => (specStepF n p x).1) p

end BFL.AnyBox
