import BFL.Proofs.Dir
/-
C19 — Directional statistics respect the circle.

Theorems about the model `wrap`, `dirAdd`, `dirSub`, `dirMean` (BFL/Model/Dir.lean) read over ℝ
(`atan2 y x = Complex.arg ⟨x, y⟩`), for all matrix shapes, all real angles and all weight vectors
named by the property.

`directional_mean` has a one-column shortcut in the source (the column is returned as is: not
wrapped, weight ignored).  For that shape four clauses of the property fail when the sample lies
outside (-π, π]; the full-strength statements are kept below as `Prop`s (`MeanEqArgResultant`,
`MeanShiftInvariant`, `MeanRotates`, `MeanInRange`), each with a `…_partial` theorem naming the
excluded inputs and a `…_counterexample` theorem proving the negation on a concrete witness
(`a = [7]`, `w = [1]`), which the check replays on the implementation in every run.
-/
namespace BFL.Dir
open Real

variable {r c : Nat}

/-! ## addition and subtraction -/

/-- `arg(exp(jθ))` is the representative of `θ` modulo `2π` in `(-π, π]`. -/
theorem wrap_eq_toIocMod (θ : ℝ) : wrap θ = toIocMod Real.two_pi_pos (-π) θ :=
  wrap_toIocMod θ

/-- `directional_sub(a, b)` is the wrapped ordinary difference. -/
theorem sub_eq_wrap_sub (a : Mat ℝ r c) (b : Vec ℝ r) (i : Fin r) (j : Fin c) :
    dirSub a b i j = wrap (a i j - b i) := by
  simp [dirSub, dirAdd, sub_eq_add_neg]

/-- values of `directional_add` lie in `(-π, π]` -/
theorem add_mem_Ioc (a : Mat ℝ r c) (b : Vec ℝ r) (i : Fin r) (j : Fin c) :
    dirAdd a b i j ∈ Set.Ioc (-π) π := wrap_mem _

/-- values of `directional_sub` lie in `(-π, π]` -/
theorem sub_mem_Ioc (a : Mat ℝ r c) (b : Vec ℝ r) (i : Fin r) (j : Fin c) :
    dirSub a b i j ∈ Set.Ioc (-π) π := wrap_mem _

/-- `directional_add` is congruent to the ordinary sum modulo `2π` -/
theorem add_congr_mod_two_pi (a : Mat ℝ r c) (b : Vec ℝ r) (i : Fin r) (j : Fin c) :
    ∃ k : ℤ, dirAdd a b i j = a i j + b i + k * (2 * π) := wrap_congr _

/-- `directional_sub` is congruent to the ordinary difference modulo `2π` -/
theorem sub_congr_mod_two_pi (a : Mat ℝ r c) (b : Vec ℝ r) (i : Fin r) (j : Fin c) :
    ∃ k : ℤ, dirSub a b i j = a i j - b i + k * (2 * π) := by
  rw [sub_eq_wrap_sub]; exact wrap_congr _

/-- the two facts above determine the value: it is *the* element of `(-π, π]` congruent to the sum -/
theorem add_unique (a : Mat ℝ r c) (b : Vec ℝ r) (i : Fin r) (j : Fin c) (x : ℝ)
    (hx : x ∈ Set.Ioc (-π) π) (hk : ∃ k : ℤ, x = a i j + b i + k * (2 * π)) : dirAdd a b i j = x := by
  obtain ⟨k, hk⟩ := hk
  have : dirAdd a b i j = wrap (a i j + b i) := rfl
  rw [this, ← wrap_add_int _ k, ← hk, wrap_of_mem hx]

/-- sums already in `(-π, π]` are returned unchanged -/
theorem add_eq_of_mem (a : Mat ℝ r c) (b : Vec ℝ r) (i : Fin r) (j : Fin c)
    (h : a i j + b i ∈ Set.Ioc (-π) π) : dirAdd a b i j = a i j + b i := wrap_of_mem h

/-- adding multiples of `2π` to any entry of either argument changes nothing -/
theorem add_shift_invariant (a a' : Mat ℝ r c) (b b' : Vec ℝ r)
    (ha : ∀ i j, ∃ k : ℤ, a' i j = a i j + k * (2 * π)) (hb : ∀ i, ∃ k : ℤ, b' i = b i + k * (2 * π)) :
    dirAdd a' b' = dirAdd a b := by
  ext i j
  obtain ⟨k, hk⟩ := ha i j
  obtain ⟨l, hl⟩ := hb i
  show wrap (a' i j + b' i) = wrap (a i j + b i)
  refine wrap_eq_of_congr ⟨k + l, ?_⟩
  rw [hk, hl]; push_cast; ring

/-- the same for subtraction -/
theorem sub_shift_invariant (a a' : Mat ℝ r c) (b b' : Vec ℝ r)
    (ha : ∀ i j, ∃ k : ℤ, a' i j = a i j + k * (2 * π)) (hb : ∀ i, ∃ k : ℤ, b' i = b i + k * (2 * π)) :
    dirSub a' b' = dirSub a b := by
  ext i j
  obtain ⟨k, hk⟩ := ha i j
  obtain ⟨l, hl⟩ := hb i
  rw [sub_eq_wrap_sub, sub_eq_wrap_sub]
  refine wrap_eq_of_congr ⟨k - l, ?_⟩
  rw [hk, hl]; push_cast; ring

/-- non-vacuity: an angle far outside `(-π, π]` and the branch point `π` itself -/
example : wrap (π + 1000 * (2 * π)) = π ∧ wrap π = π ∧ wrap (-π) = π := by
  have hπ : π ∈ Set.Ioc (-π) π := ⟨by linarith [Real.pi_pos], le_refl _⟩
  refine ⟨?_, wrap_of_mem hπ, ?_⟩
  · have := wrap_add_int π 1000
    push_cast at this
    rw [this, wrap_of_mem hπ]
  · have := wrap_add_int (-π) 1
    push_cast at this
    rw [← this, show -π + 1 * (2 * π) = π by ring, wrap_of_mem hπ]

/-! ## mean — full-strength statements (all shapes) -/

/-- "The directional mean equals the argument of the weighted resultant of the unit phasors." -/
def MeanEqArgResultant : Prop :=
  ∀ {r c : Nat} (a : Mat ℝ r c) (w : Vec ℝ c) (i : Fin r), resultant a w i ≠ 0 →
    dirMean a w i = Complex.arg (resultant a w i)

/-- "… it is unaffected by 2π shifts of any sample" -/
def MeanShiftInvariant : Prop :=
  ∀ {r c : Nat} (a a' : Mat ℝ r c) (w : Vec ℝ c) (i : Fin r), resultant a w i ≠ 0 →
    (∀ k, ∃ n : ℤ, a' i k = a i k + n * (2 * π)) → dirMean a' w i = dirMean a w i

/-- "… rotates with a common rotation of all samples" -/
def MeanRotates : Prop :=
  ∀ {r c : Nat} (a : Mat ℝ r c) (d : Vec ℝ r) (w : Vec ℝ c) (i : Fin r), resultant a w i ≠ 0 →
    dirMean (Mat.of (fun i k => a i k + d i)) w i = wrap (dirMean a w i + d i)

/-- an argument lies in `(-π, π]` -/
def MeanInRange : Prop :=
  ∀ {r c : Nat} (a : Mat ℝ r c) (w : Vec ℝ c) (i : Fin r), resultant a w i ≠ 0 →
    dirMean a w i ∈ Set.Ioc (-π) π

/-! ### what holds: every shape but the one-column shortcut with a sample outside (-π, π] -/

/-- Holds for every shape with `c ≠ 1` (with no condition on the resultant), and for one column when
    the sample is already in `(-π, π]` and the weight is positive. -/
theorem mean_eq_arg_resultant_partial (a : Mat ℝ r c) (w : Vec ℝ c) (i : Fin r)
    (hc : c = 1 → ∀ k, a i k ∈ Set.Ioc (-π) π ∧ 0 < w k) :
    dirMean a w i = Complex.arg (resultant a w i) := by
  by_cases h1 : c = 1
  · subst h1
    obtain ⟨hm, hw⟩ := hc rfl 0
    rw [dirMean_one, resultant_one, Complex.arg_real_mul _ hw, ← wrap_eq_arg, wrap_of_mem hm]
  · exact dirMean_multi a w i h1

/-- For `c ≠ 1`: exact invariance.  For every shape: invariance modulo `2π`. -/
theorem mean_shift_invariant_partial (a a' : Mat ℝ r c) (w : Vec ℝ c) (i : Fin r)
    (h : ∀ k, ∃ n : ℤ, a' i k = a i k + n * (2 * π)) :
    (c ≠ 1 → dirMean a' w i = dirMean a w i) ∧ ∃ n : ℤ, dirMean a' w i = dirMean a w i + n * (2 * π) := by
  have hm : c ≠ 1 → dirMean a' w i = dirMean a w i := fun hc => by
    rw [dirMean_multi a' w i hc, dirMean_multi a w i hc, resultant_shift a a' w i h]
  refine ⟨hm, ?_⟩
  by_cases h1 : c = 1
  · subst h1
    obtain ⟨n, hn⟩ := h 0
    exact ⟨n, by rw [dirMean_one, dirMean_one, hn]⟩
  · exact ⟨0, by rw [hm h1]; simp⟩

/-- For `c ≠ 1` and a non-zero resultant: the mean rotates with the samples.  For one column it does
    so modulo `2π` only (exactly iff the rotated sample is in `(-π, π]`). -/
theorem mean_rotates_partial (a : Mat ℝ r c) (d : Vec ℝ r) (w : Vec ℝ c) (i : Fin r)
    (hR : resultant a w i ≠ 0) :
    (c ≠ 1 → dirMean (Mat.of (fun i k => a i k + d i)) w i = wrap (dirMean a w i + d i)) ∧
    ∃ n : ℤ, dirMean (Mat.of (fun i k => a i k + d i)) w i = wrap (dirMean a w i + d i) + n * (2 * π) := by
  have hm : c ≠ 1 → dirMean (Mat.of (fun i k => a i k + d i)) w i = wrap (dirMean a w i + d i) :=
    fun hc => by
      rw [dirMean_multi _ w i hc, dirMean_multi a w i hc, resultant_rotate, arg_rotate _ hR]
  refine ⟨hm, ?_⟩
  by_cases h1 : c = 1
  · subst h1
    obtain ⟨k, hk⟩ := wrap_congr (dirMean a w i + d i)
    refine ⟨-k, ?_⟩
    rw [hk, dirMean_one, dirMean_one]
    simp only [Mat.of_apply]; push_cast; ring
  · exact ⟨0, by rw [hm h1]; simp⟩

/-- For `c ≠ 1` the mean is in `(-π, π]`. -/
theorem mean_in_range_partial (a : Mat ℝ r c) (w : Vec ℝ c) (i : Fin r) (hc : c ≠ 1) :
    dirMean a w i ∈ Set.Ioc (-π) π := by
  rw [dirMean_multi a w i hc]; exact Complex.arg_mem_Ioc _

/-! ### the one-column shortcut: counterexamples (`a = [7]`, `w = [1]`; resultant length 1) -/

private def a7 : Mat ℝ 1 1 := Mat.of (fun _ _ => 7)
private def a0 : Mat ℝ 1 1 := Mat.of (fun _ _ => 0)
private def w1 : Vec ℝ 1 := Vec.of (fun _ => 1)

private theorem res_ne (θ : ℝ) : resultant (Mat.of (fun _ _ => θ) : Mat ℝ 1 1) w1 0 ≠ 0 := by
  rw [resultant_one]
  simp [w1, Complex.exp_ne_zero]

theorem mean_one_column_counterexample : ¬ MeanEqArgResultant := by
  intro h
  have h1 := h a7 w1 0 (res_ne 7)
  rw [dirMean_one] at h1
  have h2 := Complex.arg_le_pi (resultant a7 w1 0)
  have h3 : a7 0 0 = 7 := rfl
  linarith [Real.pi_lt_four]

theorem mean_in_range_counterexample : ¬ MeanInRange := by
  intro h
  have h1 := (h a7 w1 0 (res_ne 7)).2
  rw [dirMean_one] at h1
  have h3 : a7 0 0 = 7 := rfl
  linarith [Real.pi_lt_four]

theorem mean_shift_invariant_counterexample : ¬ MeanShiftInvariant := by
  intro h
  have h1 := h a0 (Mat.of (fun _ _ => 2 * π)) w1 0 (res_ne 0) (fun k => ⟨1, by simp [a0]⟩)
  rw [dirMean_one, dirMean_one] at h1
  have h3 : a0 0 0 = 0 := rfl
  have h4 : (Mat.of (fun _ _ => 2 * π) : Mat ℝ 1 1) 0 0 = 2 * π := rfl
  linarith [Real.pi_pos]

theorem mean_rotates_counterexample : ¬ MeanRotates := by
  intro h
  have h1 := h a0 (Vec.of (fun _ => 7)) w1 0 (res_ne 0)
  rw [dirMean_one, dirMean_one] at h1
  have h2 := (wrap_mem (a0 0 0 + (Vec.of (fun _ => (7 : ℝ)) : Vec ℝ 1) 0)).2
  have h3 : (Mat.of (fun i k => a0 i k + (Vec.of (fun _ => (7 : ℝ)) : Vec ℝ 1) i) : Mat ℝ 1 1) 0 0 = 7 := by
    simp [a0]
  linarith [Real.pi_lt_four]

/-! ## mean — clauses that hold for every shape -/

/-- All samples of a row equal `θ`, total weight positive: the mean is `θ` as an angle (for every
    shape), it is `wrap θ` in the multi-column branch, and it is `θ` itself when `θ ∈ (-π, π]`. -/
theorem mean_const (a : Mat ℝ r c) (w : Vec ℝ c) (i : Fin r) (θ : ℝ)
    (ha : ∀ k, a i k = θ) (hw : 0 < ∑ k, w k) :
    resultant a w i ≠ 0 ∧
    (∃ n : ℤ, dirMean a w i = θ + n * (2 * π)) ∧
    (c ≠ 1 → dirMean a w i = wrap θ) ∧
    (θ ∈ Set.Ioc (-π) π → dirMean a w i = θ) := by
  have hres := resultant_const a w i θ ha
  have hne : resultant a w i ≠ 0 := by
    rw [hres]
    exact mul_ne_zero (by exact_mod_cast hw.ne') (Complex.exp_ne_zero _)
  have hm : c ≠ 1 → dirMean a w i = wrap θ := fun hc => by
    rw [dirMean_multi a w i hc, hres, Complex.arg_real_mul _ hw, wrap_eq_arg]
  have hcong : ∃ n : ℤ, dirMean a w i = θ + n * (2 * π) := by
    by_cases h1 : c = 1
    · subst h1
      exact ⟨0, by rw [dirMean_one, ha 0]; simp⟩
    · rw [hm h1]; exact wrap_congr θ
  refine ⟨hne, hcong, hm, fun hθ => ?_⟩
  by_cases h1 : c = 1
  · subst h1
    rw [dirMean_one, ha 0]
  · rw [hm h1, wrap_of_mem hθ]

/-- Positive weights, samples of a row clustered (as angles) within `δ < π/2` of a centre `m`, i.e.
    within an arc shorter than a half turn: the resultant does not vanish and the mean lies in the
    same arc.  Holds for every shape (for one column the sample itself is returned). -/
theorem mean_in_arc (a : Mat ℝ r c) (w : Vec ℝ c) (i : Fin r) (hc : 0 < c) (m δ : ℝ) (hδ : δ < π / 2)
    (hw : ∀ k, 0 < w k) (ha : ∀ k, ∃ n : ℤ, |a i k - m - n * (2 * π)| ≤ δ) :
    resultant a w i ≠ 0 ∧ ∃ n : ℤ, |dirMean a w i - m - n * (2 * π)| ≤ δ := by
  have h := resultant_in_arc a w i hc m δ hδ hw ha
  refine ⟨h.1, ?_⟩
  by_cases h1 : c = 1
  · subst h1
    rw [dirMean_one]; exact ha 0
  · rw [dirMean_multi a w i h1]; exact h.2

/-- non-vacuity of `mean_in_arc` / `mean_const`: two samples 0.2 apart straddling the branch cut,
    weights 1/2, centre π, half-width 0.1 -/
example : ∃ (a : Mat ℝ 1 2) (w : Vec ℝ 2) (m δ : ℝ), δ < π / 2 ∧ (∀ k, 0 < w k) ∧ 0 < ∑ k, w k ∧
    ∀ k, ∃ n : ℤ, |a 0 k - m - n * (2 * π)| ≤ δ := by
  refine ⟨Mat.of (fun _ k => if k = 0 then π - 0.1 else -π + 0.1), Vec.of (fun _ => 1 / 2), π, 0.1,
    by linarith [Real.pi_gt_three], fun k => by simp, by simp, fun k => ?_⟩
  by_cases hk : k = 0
  · refine ⟨0, ?_⟩
    simp only [Mat.of_apply, hk, if_true]
    rw [abs_le]; constructor <;> norm_num
  · refine ⟨-1, ?_⟩
    simp only [Mat.of_apply, hk, if_false]
    rw [abs_le]; constructor <;> push_cast <;> linarith [Real.pi_pos]

end BFL.Dir
