import BFL.Proofs.ShapeAugment
/-
C11 helper lemmas: contents after resize / augmentation / concatenation, element writes, the
step function on pools.
-/
namespace BFL.Shape

section
variable {α : Type}

/-! ### Means after `augmentWithNoise` -/

theorem augment_mean [Zero α] (x : Container α) (h : WF x) (a : Nat) (mean2 : Sto α)
    (hm : (augMean1 x a).assignBlock (x.dim + a - a) 0 a (augMean1 x a).cols (Sto.const a x.components 0)
      = some mean2) (i : Nat) (hi : i < x.components) :
    (∀ r, r < x.dim → mean2.get r i = x.mean.get r i) ∧
    (∀ r, x.dim ≤ r → r < x.dim + a → mean2.get r i = some 0) := by
  have hmc := h.meanCols
  constructor
  · intro r hr
    rw [Sto.assignBlock_get hm, if_neg (by omega)]
    simp only [augMean1, Sto.conservativeResize_get]
    rw [if_pos ⟨by omega, by omega⟩]
  · intro r hr1 hr2
    rw [Sto.assignBlock_get hm, if_pos ⟨by omega, by omega, by omega, by
      simp only [augMean1, Sto.conservativeResize_cols]; omega⟩]
    rw [Sto.const_get, if_pos ⟨by omega, by omega⟩]

/-! ### Resizing the number of components only -/

/-- `GaussianMixture::resize` with the layout unchanged and a different component count takes the
    conservative path. -/
theorem gmResize_components (x : Container α) (h : WF x) (k : Nat) (hk : x.components ≠ k) :
    gmResize x k x.dimLinear x.dimCircular =
      { x with
        mean := x.mean.conservativeResize x.mean.rows k
        cov := x.cov.conservativeResize x.cov.rows (x.dimCovariance * k)
        weight := x.weight.conservativeResize k 1
        components := k } := by
  obtain ⟨kind, comps, q, dcc, dim, dl, dci, dn, dcv, mean, cov, weight, state⟩ := x
  obtain ⟨hdcc, hdim, hdcov, hmr, hmc, hcr, hcc, hwr, hwc, hsr, hsc, hga⟩ := h
  simp only at hdcc hdim hdcov hmr hmc hcr hcc hwr hwc hsr hsc hga hk
  cases q <;> simp only [if_true, if_false, Bool.false_eq_true] at hdcc hdim hdcov <;> subst hdcc <;>
  simp only [gmResize, if_true, if_false, Bool.false_eq_true] <;>
  rw [if_neg (by omega), if_pos ⟨by omega, by omega, hk⟩] <;>
  congr 1 <;> omega

theorem psResize_components (x : Container α) (h : WF x) (hps : x.kind = Kind.ps) (k : Nat)
    (hk : x.components ≠ k) :
    psResize x k x.dimLinear x.dimCircular =
      { x with
        mean := x.mean.conservativeResize x.mean.rows k
        cov := x.cov.conservativeResize x.cov.rows (x.dimCovariance * k)
        weight := x.weight.conservativeResize k 1
        state := x.state.conservativeResize x.state.rows k
        components := k } := by
  obtain ⟨kind, comps, q, dcc, dim, dl, dci, dn, dcv, mean, cov, weight, state⟩ := x
  obtain ⟨hdcc, hdim, hdcov, hmr, hmc, hcr, hcc, hwr, hwc, hsr, hsc, hga⟩ := h
  simp only at hdcc hdim hdcov hmr hmc hcr hcc hwr hwc hsr hsc hga hk hps
  cases q <;> simp only [if_true, if_false, Bool.false_eq_true] at hdcc hdim hdcov <;> subst hdcc <;>
  simp only [psResize, gmResize, if_true, if_false, Bool.false_eq_true] <;>
  rw [if_neg (by omega), if_pos ⟨by omega, hk⟩, if_neg (by omega), if_pos ⟨by omega, by omega, hk⟩] <;>
  congr 1 <;> omega

/-- **Changing only the number of components preserves the surviving components** (virtual
    `resize` of a mixture or particle set): all other fields keep their values and every cell of
    components `i < min(old, new)` — mean column, covariance block, weight, particle state — is the
    cell it was. -/
theorem resize_components_data (x : Container α) (h : WF x) (k : Nat) :
    let y := resize x k x.dimLinear x.dimCircular
    y.components = k ∧ y.kind = x.kind ∧ y.useQuaternion = x.useQuaternion ∧
    y.dimCircularComponent = x.dimCircularComponent ∧ y.dim = x.dim ∧ y.dimLinear = x.dimLinear ∧
    y.dimCircular = x.dimCircular ∧ y.dimNoise = x.dimNoise ∧ y.dimCovariance = x.dimCovariance ∧
    (∀ i r, i < x.components → i < k → y.mean.get r i = x.mean.get r i) ∧
    (∀ i r c, i < x.components → i < k → c < x.dimCovariance →
      y.cov.get r (x.dimCovariance * i + c) = x.cov.get r (x.dimCovariance * i + c)) ∧
    (∀ i, i < x.components → i < k → y.weight.get i 0 = x.weight.get i 0) ∧
    (x.kind = Kind.ps → ∀ i r, i < x.components → i < k → y.state.get r i = x.state.get r i) := by
  intro y
  by_cases hk : x.components = k
  · -- early return
    have hy : y = x := by
      simp only [y, resize]
      split <;> simp [psResize, gmResize, hk]
    rw [hy]
    simp [hk]
  · have hcolk : ∀ i c, i < k → c < x.dimCovariance → x.dimCovariance * i + c < x.dimCovariance * k := by
      intro i c hi hc
      have := radix_lt hi hc
      rw [Nat.mul_comm x.dimCovariance k, Nat.mul_comm x.dimCovariance i]; exact this
    have hcell : ∀ (s : Sto α) (r c i j : Nat), j < c → ((i < r → (s.conservativeResize r c).get i j = s.get i j)) := by
      intro s r c i j hj hi
      rw [Sto.conservativeResize_get, if_pos ⟨hi, hj⟩]
    have hrow : ∀ (s : Sto α) (c i j : Nat), j < c → (s.conservativeResize s.rows c).get i j = s.get i j := by
      intro s c i j hj
      by_cases hi : i < s.rows
      · exact hcell s _ c i j hj hi
      · rw [Sto.conservativeResize_get, if_neg (by omega), Sto.get_none_of_not_lt _ _ _ (by omega)]
    by_cases hps : x.kind = Kind.ps
    · have hy : y = psResize x k x.dimLinear x.dimCircular := by
        simp only [y, resize, hps]
      rw [hy, psResize_components x h hps k hk]
      refine ⟨rfl, rfl, rfl, rfl, rfl, rfl, rfl, rfl, rfl, ?_, ?_, ?_, ?_⟩
      · intro i r _ hik; exact hrow _ _ _ _ hik
      · intro i r c _ hik hc; exact hrow _ _ _ _ (hcolk i c hik hc)
      · intro i hi hik
        simp only [Sto.conservativeResize_get]
        rw [if_pos ⟨hik, by omega⟩]
      · intro _ i r _ hik; exact hrow _ _ _ _ hik
    · have hy : y = gmResize x k x.dimLinear x.dimCircular := by
        simp only [y, resize]
      rw [hy, gmResize_components x h k hk]
      refine ⟨rfl, rfl, rfl, rfl, rfl, rfl, rfl, rfl, rfl, ?_, ?_, ?_, ?_⟩
      · intro i r _ hik; exact hrow _ _ _ _ hik
      · intro i r c _ hik hc; exact hrow _ _ _ _ (hcolk i c hik hc)
      · intro i hi hik
        simp only [Sto.conservativeResize_get]
        rw [if_pos ⟨hik, by omega⟩]
      · intro hh; exact absurd hh hps

/-- `resize(k, …)` always ends with `k` components. -/
theorem gmResize_components_eq (x : Container α) (k l c : Nat) : (gmResize x k l c).components = k := by
  simp only [gmResize]
  split_ifs <;> first | rfl | simp_all

theorem resize_components_eq (x : Container α) (k l c : Nat) : (resize x k l c).components = k := by
  unfold resize
  split
  · simp only [psResize]
    split_ifs with h1 h2
    · exact h1.2.2
    · exact gmResize_components_eq _ k l c
    · exact gmResize_components_eq _ k l c
  · exact gmResize_components_eq x k l c

/-! ### Concatenation -/

/-- What `concat` computes when none of its four block assignments asserts. -/
theorem concat_some {x rhs y : Container α} (h : concat x rhs = some y) :
    ∃ state2 mean2 cov2 weight2,
      (x.state.conservativeResize x.state.rows (x.components + rhs.components)).assignBlock 0
        (x.components + rhs.components - rhs.components) x.state.rows rhs.components rhs.state = some state2 ∧
      (x.mean.conservativeResize x.mean.rows (x.components + rhs.components)).assignBlock 0
        (x.components + rhs.components - rhs.components) x.mean.rows rhs.components rhs.mean = some mean2 ∧
      (x.cov.conservativeResize x.cov.rows (x.dimCovariance * (x.components + rhs.components))).assignBlock 0
        (x.dimCovariance * (x.components + rhs.components) - x.dimCovariance * rhs.components) x.cov.rows
        (x.dimCovariance * rhs.components) rhs.cov = some cov2 ∧
      (x.weight.conservativeResize (x.components + rhs.components) 1).assignBlock
        (x.components + rhs.components - rhs.components) 0 rhs.components 1 rhs.weight = some weight2 ∧
      y = { x with state := state2, mean := mean2, cov := cov2, weight := weight2,
                   components := x.components + rhs.components } := by
  unfold concat at h
  simp only [Sto.conservativeResize_rows, Sto.conservativeResize_cols] at h
  split at h
  · cases h
  · next s2 hs2 =>
    split at h
    · cases h
    · next m2 hm2 =>
      split at h
      · cases h
      · next c2 hc2 =>
        split at h
        · cases h
        · next w2 hw2 =>
          cases h
          exact ⟨s2, m2, c2, w2, hs2, hm2, hc2, hw2, rfl⟩

/-- What `operator+=` requires of its operands: equal row counts of state, mean and covariance
    storage, and the right operand's storage consistent with its component count.  Otherwise one
    of the `rightCols(…) = rhs.…` assignments trips an Eigen assertion. -/
theorem concat_isSome_iff (x rhs : Container α) :
    (∃ y, concat x rhs = some y) ↔
      (rhs.state.rows = x.state.rows ∧ rhs.state.cols = rhs.components) ∧
      (rhs.mean.rows = x.mean.rows ∧ rhs.mean.cols = rhs.components) ∧
      (rhs.cov.rows = x.cov.rows ∧ rhs.cov.cols = x.dimCovariance * rhs.components) ∧
      (rhs.weight.rows = rhs.components ∧ rhs.weight.cols = 1) := by
  have hmul : x.dimCovariance * rhs.components ≤ x.dimCovariance * (x.components + rhs.components) :=
    Nat.mul_le_mul_left _ (Nat.le_add_left _ _)
  constructor
  · rintro ⟨y, hy⟩
    obtain ⟨s2, m2, c2, w2, hs, hm, hc, hw, _⟩ := concat_some hy
    have a := Sto.assignBlock_cond hs
    have b := Sto.assignBlock_cond hm
    have c := Sto.assignBlock_cond hc
    have d := Sto.assignBlock_cond hw
    simp only [Sto.conservativeResize_rows, Sto.conservativeResize_cols] at a b c d
    exact ⟨⟨a.2.2.1, a.2.2.2⟩, ⟨b.2.2.1, b.2.2.2⟩, ⟨c.2.2.1, c.2.2.2⟩, ⟨d.2.2.1, d.2.2.2⟩⟩
  · rintro ⟨⟨a1, a2⟩, ⟨b1, b2⟩, ⟨c1, c2⟩, ⟨d1, d2⟩⟩
    obtain ⟨s2, hs⟩ := Sto.assignBlock_isSome
      (x.state.conservativeResize x.state.rows (x.components + rhs.components)) rhs.state 0
      (x.components + rhs.components - rhs.components) x.state.rows rhs.components
      (by simp only [Sto.conservativeResize_rows, Sto.conservativeResize_cols]; omega)
    obtain ⟨m2, hm⟩ := Sto.assignBlock_isSome
      (x.mean.conservativeResize x.mean.rows (x.components + rhs.components)) rhs.mean 0
      (x.components + rhs.components - rhs.components) x.mean.rows rhs.components
      (by simp only [Sto.conservativeResize_rows, Sto.conservativeResize_cols]; omega)
    obtain ⟨cv2, hc⟩ := Sto.assignBlock_isSome
      (x.cov.conservativeResize x.cov.rows (x.dimCovariance * (x.components + rhs.components))) rhs.cov 0
      (x.dimCovariance * (x.components + rhs.components) - x.dimCovariance * rhs.components) x.cov.rows
      (x.dimCovariance * rhs.components)
      (by simp only [Sto.conservativeResize_rows, Sto.conservativeResize_cols]; omega)
    obtain ⟨w2, hw⟩ := Sto.assignBlock_isSome
      (x.weight.conservativeResize (x.components + rhs.components) 1) rhs.weight
      (x.components + rhs.components - rhs.components) 0 rhs.components 1
      (by simp only [Sto.conservativeResize_rows, Sto.conservativeResize_cols]; omega)
    refine ⟨{ x with state := s2, mean := m2, cov := cv2, weight := w2,
                     components := x.components + rhs.components }, ?_⟩
    unfold concat
    simp only [Sto.conservativeResize_rows, Sto.conservativeResize_cols, hs, hm, hc, hw]

/-- Concatenation keeps a particle set well-formed (it keeps the left operand's layout). -/
theorem wf_concat {x rhs y : Container α} (hx : WF x) (_hr : WF rhs) (hps : x.kind = Kind.ps)
    (h : concat x rhs = some y) : WF y := by
  obtain ⟨s2, m2, c2, w2, hs, hm, hc, hw, rfl⟩ := concat_some h
  have a := Sto.assignBlock_dims hs
  have b := Sto.assignBlock_dims hm
  have c := Sto.assignBlock_dims hc
  have d := Sto.assignBlock_dims hw
  simp only [Sto.conservativeResize_rows, Sto.conservativeResize_cols] at a b c d
  obtain ⟨hdcc, hdim, hdcov, hmr, hmc, hcr, hcc, hwr, hwc, hsr, hsc, hga⟩ := hx
  refine ⟨hdcc, hdim, hdcov, by rw [b.1]; exact hmr, b.2, by rw [c.1]; exact hcr, c.2,
    d.1, d.2, fun hk => by rw [a.1]; exact hsr hk, fun _ => a.2, ?_⟩
  intro hk
  simp only at hk
  rw [hps] at hk
  cases hk

/-- `m.conservativeResize(NoChange, n0 + n1); m.rightCols(n1) = t`: the first `n0` columns are the
    old ones, the next `n1` columns are those of `t`. -/
theorem appendCols_get {s t u : Sto α} {n0 n1 : Nat}
    (h : (s.conservativeResize s.rows (n0 + n1)).assignBlock 0 (n0 + n1 - n1) s.rows n1 t = some u) :
    (∀ r j, j < n0 → u.get r j = s.get r j) ∧ (∀ r j, j < n1 → u.get r (n0 + j) = t.get r j) := by
  have hc := Sto.assignBlock_cond h
  simp only [Sto.conservativeResize_rows, Sto.conservativeResize_cols] at hc
  constructor
  · intro r j hj
    rw [Sto.assignBlock_get h, if_neg (by omega), Sto.conservativeResize_get]
    by_cases hr : r < s.rows
    · rw [if_pos ⟨hr, by omega⟩]
    · rw [if_neg (by omega), Sto.get_none_of_not_lt _ _ _ (by omega)]
  · intro r j hj
    rw [Sto.assignBlock_get h]
    by_cases hr : r < s.rows
    · rw [if_pos ⟨by omega, by omega, by omega, by omega⟩]
      congr 1; omega
    · rw [if_neg (by omega), Sto.conservativeResize_get, if_neg (by omega),
        Sto.get_none_of_not_lt _ _ _ (by omega)]

/-- `w.conservativeResize(n0 + n1); w.tail(n1) = t`. -/
theorem appendRows_get {s t u : Sto α} {n0 n1 : Nat}
    (h : (s.conservativeResize (n0 + n1) 1).assignBlock (n0 + n1 - n1) 0 n1 1 t = some u) :
    (∀ i, i < n0 → u.get i 0 = s.get i 0) ∧ (∀ i, i < n1 → u.get (n0 + i) 0 = t.get i 0) := by
  have hc := Sto.assignBlock_cond h
  simp only [Sto.conservativeResize_rows, Sto.conservativeResize_cols] at hc
  constructor
  · intro i hi
    rw [Sto.assignBlock_get h, if_neg (by omega), Sto.conservativeResize_get, if_pos ⟨by omega, by omega⟩]
  · intro i hi
    rw [Sto.assignBlock_get h, if_pos ⟨by omega, by omega, by omega, by omega⟩]
    congr 1; omega

/-- **Concatenation yields the components of both operands in order**: the result has
    `components = left + right`; its first `left` components are the left operand's (mean column,
    covariance block, weight, particle state), the following `right` ones the right operand's. -/
theorem concat_data {x rhs y : Container α} (h : concat x rhs = some y) :
    y.components = x.components + rhs.components ∧
    y.kind = x.kind ∧ y.useQuaternion = x.useQuaternion ∧ y.dimCircularComponent = x.dimCircularComponent ∧
    y.dim = x.dim ∧ y.dimLinear = x.dimLinear ∧ y.dimCircular = x.dimCircular ∧ y.dimNoise = x.dimNoise ∧
    y.dimCovariance = x.dimCovariance ∧
    (∀ i r, i < x.components → y.mean.get r i = x.mean.get r i) ∧
    (∀ i r, i < rhs.components → y.mean.get r (x.components + i) = rhs.mean.get r i) ∧
    (∀ i r c, i < x.components → c < x.dimCovariance →
      y.cov.get r (x.dimCovariance * i + c) = x.cov.get r (x.dimCovariance * i + c)) ∧
    (∀ i r c, i < rhs.components → c < x.dimCovariance →
      y.cov.get r (x.dimCovariance * (x.components + i) + c) = rhs.cov.get r (x.dimCovariance * i + c)) ∧
    (∀ i, i < x.components → y.weight.get i 0 = x.weight.get i 0) ∧
    (∀ i, i < rhs.components → y.weight.get (x.components + i) 0 = rhs.weight.get i 0) ∧
    (∀ i r, i < x.components → y.state.get r i = x.state.get r i) ∧
    (∀ i r, i < rhs.components → y.state.get r (x.components + i) = rhs.state.get r i) := by
  obtain ⟨s2, m2, c2, w2, hs, hm, hc, hw, rfl⟩ := concat_some h
  rw [Nat.mul_add] at hc
  have hS := appendCols_get hs
  have hM := appendCols_get hm
  have hC := appendCols_get hc
  have hW := appendRows_get hw
  have hcol : ∀ i c k, i < k → c < x.dimCovariance → x.dimCovariance * i + c < x.dimCovariance * k := by
    intro i c k hi hc
    have := radix_lt hi hc
    rw [Nat.mul_comm x.dimCovariance k, Nat.mul_comm x.dimCovariance i]; exact this
  refine ⟨rfl, rfl, rfl, rfl, rfl, rfl, rfl, rfl, rfl, ?_, ?_, ?_, ?_, ?_, ?_, ?_, ?_⟩
  · intro i r hi; exact hM.1 r i hi
  · intro i r hi; exact hM.2 r i hi
  · intro i r c hi hcc; exact hC.1 r _ (hcol i c _ hi hcc)
  · intro i r c hi hcc
    have := hC.2 r _ (hcol i c _ hi hcc)
    simp only at this ⊢
    rw [Nat.mul_add, Nat.add_assoc]
    exact this
  · intro i hi; exact hW.1 i hi
  · intro i hi; exact hW.2 i hi
  · intro i r hi; exact hS.1 r i hi
  · intro i r hi; exact hS.2 r i hi

/-! ### Element writes and fills -/

theorem wf_of_same_dims {x y : Container α} (h : WF x)
    (h0 : y.kind = x.kind ∧ y.components = x.components ∧ y.useQuaternion = x.useQuaternion ∧
      y.dimCircularComponent = x.dimCircularComponent ∧ y.dim = x.dim ∧ y.dimLinear = x.dimLinear ∧
      y.dimCircular = x.dimCircular ∧ y.dimNoise = x.dimNoise ∧ y.dimCovariance = x.dimCovariance)
    (hm : y.mean.rows = x.mean.rows ∧ y.mean.cols = x.mean.cols)
    (hc : y.cov.rows = x.cov.rows ∧ y.cov.cols = x.cov.cols)
    (hw : y.weight.rows = x.weight.rows ∧ y.weight.cols = x.weight.cols)
    (hs : y.state.rows = x.state.rows ∧ y.state.cols = x.state.cols) : WF y := by
  obtain ⟨e1, e2, e3, e4, e5, e6, e7, e8, e9⟩ := h0
  obtain ⟨hdcc, hdim, hdcov, hmr, hmc, hcr, hcc, hwr, hwc, hsr, hsc, hga⟩ := h
  constructor <;> simp only [e1, e2, e3, e4, e5, e6, e7, e8, e9, hm.1, hm.2, hc.1, hc.2, hw.1, hw.2, hs.1, hs.2] <;>
  assumption

theorem wf_writeMean {x y : Container α} {i j : Nat} {v : α} (h : WF x) (hy : writeMean x i j v = some y) : WF y := by
  unfold writeMean at hy
  cases hm : x.mean.write j i v with
  | none => simp [hm] at hy
  | some m =>
    simp only [hm, Option.map_some, Option.some.injEq] at hy
    subst hy
    exact wf_of_same_dims h ⟨rfl, rfl, rfl, rfl, rfl, rfl, rfl, rfl, rfl⟩ (Sto.write_dims hm) ⟨rfl, rfl⟩ ⟨rfl, rfl⟩ ⟨rfl, rfl⟩

theorem wf_writeCov {x y : Container α} {i j k : Nat} {v : α} (h : WF x) (hy : writeCov x i j k v = some y) : WF y := by
  unfold writeCov at hy
  cases hm : x.cov.write j (x.dimCovariance * i + k) v with
  | none => simp [hm] at hy
  | some m =>
    simp only [hm, Option.map_some, Option.some.injEq] at hy
    subst hy
    exact wf_of_same_dims h ⟨rfl, rfl, rfl, rfl, rfl, rfl, rfl, rfl, rfl⟩ ⟨rfl, rfl⟩ (Sto.write_dims hm) ⟨rfl, rfl⟩ ⟨rfl, rfl⟩

theorem wf_writeWeight {x y : Container α} {i : Nat} {v : α} (h : WF x) (hy : writeWeight x i v = some y) : WF y := by
  unfold writeWeight at hy
  cases hm : x.weight.write i 0 v with
  | none => simp [hm] at hy
  | some m =>
    simp only [hm, Option.map_some, Option.some.injEq] at hy
    subst hy
    exact wf_of_same_dims h ⟨rfl, rfl, rfl, rfl, rfl, rfl, rfl, rfl, rfl⟩ ⟨rfl, rfl⟩ ⟨rfl, rfl⟩ (Sto.write_dims hm) ⟨rfl, rfl⟩

theorem wf_writeState {x y : Container α} {i j : Nat} {v : α} (h : WF x) (hy : writeState x i j v = some y) : WF y := by
  unfold writeState at hy
  cases hm : x.state.write j i v with
  | none => simp [hm] at hy
  | some m =>
    simp only [hm, Option.map_some, Option.some.injEq] at hy
    subst hy
    exact wf_of_same_dims h ⟨rfl, rfl, rfl, rfl, rfl, rfl, rfl, rfl, rfl⟩ ⟨rfl, rfl⟩ ⟨rfl, rfl⟩ ⟨rfl, rfl⟩ (Sto.write_dims hm)

theorem wf_fill {x y : Container α} {val : Nat → Nat → Nat → α} (h : WF x) (hy : fill x val = some y) : WF y := by
  unfold fill at hy
  split at hy
  · cases hy
    refine wf_of_same_dims h ⟨rfl, rfl, rfl, rfl, rfl, rfl, rfl, rfl, rfl⟩ ⟨rfl, rfl⟩ ⟨rfl, rfl⟩ ⟨rfl, rfl⟩ ?_
    simp only
    split_ifs <;> exact ⟨rfl, rfl⟩
  · cases hy

/-- On a well-formed container the block accessors used by `fill` are all inside the storage. -/
theorem fill_defined (x : Container α) (val : Nat → Nat → Nat → α) (h : WF x) : ∃ y, fill x val = some y := by
  unfold fill
  rw [if_pos]
  · exact ⟨_, rfl⟩
  · refine ⟨by rw [h.meanCols]; exact Nat.le_refl _, by rw [h.covCols]; exact Nat.le_refl _,
      by rw [h.weightRows]; exact Nat.le_refl _, fun hk => by rw [h.stateCols hk]; exact Nat.le_refl _⟩

/-! ### Operation sequences on a pool -/

theorem poolWF_set {p : Pool α} {s : Nat} {x : Container α} (hp : PoolWF p) (hx : WF x) : PoolWF (p.set s x) := by
  intro t y hy
  unfold Pool.set at hy
  split_ifs at hy
  · cases hy; exact hx
  · exact hp t y hy

theorem poolWF_empty : PoolWF (emptyPool : Pool α) := by
  intro s x h
  cases h

theorem onSlot_wf {p p' : Pool α} {s : Nat} {ok : Container α → Bool} {f : Container α → Option (Container α)}
    (hp : PoolWF p) (hf : ∀ x y, WF x → ok x = true → f x = some y → WF y)
    (h : onSlot p s ok f = Outcome.ok p') : PoolWF p' := by
  unfold onSlot at h
  split at h
  · cases h
  · next x hx =>
    split_ifs at h with hok
    split at h
    · next y hy =>
      cases h
      exact poolWF_set hp (hf x y (hp s x hx) hok hy)
    · cases h

/-- **Every operation keeps every live object well-formed.** -/
theorem wf_step_pool [Zero α] [One α] [Div α] [NatCast α] (p p' : Pool α) (op : Op α) (hp : PoolWF p)
    (hd : Disciplined p op) (h : step p op = Outcome.ok p') : PoolWF p' := by
  cases op with
  | ctorDefault dst kind init =>
    simp only [step, Outcome.ok.injEq] at h
    subst h
    exact poolWF_set hp (wf_ctorDefault kind init)
  | ctorDim dst kind k d init =>
    simp only [step, Outcome.ok.injEq] at h
    subst h
    exact poolWF_set hp (wf_ctorDim kind k d init)
  | ctorLayout dst kind k l c q init =>
    simp only [step, Outcome.ok.injEq] at h
    subst h
    exact poolWF_set hp (wf_ctorLayout kind k l c q init)
  | copy dst src =>
    simp only [step] at h
    split at h
    · next x hx => cases h; exact poolWF_set hp (hp src x hx)
    · cases h
  | slice dst src =>
    simp only [step] at h
    split at h
    · next x hx =>
      cases h
      apply poolWF_set hp
      obtain ⟨hdcc, hdim, hdcov, hmr, hmc, hcr, hcc, hwr, hwc, hsr, hsc, hga⟩ := hp src x hx
      exact ⟨hdcc, hdim, hdcov, hmr, hmc, hcr, hcc, hwr, hwc, (by intro hk; cases hk), (by intro hk; cases hk),
        (by intro hk; cases hk)⟩
    · cases h
  | resize s k l c =>
    simp only [step] at h
    have hd' : ∀ x, p s = some x → x.kind = Kind.gaussian → k = 1 := hd
    unfold onSlot at h
    split at h
    · cases h
    · next x hx =>
      simp only [if_true] at h
      cases h
      apply poolWF_set hp
      by_cases hg : x.kind = Kind.gaussian
      · have hk1 := hd' x hx hg
        subst hk1
        have : resize x 1 l c = gaussianResize x l c := by simp [resize, gaussianResize, hg]
        rw [this]
        exact wf_gaussianResize x (hp s x hx) l c hg
      · exact wf_resize x (hp s x hx) k l c hg
  | gaussianResize s l c =>
    simp only [step] at h
    refine onSlot_wf hp ?_ h
    intro x y hx hok hy
    simp only [beq_iff_eq] at hok
    cases hy
    exact wf_gaussianResize x hx l c hok
  | augment s qr qc q =>
    simp only [step] at h
    refine onSlot_wf hp ?_ h
    intro x y hx _ hy
    cases ha : augment x qr qc q with
    | none => simp [ha] at hy
    | some yb =>
      obtain ⟨y', b⟩ := yb
      simp only [ha, Option.map_some, Option.some.injEq] at hy
      subst hy
      exact wf_augment x hx qr qc q y' b ha
  | augmentSelf s i =>
    simp only [step] at h
    refine onSlot_wf hp ?_ h
    intro x y hx _ hy
    unfold augmentSelf at hy
    split_ifs at hy
    · cases ha : augmentO x x.cov.rows x.dimCovariance (fun r c => x.cov.get r (x.dimCovariance * i + c)) with
      | none => simp [ha] at hy
      | some yb =>
        obtain ⟨y', b⟩ := yb
        simp only [ha, Option.map_some, Option.some.injEq] at hy
        subst hy
        exact wf_augmentO x hx _ _ _ y' b ha
    · simp at hy
  | move dst src =>
    simp only [step] at h
    split at h
    · next x hx =>
      split_ifs at h
      cases h
      intro t y hy
      simp only at hy
      split_ifs at hy
      exact poolWF_set hp (hp src x hx) t y hy
    · cases h
  | baseAssign dst src =>
    simp only [step] at h
    split at h
    · next x r hx hr =>
      cases h
      apply poolWF_set hp
      have hd' := (show ∀ x r, p dst = some x → p src = some r →
        (x.kind = Kind.ps → x.state.rows = r.dim - r.dimNoise ∧ x.state.cols = r.components) ∧
        (x.kind = Kind.gaussian → r.components = 1) from hd) x r hx hr
      obtain ⟨hdcc, hdim, hdcov, hmr, hmc, hcr, hcc, hwr, hwc, _, _, _⟩ := hp src r hr
      exact ⟨hdcc, hdim, hdcov, hmr, hmc, hcr, hcc, hwr, hwc, fun hk => (hd'.1 hk).1, fun hk => (hd'.1 hk).2,
        fun hk => hd'.2 hk⟩
    · cases h
  | concatAssign dst src =>
    simp only [step] at h
    split at h
    · next x r hx hr =>
      split_ifs at h with hk
      split at h
      · next y hy =>
        cases h
        exact poolWF_set hp (wf_concat (hp dst x hx) (hp src r hr) hk.1 hy)
      · cases h
    · cases h
  | concatPlus dst a b =>
    simp only [step] at h
    split at h
    · next x r hx hr =>
      split_ifs at h with hk
      split at h
      · next y hy =>
        cases h
        exact poolWF_set hp (wf_concat (hp a x hx) (hp b r hr) hk.1 hy)
      · cases h
    · cases h
  | writeMean s i j v =>
    simp only [step] at h
    exact onSlot_wf hp (fun x y hx _ hy => wf_writeMean hx hy) h
  | writeCov s i j k v =>
    simp only [step] at h
    exact onSlot_wf hp (fun x y hx _ hy => wf_writeCov hx hy) h
  | writeWeight s i v =>
    simp only [step] at h
    exact onSlot_wf hp (fun x y hx _ hy => wf_writeWeight hx hy) h
  | writeState s i j v =>
    simp only [step] at h
    exact onSlot_wf hp (fun x y hx _ hy => wf_writeState hx hy) h
  | fill s val =>
    simp only [step] at h
    exact onSlot_wf hp (fun x y hx _ hy => wf_fill hx hy) h

theorem wf_runFrom [Zero α] [One α] [Div α] [NatCast α] (ops : List (Op α)) (p : Pool α) (hp : PoolWF p)
    (hd : DisciplinedFrom p ops) : PoolWF (runFrom p ops).1 := by
  induction ops generalizing p with
  | nil => exact hp
  | cons op ops ih =>
    obtain ⟨hd1, hd2⟩ := hd
    simp only [runFrom]
    split
    · next p' h =>
      rw [h] at hd2
      exact ih p' (wf_step_pool p p' op hp hd1 h) hd2
    · next h =>
      rw [h] at hd2
      exact ih p hp hd2
    · exact hp

/-! ### Accessor blocks -/

theorem covBlock_in_range (x : Container α) (h : WF x) (i : Nat) (hi : i < x.components) :
    (covBlock x i).1 + (covBlock x i).2 ≤ x.cov.cols := by
  simp only [covBlock, h.covCols]
  have := Nat.mul_le_mul_left x.dimCovariance (Nat.succ_le_of_lt hi)
  rw [Nat.mul_succ] at this
  exact this

theorem covBlock_disjoint (x : Container α) (i j : Nat) (hij : i < j) :
    (covBlock x i).1 + (covBlock x i).2 ≤ (covBlock x j).1 := by
  simp only [covBlock]
  have := Nat.mul_le_mul_left x.dimCovariance (Nat.succ_le_of_lt hij)
  rw [Nat.mul_succ] at this
  exact this

theorem covBlock_cover (x : Container α) (h : WF x) (c : Nat) (hc : c < x.cov.cols) :
    ∃ i, i < x.components ∧ (covBlock x i).1 ≤ c ∧ c < (covBlock x i).1 + (covBlock x i).2 := by
  rw [h.covCols] at hc
  have hd : 0 < x.dimCovariance := by
    rcases Nat.eq_zero_or_pos x.dimCovariance with h0 | h0
    · rw [h0, Nat.zero_mul] at hc; omega
    · exact h0
  refine ⟨c / x.dimCovariance, Nat.div_lt_of_lt_mul hc, ?_, ?_⟩
  · simp only [covBlock]; exact Nat.mul_div_le c x.dimCovariance
  · simp only [covBlock]; exact Nat.lt_mul_div_succ c hd

/-! ### Writes land in the addressed cell -/

theorem writeMean_get {x y : Container α} {i j : Nat} {v : α} (hy : writeMean x i j v = some y) :
    (∀ r c, y.mean.get r c = if r = j ∧ c = (meanBlock x i).1 then some v else x.mean.get r c) ∧
    y.cov = x.cov ∧ y.weight = x.weight ∧ y.state = x.state := by
  unfold writeMean at hy
  cases hm : x.mean.write j i v with
  | none => simp [hm] at hy
  | some m =>
    simp only [hm, Option.map_some, Option.some.injEq] at hy
    subst hy
    exact ⟨fun r c => Sto.write_get hm r c, rfl, rfl, rfl⟩

theorem writeCov_get {x y : Container α} {i j k : Nat} {v : α} (hy : writeCov x i j k v = some y) :
    (∀ r c, y.cov.get r c = if r = j ∧ c = (covBlock x i).1 + k then some v else x.cov.get r c) ∧
    y.mean = x.mean ∧ y.weight = x.weight ∧ y.state = x.state := by
  unfold writeCov at hy
  cases hm : x.cov.write j (x.dimCovariance * i + k) v with
  | none => simp [hm] at hy
  | some m =>
    simp only [hm, Option.map_some, Option.some.injEq] at hy
    subst hy
    exact ⟨fun r c => Sto.write_get hm r c, rfl, rfl, rfl⟩

theorem writeWeight_get {x y : Container α} {i : Nat} {v : α} (hy : writeWeight x i v = some y) :
    (∀ r c, y.weight.get r c = if r = weightIndex x i ∧ c = 0 then some v else x.weight.get r c) ∧
    y.mean = x.mean ∧ y.cov = x.cov ∧ y.state = x.state := by
  unfold writeWeight at hy
  cases hm : x.weight.write i 0 v with
  | none => simp [hm] at hy
  | some m =>
    simp only [hm, Option.map_some, Option.some.injEq] at hy
    subst hy
    exact ⟨fun r c => Sto.write_get hm r c, rfl, rfl, rfl⟩

theorem writeState_get {x y : Container α} {i j : Nat} {v : α} (hy : writeState x i j v = some y) :
    (∀ r c, y.state.get r c = if r = j ∧ c = (stateBlock x i).1 then some v else x.state.get r c) ∧
    y.mean = x.mean ∧ y.cov = x.cov ∧ y.weight = x.weight := by
  unfold writeState at hy
  cases hm : x.state.write j i v with
  | none => simp [hm] at hy
  | some m =>
    simp only [hm, Option.map_some, Option.some.injEq] at hy
    subst hy
    exact ⟨fun r c => Sto.write_get hm r c, rfl, rfl, rfl⟩

/-! ### An operation writes only to its destination slot -/

/-- The slot an operation writes to. -/
def Op.dst : Op α → Nat
  | Op.ctorDefault d _ _ => d
  | Op.ctorDim d _ _ _ _ => d
  | Op.ctorLayout d _ _ _ _ _ _ => d
  | Op.copy d _ => d
  | Op.slice d _ => d
  | Op.resize s _ _ _ => s
  | Op.gaussianResize s _ _ => s
  | Op.augment s _ _ _ => s
  | Op.augmentSelf s _ => s
  | Op.move d _ => d
  | Op.baseAssign d _ => d
  | Op.concatAssign d _ => d
  | Op.concatPlus d _ _ => d
  | Op.writeMean s _ _ _ => s
  | Op.writeCov s _ _ _ _ => s
  | Op.writeWeight s _ _ => s
  | Op.writeState s _ _ _ => s
  | Op.fill s _ => s

theorem onSlot_frame {p p' : Pool α} {s : Nat} {ok : Container α → Bool} {f : Container α → Option (Container α)}
    (h : onSlot p s ok f = Outcome.ok p') (t : Nat) (ht : t ≠ s) : p' t = p t := by
  unfold onSlot at h
  split at h
  · cases h
  · split_ifs at h
    split at h
    · cases h; simp [Pool.set, ht]
    · cases h

/-- Copies are deep and operands are not modified: an operation leaves every slot other than its
    destination exactly as it was. -/
theorem step_frame [Zero α] [One α] [Div α] [NatCast α] (p p' : Pool α) (op : Op α)
    (h : step p op = Outcome.ok p') (t : Nat) (ht : t ≠ op.dst) (hmv : ∀ d s, op = Op.move d s → t ≠ s) :
    p' t = p t := by
  cases op <;> simp only [step, Op.dst] at h ht <;>
  first
    | (next d s =>
        have hts := hmv d s rfl
        split at h
        · split_ifs at h; cases h; simp [Pool.set, ht, hts]
        · cases h)
    | exact onSlot_frame h t ht
    | (cases h; simp [Pool.set, ht])
    | (split at h
       · first
           | (cases h; simp [Pool.set, ht])
           | (split_ifs at h
              split at h
              · cases h; simp [Pool.set, ht]
              · cases h)
       · cases h)

end
end BFL.Shape
