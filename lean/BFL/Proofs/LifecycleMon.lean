import BFL.Proofs.Lifecycle
/-
C09 — "after a request …" clauses.  A clause of the form "after every occurrence of a trigger
event (a reset / reboot / teardown request) the events that follow obey …" is stated with a
monitor automaton started at each occurrence of the trigger and run over the events that
followed it; the invariant relates the monitor's state to the thread's state.
-/
namespace BFL.Life

/-- state of a monitor (transition `δ`, start `a0`) after the events `post` (newest first) -/
def runMon {A : Type} (δ : A → Ev → A) (a0 : A) (post : List Ev) : A :=
  post.foldr (fun e a => δ a e) a0

@[simp] theorem runMon_nil {A : Type} (δ : A → Ev → A) (a0 : A) : runMon δ a0 [] = a0 := rfl
@[simp] theorem runMon_cons {A : Type} (δ : A → Ev → A) (a0 : A) (e : Ev) (post : List Ev) :
    runMon δ a0 (e :: post) = δ (runMon δ a0 post) e := rfl

/-- for every occurrence of a trigger in the history, the monitor started there is in a state
related to the current state by `Rel` -/
def Tracks {A : Type} (trig : Ev → Bool) (δ : A → Ev → A) (a0 : A) (Rel : A → St → Prop) (s : St) : Prop :=
  ∀ post e pre, s.hist = post ++ e :: pre → trig e = true → Rel (runMon δ a0 post) s

/-- what one move has to preserve -/
def MonNext {A : Type} (trig : Ev → Bool) (δ : A → Ev → A) (a0 : A) (Rel : A → St → Prop) (s s' : St) : Prop :=
  (s'.hist = s.hist ∧ ∀ a, Rel a s → Rel a s') ∨
  (∃ e, s'.hist = e :: s.hist ∧ (∀ a, Rel a s → Rel (δ a e) s') ∧ (trig e = true → Rel a0 s'))

theorem tracks_next {A : Type} {trig : Ev → Bool} {δ : A → Ev → A} {a0 : A} {Rel : A → St → Prop}
    {s s' : St} (hn : MonNext trig δ a0 Rel s s') (h : Tracks trig δ a0 Rel s) :
    Tracks trig δ a0 Rel s' := by
  intro post e pre hsplit htrig
  rcases hn with ⟨hh, hr⟩ | ⟨e', hh, hr, h0⟩
  · exact hr _ (h post e pre (hh ▸ hsplit) htrig)
  · rw [hh] at hsplit
    cases post with
    | nil =>
      simp only [List.nil_append, List.cons.injEq] at hsplit
      obtain ⟨rfl, _⟩ := hsplit
      simpa using h0 htrig
    | cons p post =>
      simp only [List.cons_append, List.cons.injEq] at hsplit
      obtain ⟨rfl, hs⟩ := hsplit
      simpa using hr _ (h post e pre hs htrig)

theorem tracks_boot {A : Type} (trig : Ev → Bool) (δ : A → Ev → A) (a0 : A) (Rel : A → St → Prop) :
    Tracks trig δ a0 Rel St.boot := by
  intro post e pre h; simp [St.boot] at h

theorem tracks_all {A : Type} {trig : Ev → Bool} {δ : A → Ev → A} {a0 : A} {Rel : A → St → Prop}
    (cfg : Cfg) (hn : ∀ s a, MonNext trig δ a0 Rel s (step cfg s a)) (as : List Act) :
    Tracks trig δ a0 Rel (runAll cfg as) :=
  inv_exec cfg (fun s a h => tracks_next (hn s a) h) as _ (tracks_boot trig δ a0 Rel)

/-- case analysis for `MonNext`: the move is made explicit, then the monitor state is split -/
syntax "life_mon " ident ident " [" Lean.Parser.Tactic.simpLemma,* "]" : tactic
macro_rules
  | `(tactic| life_mon $rel:ident $dl:ident [$ls,*]) => `(tactic|
    (intro cfg s a
     obtain ⟨pc, run, reset, td, stp, woken, mid, joined, hist⟩ := s
     cases a with
     | c x =>
       cases x <;> simp only [step, ctl, St.notify] <;> (try split) <;>
         simp [MonNext] <;> (try refine ⟨?_, ?_⟩) <;> (try intro m hm) <;> (try cases m) <;>
         (try simp_all [$rel:ident, $dl:ident, $ls,*]) <;> (try grind)
     | fin =>
       simp only [step, fin, St.notify] <;> split <;>
         simp [MonNext] <;> (try intro m hm) <;> (try cases m) <;>
         (try simp_all [$rel:ident, $dl:ident, $ls,*]) <;> (try grind)
     | spur =>
       simp only [step] <;> split <;>
         simp [MonNext] <;> (try intro m hm) <;> (try cases m) <;>
         (try simp_all [$rel:ident, $dl:ident, $ls,*]) <;> (try grind)
     | t b =>
       cases pc <;> simp only [step, thr] <;> (repeat' split) <;>
         simp [MonNext, Option.getD] <;> (try refine ⟨?_, ?_⟩) <;> (try intro m hm) <;> (try cases m) <;>
         (try simp_all [$rel:ident, $dl:ident, $ls,*]) <;> (try grind)))

/-! ### teardown: at most one further step starts -/

def trigTd : Ev → Bool | .cmdTeardown => true | _ => false

/-- counts the steps started since the request -/
def tdδ (n : Nat) : Ev → Nat
  | .stepStart _ => n + 1
  | _ => n

def TdRel (n : Nat) (s : St) : Prop :=
  s.teardown = true ∧ n ≤ 1 ∧ (n = 1 → s.pc ≠ .inC ∧ s.pc ≠ .aboutStep)

theorem td_next : ∀ (cfg : Cfg) (s : St) (a : Act), MonNext trigTd tdδ 0 TdRel s (step cfg s a) := by
  life_mon TdRel tdδ [trigTd]

theorem td_tracks (cfg : Cfg) (as : List Act) : Tracks trigTd tdδ 0 TdRel (runAll cfg as) :=
  tracks_all cfg (td_next cfg) as

/-! ### reset / reboot: at most one further step starts before the next initialisation -/

def trigRs : Ev → Bool | .cmdReset => true | .cmdReboot => true | _ => false

/-- `some n`: no initialisation since the request, `n` steps started since; `none`: an
initialisation followed the request (the clause is discharged) -/
def rsδ (m : Option Nat) : Ev → Option Nat
  | .stepStart _ => m.map (· + 1)
  | .init => none
  | _ => m

def InLoop (pc : PC) : Prop :=
  pc = .inInit ∨ pc = .inA ∨ pc = .inB ∨ pc = .inC ∨ pc = .aboutStep ∨ pc = .inStep ∨ pc = .incr

def RsRel (m : Option Nat) (s : St) : Prop :=
  ∀ n, m = some n → n ≤ 1 ∧ (InLoop s.pc → s.reset = true) ∧ (s.pc = .aboutStep → n = 0)

theorem rs_next : ∀ (cfg : Cfg) (s : St) (a : Act), MonNext trigRs rsδ (some 0) RsRel s (step cfg s a) := by
  life_mon RsRel rsδ [trigRs, InLoop]

theorem rs_tracks (cfg : Cfg) (as : List Act) : Tracks trigRs rsδ (some 0) RsRel (runAll cfg as) :=
  tracks_all cfg (rs_next cfg) as

/-! ### reboot: no new epoch's step until run is requested again and an initialisation follows -/

def trigRb : Ev → Bool | .cmdReboot => true | _ => false

/-- `a`: no initialisation and no run request since the reboot; `ar`: run requested, no
initialisation yet; `b`: an initialisation (already in flight) happened, no run request yet;
`c`: that initialisation, then a run request, no initialisation since; `ok`: a run request
followed by an initialisation has been seen; `bad`: a step of a new epoch started too early. -/
inductive Rb | a | ar | b | c | ok | bad
  deriving DecidableEq, Repr

def rbδ (m : Rb) (e : Ev) : Rb :=
  match m with
  | .a => (match e with | .cmdRun => .ar | .init => .b | _ => .a)
  | .ar => (match e with | .init => .ok | _ => .ar)
  | .b => (match e with | .cmdRun => .c | .stepStart _ => .bad | _ => .b)
  | .c => (match e with | .init => .ok | .stepStart _ => .bad | _ => .c)
  | .ok => .ok
  | .bad => .bad

def RbRel (m : Rb) (s : St) : Prop :=
  match m with
  | .a => (s.run = false ∨ s.mid = true) ∧ (s.pc = .preInit → s.reset = true ∨ s.teardown = true)
  | .ar => True
  | .b => (s.run = false ∨ s.mid = true) ∧
      ((s.pc = .preInit ∨ s.pc = .inInit ∨ s.pc = .inA ∨ s.pc = .inB) → s.reset = true ∨ s.teardown = true) ∧
      (s.pc = .inC → s.reset = true) ∧ s.pc ≠ .aboutStep ∧ s.pc ≠ .inStep ∧ s.pc ≠ .incr
  | .c => ((s.pc = .inInit ∨ s.pc = .inA ∨ s.pc = .inB) → s.reset = true ∨ s.teardown = true) ∧
      (s.pc = .inC → s.reset = true) ∧ s.pc ≠ .aboutStep ∧ s.pc ≠ .inStep ∧ s.pc ≠ .incr
  | .ok => True
  | .bad => False

theorem rb_next : ∀ (cfg : Cfg) (s : St) (a : Act), MonNext trigRb rbδ .a RbRel s (step cfg s a) := by
  life_mon RbRel rbδ [trigRb]

theorem rb_tracks (cfg : Cfg) (as : List Act) : Tracks trigRb rbδ .a RbRel (runAll cfg as) :=
  tracks_all cfg (rb_next cfg) as

end BFL.Life
