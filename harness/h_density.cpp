// Correspondence harness for C15: the bfl::utils Gaussian density templates and log_sum_exp,
// called directly on batches.
#include "common.hpp"
#include <BayesFilters/utils.h>

using namespace bfl;
using namespace Eigen;
using vh::Toks; using vh::Out;

// ld d b x(d×b) m(d) S(d×d)  ->  ok L_0..L_{b-1} D_0..D_{b-1}
static std::string ld(Toks& t) {
    long d = t.nat(), b = t.nat();
    MatrixXd x = t.mat(d, b); VectorXd m = t.vec(d); MatrixXd S = t.mat(d, d);
    t.done();
    VectorXd L = utils::multivariate_gaussian_log_density(x, m, S);
    VectorXd D = utils::multivariate_gaussian_density(x, m, S);
    Out o; o.s("ok"); o.n(L.size()); o.m(L); o.n(D.size()); o.m(D);
    return o.str();
}

// uvr nb bs k b enc x m U V R  ->  ok L.. D.. (factorised)  Ldirect.. Ddirect.. (direct on fl(U V + R))
static std::string uvr(Toks& t) {
    long nb = t.nat(), bs = t.nat(), k = t.nat(), b = t.nat(), enc = t.nat();
    long d = nb * bs;
    MatrixXd x = t.mat(d, b); VectorXd m = t.vec(d);
    MatrixXd U = t.mat(d, k), V = t.mat(k, d);
    MatrixXd R = (enc == 0) ? t.mat(bs, bs) : t.mat(bs, d);
    t.done();
    VectorXd L = utils::multivariate_gaussian_log_density_UVR(x, m, U, V, R);
    VectorXd D = utils::multivariate_gaussian_density_UVR(x, m, U, V, R);
    MatrixXd S = U * V;
    for (long i = 0; i < nb; ++i)
        S.block(bs * i, bs * i, bs, bs) += (enc == 0) ? R : R.block(0, bs * i, bs, bs);
    VectorXd Ld = utils::multivariate_gaussian_log_density(x, m, S);
    VectorXd Dd = utils::multivariate_gaussian_density(x, m, S);
    Out o; o.s("ok"); o.n(L.size()); o.m(L); o.n(D.size()); o.m(D); o.n(Ld.size()); o.m(Ld); o.n(Dd.size()); o.m(Dd);
    // "given in full or as one shared block": the other encoding of the same R, when there is one
    // (a shared block as the row repeating it; a row of equal blocks as the single block)
    bool other = false; MatrixXd R2;
    if (enc == 0) { other = true; R2.resize(bs, d); for (long i = 0; i < nb; ++i) R2.block(0, bs * i, bs, bs) = R; }
    else {
        other = true;
        for (long i = 1; i < nb; ++i) if (!vh::same_bits(MatrixXd(R.block(0, 0, bs, bs)), MatrixXd(R.block(0, bs * i, bs, bs)))) other = false;
        if (other) R2 = R.block(0, 0, bs, bs);
    }
    if (other) {
        VectorXd L2 = utils::multivariate_gaussian_log_density_UVR(x, m, U, V, R2);
        VectorXd D2 = utils::multivariate_gaussian_density_UVR(x, m, U, V, R2);
        o.n(L2.size()); o.m(L2); o.n(D2.size()); o.m(D2);
    } else { o.n(0); o.n(0); }
    return o.str();
}

// ldcols / uvrcols: the same arguments, one call per column of the batch (each a one-column input)  ->  ok L.. D..
static std::string ldcols(Toks& t) {
    long d = t.nat(), b = t.nat();
    MatrixXd x = t.mat(d, b); VectorXd m = t.vec(d); MatrixXd S = t.mat(d, d);
    t.done();
    VectorXd L(b), D(b);
    for (long c = 0; c < b; ++c) {
        VectorXd l = utils::multivariate_gaussian_log_density(x.col(c), m, S);
        VectorXd e = utils::multivariate_gaussian_density(x.col(c), m, S);
        if (l.size() != 1 || e.size() != 1) { Out o; o.s("badsize"); o.n(l.size()); o.n(e.size()); return o.str(); }
        L(c) = l(0); D(c) = e(0);
    }
    Out o; o.s("ok"); o.n(L.size()); o.m(L); o.n(D.size()); o.m(D);
    return o.str();
}
static std::string uvrcols(Toks& t) {
    long nb = t.nat(), bs = t.nat(), k = t.nat(), b = t.nat(), enc = t.nat();
    long d = nb * bs;
    MatrixXd x = t.mat(d, b); VectorXd m = t.vec(d);
    MatrixXd U = t.mat(d, k), V = t.mat(k, d);
    MatrixXd R = (enc == 0) ? t.mat(bs, bs) : t.mat(bs, d);
    t.done();
    VectorXd L(b), D(b);
    for (long c = 0; c < b; ++c) {
        VectorXd l = utils::multivariate_gaussian_log_density_UVR(x.col(c), m, U, V, R);
        VectorXd e = utils::multivariate_gaussian_density_UVR(x.col(c), m, U, V, R);
        if (l.size() != 1 || e.size() != 1) { Out o; o.s("badsize"); o.n(l.size()); o.n(e.size()); return o.str(); }
        L(c) = l(0); D(c) = e(0);
    }
    Out o; o.s("ok"); o.n(L.size()); o.m(L); o.n(D.size()); o.m(D);
    return o.str();
}

// lse n x  (as a column vector)     lsem r c x (as an r×c matrix)   ->  ok value
static std::string lse(Toks& t) {
    long n = t.nat(); VectorXd x = t.vec(n); t.done();
    Out o; o.s("ok"); o.d(utils::log_sum_exp(x));
    return o.str();
}
static std::string lsem(Toks& t) {
    long r = t.nat(), c = t.nat(); MatrixXd x = t.mat(r, c); t.done();
    Out o; o.s("ok"); o.d(utils::log_sum_exp(x));
    return o.str();
}

int main() {
    return vh::run([](const std::string& op, Toks& t, std::string& out) {
        if (op == "ld") { out = ld(t); return true; }
        if (op == "uvr") { out = uvr(t); return true; }
        if (op == "ldcols") { out = ldcols(t); return true; }
        if (op == "uvrcols") { out = uvrcols(t); return true; }
        if (op == "lse" || op == "lsex") { out = lse(t); return true; }
        if (op == "lsem") { out = lsem(t); return true; }
        return false;
    });
}
