import BFL.Model.SIS
import BFL.Proofs.ResampleSet
/-
Helper lemmas for C06: the invariant of the SIS recursion, over ℝ.
-/
namespace BFL.PF
set_option linter.unusedSectionVars false

variable {π : Type} [Inhabited π]

/-- count and layout of a particle set are those the filter was built with -/
structure ShapeOK (N lin circ : Nat) (p : PSet π ℝ) : Prop where
  n : p.n = N
  lin : p.lin = lin
  circ : p.circ = circ
  quat : p.quat = false
  parts : p.parts.length = N
  logw : p.logw.length = N

/-- … and the log-weights are normalised: `Σ exp wᵢ = 1` (log-sum-exp zero) -/
structure SetOK (N lin circ : Nat) (p : PSet π ℝ) : Prop extends ShapeOK N lin circ p where
  norm : (p.logw.map Real.exp).sum = 1

/-- contract of `PFPrediction::predictStep` that the shipped `DrawParticles` satisfies: given sets
    of equal size (anything else is an Eigen size assertion) it writes into the output set without
    changing its count or layout, and copies the weights -/
def PredOK (f : PSet π ℝ → PSet π ℝ → PSet π ℝ) : Prop :=
  ∀ prev pred, prev.parts.length = pred.parts.length →
    (f prev pred).n = pred.n ∧ (f prev pred).lin = pred.lin ∧ (f prev pred).circ = pred.circ ∧
    (f prev pred).quat = pred.quat ∧ (f prev pred).parts.length = pred.parts.length ∧
    (f prev pred).logw = prev.logw

/-- what the environment may do in one step -/
structure EvOK (N : Nat) (ev : SisEvent π ℝ) : Prop where
  pred : PredOK ev.predict
  likLen : ev.lik.length = N
  likNonneg : ∀ l ∈ ev.lik, 0 ≤ l

/-- the invariant carried between steps -/
structure SisInv (cfg : SisCfg ℝ) (lin circ : Nat) (s : SisState π ℝ) : Prop where
  pred : ShapeOK cfg.N lin circ s.pred
  pred0 : s.step = 0 → (s.pred.logw.map Real.exp).sum = 1
  cor : s.step ≠ 0 → SetOK cfg.N lin circ s.cor

theorem sisPredict_ok (cfg : SisCfg ℝ) (lin circ : Nat) (s : SisState π ℝ) (ev : SisEvent π ℝ)
    (hinv : SisInv cfg lin circ s) (hp : PredOK ev.predict) :
    SetOK cfg.N lin circ (sisPredict s ev) := by
  unfold sisPredict
  by_cases h0 : s.step = 0
  · simp only [h0, bne_self_eq_false, Bool.false_eq_true, if_false]
    exact { toShapeOK := hinv.pred, norm := hinv.pred0 h0 }
  · have hne : (s.step != 0) = true := by simpa using h0
    simp only [hne, if_true]
    have hc := hinv.cor h0
    by_cases hs : (sisFlags s ev).1 = true
    · simp only [hs, Bool.not_true, Bool.false_eq_true, if_false]
      exact hc
    · have hs' : (sisFlags s ev).1 = false := by simpa using hs
      simp only [hs', Bool.not_false, if_true]
      obtain ⟨a, b, c, d, e, f⟩ := hp s.cor s.pred (by rw [hc.parts, hinv.pred.parts])
      exact { n := by rw [a]; exact hinv.pred.n, lin := by rw [b]; exact hinv.pred.lin,
              circ := by rw [c]; exact hinv.pred.circ, quat := by rw [d]; exact hinv.pred.quat,
              parts := by rw [e]; exact hinv.pred.parts, logw := by rw [f]; exact hc.logw,
              norm := by rw [f]; exact hc.norm }

theorem bootstrapCorrect_shape (tiny : ℝ) (valid : Bool) (lik : List ℝ) (pred : PSet π ℝ) (N lin circ : Nat)
    (h : ShapeOK N lin circ pred) (hl : lik.length = N) : ShapeOK N lin circ (bootstrapCorrect tiny valid lik pred) := by
  unfold bootstrapCorrect
  cases valid
  · simpa using h
  · simp only [if_true]
    exact { n := h.n, lin := h.lin, circ := h.circ, quat := h.quat, parts := h.parts,
            logw := by simp [h.logw, hl] }

theorem normalizeLog_setOK (N lin circ : Nat) (hN : 0 < N) (c : PSet π ℝ) (h : ShapeOK N lin circ c) :
    SetOK N lin circ { c with logw := normalizeLog c.logw } :=
  { n := h.n, lin := h.lin, circ := h.circ, quat := h.quat, parts := h.parts,
    logw := by simp [normalizeLog_length, h.logw],
    norm := sum_exp_normalizeLog _ (by intro he; have := h.logw; rw [he] at this; simp at this; omega) }

theorem sisCorrect_ok (cfg : SisCfg ℝ) (lin circ : Nat) (hN : 0 < cfg.N) (s : SisState π ℝ) (ev : SisEvent π ℝ)
    (hinv : SisInv cfg lin circ s) (hev : EvOK cfg.N ev) :
    SetOK cfg.N lin circ (sisCorrect cfg s ev) := by
  have hp := sisPredict_ok cfg lin circ s ev hinv hev.pred
  unfold sisCorrect
  cases hf : ev.freezeOk
  · simpa using hp
  · simp only [if_true]
    apply normalizeLog_setOK _ _ _ hN
    cases hs : (sisFlagsCor s ev).2
    · simp only [Bool.not_false, if_true]
      exact bootstrapCorrect_shape _ _ _ _ _ _ _ hp.toShapeOK hev.likLen
    · simp only [Bool.not_true, Bool.false_eq_true, if_false]
      exact hp.toShapeOK

/-- contract of a resampling object inside SIS: from a corrected set and a destination of the filter's
    shape (whatever the weights) it produces a well-formed set with uniform weights `-log N` -/
def ResamplerOK (N lin circ : Nat) (rs : PSet π ℝ → PSet π ℝ → ℝ → PSet π ℝ × List Int) : Prop :=
  ∀ cor res u, ShapeOK N lin circ cor → ShapeOK N lin circ res →
    SetOK N lin circ (rs cor res u).1 ∧ (rs cor res u).1.logw = List.replicate N (-(Real.log (N : ℝ)))

theorem fresh_shapeOK (N lin circ : Nat) : ShapeOK N lin circ (PSet.fresh N lin circ : PSet π ℝ) :=
  { n := rfl, lin := rfl, circ := rfl, quat := rfl, parts := by simp [PSet.fresh], logw := by simp [PSet.fresh] }

/-- `Resampling::resample` meets the contract -/
theorem resample_resamplerOK (N lin circ : Nat) (hN : 0 < N) : ResamplerOK N lin circ (resample (π := π) (α := ℝ)) := by
  intro cor res u1 h hr
  have hl : (resample cor res u1).1.logw = List.replicate N (-(Real.log (N : ℝ))) := by
    rw [resample_logw, h.logw, List.drop_eq_nil_of_le (by rw [hr.logw]), List.append_nil]
  refine ⟨?_, hl⟩
  exact { n := hr.n, lin := hr.lin, circ := hr.circ, quat := hr.quat,
          parts := by
            rw [resample_parts, h.logw, List.drop_eq_nil_of_le (by rw [hr.parts]), List.append_nil]
            simp [resampleIdx_length, h.logw],
          logw := by rw [hl]; simp,
          norm := by rw [hl]; exact sum_exp_uniform N hN }

/-- the resampled set, built as `ParticleSet(N, cor.dim_linear, cor.dim_circular)` and filled by `resample` -/
theorem resampled_ok (N lin circ : Nat) (hN : 0 < N) (cor : PSet π ℝ) (h : SetOK N lin circ cor) (u1 : ℝ) :
    SetOK N lin circ (resample cor (PSet.fresh N cor.lin cor.circ) u1).1 ∧
    (resample cor (PSet.fresh N cor.lin cor.circ) u1).1.logw = List.replicate N (-(Real.log (N : ℝ))) := by
  have := resample_resamplerOK (π := π) N lin circ hN cor (PSet.fresh N cor.lin cor.circ) u1 h.toShapeOK
    (by rw [h.lin, h.circ]; exact fresh_shapeOK N lin circ)
  exact this

section stepWith
variable (rs : PSet π ℝ → PSet π ℝ → ℝ → PSet π ℝ × List Int)

theorem sisStepWith_step (cfg : SisCfg ℝ) (s : SisState π ℝ) (ev : SisEvent π ℝ) :
    (sisStepWith rs cfg s ev).step = s.step + 1 := by
  unfold sisStepWith
  simp only
  split <;> rfl

theorem sisStepWith_pred (cfg : SisCfg ℝ) (s : SisState π ℝ) (ev : SisEvent π ℝ) :
    (sisStepWith rs cfg s ev).pred = sisPredict s ev := by
  unfold sisStepWith
  simp only
  split <;> rfl

theorem sisStepWith_resampled (cfg : SisCfg ℝ) (s : SisState π ℝ) (ev : SisEvent π ℝ) :
    (sisStepWith rs cfg s ev).resampled = sisTrigger cfg (sisCorrect cfg s ev) := by
  unfold sisStepWith
  simp only
  split
  · next h => simp [h]
  · next h => simp at h; simp [h]

theorem sisStepWith_cor (cfg : SisCfg ℝ) (s : SisState π ℝ) (ev : SisEvent π ℝ) :
    (sisStepWith rs cfg s ev).cor =
      if sisTrigger cfg (sisCorrect cfg s ev) then
        (rs (sisCorrect cfg s ev) (PSet.fresh cfg.N (sisCorrect cfg s ev).lin (sisCorrect cfg s ev).circ)
          (s.rng.headD default)).1
      else sisCorrect cfg s ev := by
  unfold sisStepWith
  simp only
  split <;> rfl

theorem sisStepWith_parents (cfg : SisCfg ℝ) (s : SisState π ℝ) (ev : SisEvent π ℝ) :
    (sisStepWith rs cfg s ev).parents =
      if sisTrigger cfg (sisCorrect cfg s ev) then
        (rs (sisCorrect cfg s ev) (PSet.fresh cfg.N (sisCorrect cfg s ev).lin (sisCorrect cfg s ev).circ)
          (s.rng.headD default)).2
      else [] := by
  unfold sisStepWith
  simp only
  split <;> rfl

theorem sisStepWith_rng (cfg : SisCfg ℝ) (s : SisState π ℝ) (ev : SisEvent π ℝ) :
    (sisStepWith rs cfg s ev).rng = if sisTrigger cfg (sisCorrect cfg s ev) then s.rng.tail else s.rng := by
  unfold sisStepWith
  simp only
  split <;> rfl

theorem sisStepWith_flags (cfg : SisCfg ℝ) (s : SisState π ℝ) (ev : SisEvent π ℝ) :
    (sisStepWith rs cfg s ev).skipPred = (sisFlagsEnd s ev).1 ∧ (sisStepWith rs cfg s ev).skipCor = (sisFlagsEnd s ev).2 := by
  unfold sisStepWith
  simp only
  split <;> exact ⟨rfl, rfl⟩

theorem sis_inv_stepWith (cfg : SisCfg ℝ) (lin circ : Nat) (hN : 0 < cfg.N) (hrs : ResamplerOK cfg.N lin circ rs)
    (s : SisState π ℝ) (ev : SisEvent π ℝ) (hinv : SisInv cfg lin circ s) (hev : EvOK cfg.N ev) :
    SisInv cfg lin circ (sisStepWith rs cfg s ev) := by
  have hc := sisCorrect_ok cfg lin circ hN s ev hinv hev
  refine { pred := ?_, pred0 := ?_, cor := ?_ }
  · rw [sisStepWith_pred]; exact (sisPredict_ok cfg lin circ s ev hinv hev.pred).toShapeOK
  · intro h; rw [sisStepWith_step] at h; omega
  · intro _
    rw [sisStepWith_cor]
    split
    · exact (hrs _ _ _ hc.toShapeOK (by rw [hc.lin, hc.circ]; exact fresh_shapeOK cfg.N lin circ)).1
    · exact hc

/-! #### without any hypothesis on the initial weights -/

/-- the shape part of the invariant -/
structure SisShapeInv (cfg : SisCfg ℝ) (lin circ : Nat) (s : SisState π ℝ) : Prop where
  pred : ShapeOK cfg.N lin circ s.pred
  cor : s.step ≠ 0 → ShapeOK cfg.N lin circ s.cor

theorem SisInv.shape {cfg : SisCfg ℝ} {lin circ : Nat} {s : SisState π ℝ} (h : SisInv cfg lin circ s) :
    SisShapeInv cfg lin circ s := ⟨h.pred, fun h0 => (h.cor h0).toShapeOK⟩

theorem sisPredict_shape (cfg : SisCfg ℝ) (lin circ : Nat) (s : SisState π ℝ) (ev : SisEvent π ℝ)
    (hinv : SisShapeInv cfg lin circ s) (hp : PredOK ev.predict) :
    ShapeOK cfg.N lin circ (sisPredict s ev) := by
  unfold sisPredict
  by_cases h0 : s.step = 0
  · simp only [h0, bne_self_eq_false, Bool.false_eq_true, if_false]
    exact hinv.pred
  · have hne : (s.step != 0) = true := by simpa using h0
    simp only [hne, if_true]
    have hc := hinv.cor h0
    by_cases hs : (sisFlags s ev).1 = true
    · simp only [hs, Bool.not_true, Bool.false_eq_true, if_false]
      exact hc
    · have hs' : (sisFlags s ev).1 = false := by simpa using hs
      simp only [hs', Bool.not_false, if_true]
      obtain ⟨a, b, c, d, e, f⟩ := hp s.cor s.pred (by rw [hc.parts, hinv.pred.parts])
      exact { n := by rw [a]; exact hinv.pred.n, lin := by rw [b]; exact hinv.pred.lin,
              circ := by rw [c]; exact hinv.pred.circ, quat := by rw [d]; exact hinv.pred.quat,
              parts := by rw [e]; exact hinv.pred.parts, logw := by rw [f]; exact hc.logw }

/-- the corrected set has the filter's shape; it is normalised as soon as the acquisition succeeds;
    otherwise it is the predicted set -/
theorem sisCorrect_shape (cfg : SisCfg ℝ) (lin circ : Nat) (hN : 0 < cfg.N) (s : SisState π ℝ) (ev : SisEvent π ℝ)
    (hinv : SisShapeInv cfg lin circ s) (hev : EvOK cfg.N ev) :
    ShapeOK cfg.N lin circ (sisCorrect cfg s ev) ∧
    (ev.freezeOk = true → SetOK cfg.N lin circ (sisCorrect cfg s ev)) ∧
    (ev.freezeOk = false → sisCorrect cfg s ev = sisPredict s ev) := by
  have hp := sisPredict_shape cfg lin circ s ev hinv hev.pred
  have hset : ev.freezeOk = true → SetOK cfg.N lin circ (sisCorrect cfg s ev) := by
    intro hf
    unfold sisCorrect
    simp only [hf, if_true]
    apply normalizeLog_setOK _ _ _ hN
    cases hs : (sisFlagsCor s ev).2
    · simp only [Bool.not_false, if_true]
      exact bootstrapCorrect_shape _ _ _ _ _ _ _ hp hev.likLen
    · simp only [Bool.not_true, Bool.false_eq_true, if_false]
      exact hp
  have hid : ev.freezeOk = false → sisCorrect cfg s ev = sisPredict s ev := by
    intro hf; unfold sisCorrect; simp [hf]
  refine ⟨?_, hset, hid⟩
  cases hf : ev.freezeOk
  · rw [hid hf]; exact hp
  · exact (hset hf).toShapeOK

theorem sis_shape_stepWith (cfg : SisCfg ℝ) (lin circ : Nat) (hN : 0 < cfg.N) (hrs : ResamplerOK cfg.N lin circ rs)
    (s : SisState π ℝ) (ev : SisEvent π ℝ) (hinv : SisShapeInv cfg lin circ s) (hev : EvOK cfg.N ev) :
    SisShapeInv cfg lin circ (sisStepWith rs cfg s ev) ∧
    ((ev.freezeOk = true ∨ (sisStepWith rs cfg s ev).resampled = true) → SetOK cfg.N lin circ (sisStepWith rs cfg s ev).cor) ∧
    ((ev.freezeOk = false ∧ (sisStepWith rs cfg s ev).resampled = false) → (sisStepWith rs cfg s ev).cor = sisPredict s ev) := by
  obtain ⟨hc, hset, hid⟩ := sisCorrect_shape cfg lin circ hN s ev hinv hev
  have hfresh := hrs (sisCorrect cfg s ev) (PSet.fresh cfg.N (sisCorrect cfg s ev).lin (sisCorrect cfg s ev).circ)
    (s.rng.headD default) hc (by rw [hc.lin, hc.circ]; exact fresh_shapeOK cfg.N lin circ)
  refine ⟨⟨?_, ?_⟩, ?_, ?_⟩
  · rw [sisStepWith_pred]; exact sisPredict_shape cfg lin circ s ev hinv hev.pred
  · intro _; rw [sisStepWith_cor]; split
    · exact hfresh.1.toShapeOK
    · exact hc
  · intro h
    rw [sisStepWith_cor]
    by_cases ht : sisTrigger cfg (sisCorrect cfg s ev) = true
    · rw [if_pos ht]; exact hfresh.1
    · rw [if_neg ht]
      rcases h with h | h
      · exact hset h
      · rw [sisStepWith_resampled] at h; exact absurd h ht
  · rintro ⟨hf, hr⟩
    rw [sisStepWith_resampled] at hr
    rw [sisStepWith_cor, hr, hid hf]; rfl

/-! #### epochs -/

/-- contract of the initialisation model at a re-initialisation: applied to a set of the filter's shape
    (the existing predicted set) it yields a well-formed set with normalised weights -/
def ReinitOK (N lin circ : Nat) (init : PSet π ℝ → PSet π ℝ) : Prop :=
  ∀ p, ShapeOK N lin circ p → SetOK N lin circ (init p)

theorem sis_inv_reinit (cfg : SisCfg ℝ) (lin circ : Nat) (init : PSet π ℝ → PSet π ℝ) (s : SisState π ℝ)
    (hinv : SisInv cfg lin circ s) (hi : ReinitOK cfg.N lin circ init) :
    SisInv cfg lin circ (sisReinit init s) :=
  { pred := (hi _ hinv.pred).toShapeOK, pred0 := fun _ => (hi _ hinv.pred).norm, cor := fun h => absurd rfl h }

/-- admissible life items -/
def OpOK (cfg : SisCfg ℝ) (lin circ : Nat) : SisOp π ℝ → Prop
  | .step ev => EvOK cfg.N ev
  | .reset init => ReinitOK cfg.N lin circ init

theorem sis_inv_run' (cfg : SisCfg ℝ) (lin circ : Nat) (hN : 0 < cfg.N) (hrs : ResamplerOK cfg.N lin circ rs)
    (ops : List (SisOp π ℝ)) (hops : ∀ op ∈ ops, OpOK cfg lin circ op) (s : SisState π ℝ) (hinv : SisInv cfg lin circ s) :
    SisInv cfg lin circ (sisRun rs cfg s ops) := by
  induction ops generalizing s with
  | nil => exact hinv
  | cons op ops ih =>
    unfold sisRun
    rw [List.foldl_cons]
    have hop := hops op List.mem_cons_self
    apply ih (fun o ho => hops o (List.mem_cons_of_mem _ ho))
    cases op with
    | step ev => exact sis_inv_stepWith rs cfg lin circ hN hrs s ev hinv hop
    | reset init => exact sis_inv_reinit cfg lin circ init s hinv hop

end stepWith

theorem sisStep_step (cfg : SisCfg ℝ) (s : SisState π ℝ) (ev : SisEvent π ℝ) :
    (sisStep cfg s ev).step = s.step + 1 := sisStepWith_step _ cfg s ev

theorem sisStep_pred (cfg : SisCfg ℝ) (s : SisState π ℝ) (ev : SisEvent π ℝ) :
    (sisStep cfg s ev).pred = sisPredict s ev := sisStepWith_pred _ cfg s ev

theorem sisStep_resampled (cfg : SisCfg ℝ) (s : SisState π ℝ) (ev : SisEvent π ℝ) :
    (sisStep cfg s ev).resampled = sisTrigger cfg (sisCorrect cfg s ev) := sisStepWith_resampled _ cfg s ev

theorem sisStep_cor (cfg : SisCfg ℝ) (s : SisState π ℝ) (ev : SisEvent π ℝ) :
    (sisStep cfg s ev).cor =
      if sisTrigger cfg (sisCorrect cfg s ev) then
        (resample (sisCorrect cfg s ev) (PSet.fresh cfg.N (sisCorrect cfg s ev).lin (sisCorrect cfg s ev).circ)
          (s.rng.headD default)).1
      else sisCorrect cfg s ev := sisStepWith_cor _ cfg s ev

theorem sisStep_parents (cfg : SisCfg ℝ) (s : SisState π ℝ) (ev : SisEvent π ℝ) :
    (sisStep cfg s ev).parents =
      if sisTrigger cfg (sisCorrect cfg s ev) then
        (resample (sisCorrect cfg s ev) (PSet.fresh cfg.N (sisCorrect cfg s ev).lin (sisCorrect cfg s ev).circ)
          (s.rng.headD default)).2
      else [] := sisStepWith_parents _ cfg s ev

theorem sis_inv_step' (cfg : SisCfg ℝ) (lin circ : Nat) (hN : 0 < cfg.N) (s : SisState π ℝ) (ev : SisEvent π ℝ)
    (hinv : SisInv cfg lin circ s) (hev : EvOK cfg.N ev) :
    SisInv cfg lin circ (sisStep cfg s ev) :=
  sis_inv_stepWith _ cfg lin circ hN (resample_resamplerOK cfg.N lin circ hN) s ev hinv hev

end BFL.PF
