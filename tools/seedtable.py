#!/usr/bin/env python3
"""Markdown table of the seeded changes (seeded/*/meta.json) and which checks caught them."""
import glob, json, os
V = os.path.dirname(os.path.dirname(os.path.abspath(__file__)))
rows = []
for d in sorted(glob.glob(os.path.join(V, "seeded", "*"))):
    mp = os.path.join(d, "meta.json")
    if not os.path.exists(mp):
        continue
    m = json.load(open(mp))
    name = os.path.basename(d)
    if "checks_run" not in m:
        res = m.get("result", "not run yet")
    else:
        parts = []
        for p, r in m["checks_run"].items():
            parts.append("%s: %s" % (p, ("caught" + ("" if r.get("with_failing_input") else " (no-failing-input-found)")) if r.get("detected") else "MISSED"))
        res = "; ".join(parts)
    hist = m.get("history", "")
    if not hist:
        for p, r in m.get("checks_run", {}).items():
            log = [x for x in m.get("run_log", []) if x["property"] == p]
            if r.get("detected") and any(not x["detected"] for x in log):
                hist = "first run MISSED; caught after the check was strengthened (verif %s)" % log[-1]["verif_commit"]
    rows.append("| %s | %s | %s | %s |" % (name, (m.get("description", "") or "").replace("|", "/").replace("\n", " ")[:260],
                                         (m.get("needs_to_manifest", "") or "").replace("|", "/").replace("\n", " ")[:200], res + ((" — " + hist) if hist else "")))
print("| seed | change | needs, to manifest | result |\n|---|---|---|---|")
print("\n".join(rows))
