import BFL.Model.Race
/-
C10 — general theorems about the lockset model (for every table, every interleaving).
Core Lean only.

  * `bracket_holds`      in a well-formed interleaving "syntactically inside a lock scope" and
                         "semantically the holder of the mutex" coincide;
  * `reach_sub_of_closed` a set containing the roots and closed under the call edges contains every
                         function the role can reach; `reach_of_closure` the computed closure contains
                         only reachable functions;
  * `fieldOK_of_fieldOKIn` / `not_fieldOK_of_fieldOKIn` the Boolean decision procedure decides `FieldOK`;
  * `lockset_sound`      `FieldOK T f` ⇒ no conforming well-formed interleaving races on member `f`;
  * `lockset_complete`   `¬ FieldOK T f` ⇒ some conforming well-formed interleaving races on `f`.
-/
namespace BFL.Race

/-! ### mutex bookkeeping -/

theorem holders_snoc (tr : List Ev) (e : Ev) : holders (tr ++ [e]) = applyEv (holders tr) e := by
  simp [holders, List.foldl_append]

theorem held_snoc (tr : List Ev) (e : Ev) (t m) : held (tr ++ [e]) t m = applyHeld t m (held tr t m) e := by
  simp [held, List.foldl_append]

/-- In a well-formed interleaving, "syntactically inside the scope" and "semantically the holder"
    coincide. -/
theorem bracket_holds {tr : List Ev} (h : WF tr) : ∀ t m, holders tr m = some t ↔ held tr t m = true := by
  induction h with
  | nil => intro t m; simp [holders, held]
  | @snoc tr e _ hok ih =>
    intro t m
    rw [holders_snoc, held_snoc]
    cases e with
    | acc t' l w a => simpa [applyEv, applyHeld] using ih t m
    | lock t' m' =>
      simp only [okEv] at hok
      simp only [applyEv, applyHeld]
      by_cases hm : m = m'
      · subst hm
        by_cases ht : t' = t
        · subst ht; simp
        · have : held tr t m = false := by
            cases hh : held tr t m with
            | false => rfl
            | true => have := (ih t m).2 hh; simp [hok] at this
          simp [ht, this]
      · have : ¬ (t' = t ∧ m' = m) := fun h => hm h.2.symm
        simp [hm, this, ih t m]
    | unlock t' m' =>
      simp only [okEv] at hok
      simp only [applyEv, applyHeld]
      by_cases hm : m = m'
      · subst hm
        by_cases ht : t' = t
        · subst ht; simp
        · have : held tr t m = false := by
            cases hh : held tr t m with
            | false => rfl
            | true => have := (ih t m).2 hh; rw [hok] at this; simp at this; exact absurd this ht
          simp [ht, this]
      · have : ¬ (t' = t ∧ m' = m) := fun h => hm h.2.symm
        simp [hm, this, ih t m]

theorem wf_prefix {tr : List Ev} (h : WF tr) : ∀ pre post, tr = pre ++ post → WF pre := by
  induction h with
  | nil => intro pre post h; simp at h; rw [h.1]; exact WF.nil
  | @snoc tr e hwf hok ih =>
    intro pre post h
    rcases List.eq_nil_or_concat post with hp | ⟨post', x, hp⟩
    · subst hp; simp at h; rw [← h]; exact WF.snoc hwf hok
    · subst hp
      have : tr ++ [e] = (pre ++ post') ++ [x] := by simpa [List.concat_eq_append, List.append_assoc] using h
      have h2 := List.append_inj' this rfl
      exact ih pre post' h2.1

/-! ### reachability -/

theorem testBit_bit (i j : Nat) : (1 <<< i).testBit j = decide (i = j) := by
  rw [Nat.one_shiftLeft, Nat.testBit_two_pow]

theorem testBit_bitsOf_aux (l : List Nat) (s j : Nat) :
    (l.foldl (fun s i => s ||| (1 <<< i)) s).testBit j = (s.testBit j || decide (j ∈ l)) := by
  induction l generalizing s with
  | nil => simp
  | cons x xs ih =>
    simp only [List.foldl_cons, ih, Nat.testBit_or, testBit_bit, List.mem_cons]
    by_cases hx : x = j
    · subst hx; simp
    · have : ¬ j = x := fun h => hx h.symm
      simp [hx, this]

theorem testBit_bitsOf (l : List Nat) (j : Nat) : (bitsOf l).testBit j = decide (j ∈ l) := by
  simp [bitsOf, testBit_bitsOf_aux]

theorem testBit_addCall (S : Nat) (c : Call) (j : Nat) :
    (addCall S c).testBit j = (S.testBit j || (c.kind.follows && S.testBit c.caller && decide (c.callee = j))) := by
  unfold addCall
  by_cases h : (c.kind.follows && S.testBit c.caller) = true
  · rw [if_pos h, Nat.testBit_or, testBit_bit]
    simp only [Bool.and_eq_true] at h
    simp [h.1, h.2]
  · simp [h]

/-- A set that contains the roots and is closed under the same-thread call edges contains every
    reachable function. -/
theorem reach_sub_of_closed (T : Table) (roots : List Nat) (S : Nat)
    (hroots : ∀ r ∈ roots, S.testBit r = true) (hclosed : T.closedB S = true) :
    ∀ m, Reach T roots m → S.testBit m = true := by
  intro m h
  induction h with
  | root hm => exact hroots _ hm
  | @call c hc hf _ ih =>
    have := (List.all_eq_true.1 hclosed) c hc
    simp [hf, ih] at this
    exact this

theorem reach_of_fold (T : Table) (roots : List Nat) (cs : List Call) (hcs : ∀ c ∈ cs, c ∈ T.calls) (S : Nat)
    (hS : ∀ m, S.testBit m = true → Reach T roots m) :
    ∀ m, (cs.foldl addCall S).testBit m = true → Reach T roots m := by
  induction cs generalizing S with
  | nil => simpa using hS
  | cons c cs ih =>
    simp only [List.foldl_cons]
    apply ih (fun c' hc' => hcs c' (List.mem_cons_of_mem _ hc'))
    intro m hm
    rw [testBit_addCall] at hm
    simp only [Bool.or_eq_true, Bool.and_eq_true, decide_eq_true_eq] at hm
    rcases hm with hm | ⟨⟨hf, hcaller⟩, rfl⟩
    · exact hS m hm
    · exact Reach.call (hcs c (List.mem_cons_self ..)) hf (hS _ hcaller)

theorem reach_of_pass (T : Table) (roots : List Nat) (S : Nat) (hS : ∀ m, S.testBit m = true → Reach T roots m) :
    ∀ m, (T.pass S).testBit m = true → Reach T roots m :=
  reach_of_fold T roots T.calls (fun _ h => h) S hS

theorem reach_of_closure_aux (T : Table) (roots : List Nat) (fuel S : Nat) (hS : ∀ m, S.testBit m = true → Reach T roots m) :
    ∀ m, (T.closure fuel S).testBit m = true → Reach T roots m := by
  induction fuel generalizing S with
  | zero => simpa [Table.closure] using hS
  | succ n ih =>
    unfold Table.closure
    by_cases h : T.pass S = S
    · simpa [h] using hS
    · simp only [h, if_false]
      exact ih _ (reach_of_pass T roots S hS)

/-- The computed closure contains only reachable functions. -/
theorem reach_of_closure (T : Table) (r : Role) : ∀ m, (T.reach r).testBit m = true → Reach T (T.rootIds r) m := by
  apply reach_of_closure_aux
  intro m hm
  rw [testBit_bitsOf] at hm
  exact Reach.root (by simpa using hm)

/-- "exactness certificate" of a set of functions for a role: it is what `Table.reach` computes,
    it contains the entry points and it is closed.  All three parts are checked by `decide` on the
    generated table. -/
structure ReachCert (T : Table) (r : Role) (S : Nat) : Prop where
  eq     : T.reach r = S
  roots  : (T.rootIds r).all (fun i => S.testBit i) = true
  closed : T.closedB S = true

theorem ReachCert.iff {T : Table} {r : Role} {S : Nat} (h : ReachCert T r S) (m : Nat) :
    S.testBit m = true ↔ Reach T (T.rootIds r) m := by
  constructor
  · intro hm; rw [← h.eq] at hm; exact reach_of_closure T r m hm
  · exact reach_sub_of_closed T _ S (fun x hx => (List.all_eq_true.1 h.roots) x hx) h.closed m

/-! ### the decision procedure decides `FieldOK` -/

theorem pairSafe_iff (T : Table) (a b : Access) : T.pairOKB a b = true ↔ PairSafe T a b := by
  unfold Table.pairOKB PairSafe commonLock
  simp only [Bool.or_eq_true, Bool.and_eq_true, Bool.not_eq_true', List.any_eq_true, List.contains_iff_mem]
  constructor
  · rintro ((h | h) | ⟨⟨h1, h2⟩, m, h3, h4⟩)
    · exact Or.inl h
    · exact Or.inr (Or.inl h)
    · exact Or.inr (Or.inr ⟨h1, h2, m, h3, h4⟩)
  · rintro (h | h | ⟨h1, h2, m, h3, h4⟩)
    · exact Or.inl (Or.inl h)
    · exact Or.inl (Or.inr h)
    · exact Or.inr ⟨⟨h1, h2⟩, m, h3, h4⟩

theorem mem_rowsOn (T : Table) (S f : Nat) (a : Access) :
    a ∈ T.rowsOn S f ↔ a ∈ T.accesses ∧ a.field = f ∧ S.testBit a.meth = true := by
  simp [Table.rowsOn, List.mem_filter]

theorem fieldOKIn_iff (T : Table) (SC SF : Nat)
    (hC : ∀ m, SC.testBit m = true ↔ Reach T (T.rootIds .controller) m)
    (hF : ∀ m, SF.testBit m = true ↔ Reach T (T.rootIds .filter) m) (f : Nat) :
    T.fieldOKIn SC SF f = true ↔ FieldOK T f := by
  unfold Table.fieldOKIn FieldOK
  simp only [List.all_eq_true, mem_rowsOn, pairSafe_iff]
  constructor
  · intro h a ha b hb ra rb fa fb
    exact h a ⟨ha, fa, (hC _).2 ra⟩ b ⟨hb, fb, (hF _).2 rb⟩
  · intro h a ⟨ha, fa, ra⟩ b ⟨hb, fb, rb⟩
    exact h a ha b hb ((hC _).1 ra) ((hF _).1 rb) fa fb

/-- soundness of the check needs only closed supersets of the reachable sets -/
theorem fieldOK_of_fieldOKIn_closed (T : Table) (SC SF : Nat)
    (hCr : (T.rootIds .controller).all (fun i => SC.testBit i) = true) (hCc : T.closedB SC = true)
    (hFr : (T.rootIds .filter).all (fun i => SF.testBit i) = true) (hFc : T.closedB SF = true)
    (f : Nat) (h : T.fieldOKIn SC SF f = true) : FieldOK T f := by
  unfold Table.fieldOKIn at h
  simp only [List.all_eq_true, mem_rowsOn, pairSafe_iff] at h
  intro a ha b hb ra rb fa fb
  have ca := reach_sub_of_closed T _ SC (fun x hx => (List.all_eq_true.1 hCr) x hx) hCc _ ra
  have cb := reach_sub_of_closed T _ SF (fun x hx => (List.all_eq_true.1 hFr) x hx) hFc _ rb
  exact h a ⟨ha, fa, ca⟩ b ⟨hb, fb, cb⟩

theorem fieldOK_iff_of_cert {T : Table} {SC SF : Nat} (hC : ReachCert T .controller SC) (hF : ReachCert T .filter SF) (f : Nat) :
    T.fieldOKIn SC SF f = true ↔ FieldOK T f :=
  fieldOKIn_iff T SC SF hC.iff hF.iff f

/-- membership in the list of undisciplined members -/
theorem mem_undisciplinedIn (T : Table) (SC SF f : Nat) :
    f ∈ T.undisciplinedIn SC SF ↔ f < T.fields.length ∧ T.fieldOKIn SC SF f = false := by
  unfold Table.undisciplinedIn Table.fieldOKIn Table.rowsIn
  simp only [List.mem_filter, List.mem_range, List.contains_iff_mem, List.mem_map, List.any_eq_true,
    Bool.and_eq_true, beq_iff_eq, Bool.not_eq_true']
  constructor
  · rintro ⟨hlt, a, ⟨⟨ha, hSa⟩, b, ⟨hb, hSb⟩, hfe, hbad⟩, rfl⟩
    refine ⟨hlt, ?_⟩
    rw [← Bool.not_eq_true, List.all_eq_true]
    intro hall
    have h1 := hall a ((mem_rowsOn ..).2 ⟨ha, rfl, hSa⟩)
    rw [List.all_eq_true] at h1
    have h2 := h1 b ((mem_rowsOn ..).2 ⟨hb, hfe, hSb⟩)
    rw [h2] at hbad
    exact Bool.noConfusion hbad
  · rintro ⟨hlt, hbad⟩
    refine ⟨hlt, ?_⟩
    rw [← Bool.not_eq_true, List.all_eq_true] at hbad
    simp only [Classical.not_forall] at hbad
    obtain ⟨a, ha, hbad⟩ := hbad
    rw [List.all_eq_true] at hbad
    simp only [Classical.not_forall] at hbad
    obtain ⟨b, hb, hbad⟩ := hbad
    rw [mem_rowsOn] at ha hb
    exact ⟨a, ⟨⟨ha.1, ha.2.2⟩, b, ⟨hb.1, hb.2.2⟩, by rw [hb.2.1, ha.2.1], by simpa using hbad⟩, ha.2.1⟩

/-! ### soundness of the lockset discipline -/

theorem role_cases {t₁ t₂ : Role} (h : t₁ ≠ t₂) :
    (t₁ = .controller ∧ t₂ = .filter) ∨ (t₁ = .filter ∧ t₂ = .controller) := by
  cases t₁ <;> cases t₂ <;> simp_all

theorem pairSafe_symm_fields {T : Table} {a b : Access} (hf : a.field = b.field) (h : PairSafe T a b) : PairSafe T b a := by
  rcases h with ⟨h1, h2⟩ | h | ⟨h1, h2, m, h3, h4⟩
  · exact Or.inl ⟨h2, h1⟩
  · exact Or.inr (Or.inl (hf ▸ h))
  · exact Or.inr (Or.inr ⟨h2, h1, m, h4, h3⟩)

/-- **Lockset soundness.**  If member `f` obeys the discipline, no well-formed interleaving that
    conforms to the table contains two adjacent conflicting accesses of different threads to `f`. -/
theorem lockset_sound (T : Table) (f : Nat) (hok : FieldOK T f) {tr : List Ev} (hwf : WF tr)
    (hc : Conforms T tr) : ¬ RaceOnField f tr := by
  rintro ⟨o, pre, a, b, post, rfl, hconf, hloc⟩
  cases a with
  | lock _ _ => exact hconf
  | unlock _ _ => exact hconf
  | acc t₁ l₁ w₁ s₁ =>
    cases b with
    | lock _ _ => exact hconf
    | unlock _ _ => exact hconf
    | acc t₂ l₂ w₂ s₂ =>
      obtain ⟨hne, hl, hw, hns⟩ := hconf
      simp only [Ev.loc?, Option.some.injEq] at hloc
      subst hl; subst hloc
      have j₁ := hc pre (Ev.acc t₁ (o, f) w₁ s₁) (Ev.acc t₂ (o, f) w₂ s₂ :: post) rfl
      have j₂ := hc (pre ++ [Ev.acc t₁ (o, f) w₁ s₁]) (Ev.acc t₂ (o, f) w₂ s₂) post (by simp)
      obtain ⟨r₁, hr₁, reach₁, fld₁, wr₁, sy₁, lk₁⟩ := j₁
      obtain ⟨r₂, hr₂, reach₂, fld₂, wr₂, sy₂, lk₂⟩ := j₂
      -- the pair of rows is safe (in the orientation controller / filter)
      have hsafe : PairSafe T r₁ r₂ := by
        rcases role_cases hne with ⟨h1, h2⟩ | ⟨h1, h2⟩
        · subst h1; subst h2
          exact hok r₁ hr₁ r₂ hr₂ reach₁ reach₂ fld₁ fld₂
        · subst h1; subst h2
          exact pairSafe_symm_fields (by rw [fld₁, fld₂]) (hok r₂ hr₂ r₁ hr₁ reach₂ reach₁ fld₂ fld₁)
      rcases hsafe with ⟨h1, h2⟩ | h | ⟨h1, h2, m, h3, h4⟩
      · rw [wr₁] at h1; rw [wr₂] at h2; subst h1; subst h2; simp at hw
      · rw [fld₁] at h
        rw [h] at sy₁ sy₂
        exact hns ⟨sy₁.symm, sy₂.symm⟩
      · have g₁ := lk₁ h1 m h3
        have g₂ := lk₂ h2 m h4
        have wf₁ : WF pre := wf_prefix hwf pre _ rfl
        have wf₂ : WF (pre ++ [Ev.acc t₁ (o, f) w₁ s₁]) :=
          wf_prefix hwf _ (Ev.acc t₂ (o, f) w₂ s₂ :: post) (by simp)
        have e₁ := (bracket_holds wf₁ t₁ (o, m)).2 g₁
        have e₂ := (bracket_holds wf₂ t₂ (o, m)).2 g₂
        rw [holders_snoc] at e₂
        simp only [applyEv] at e₂
        rw [e₁] at e₂
        exact hne (Option.some.inj e₂)

theorem race_field_of_race {tr : List Ev} (h : Race tr) : ∃ f, RaceOnField f tr := by
  obtain ⟨pre, a, b, post, rfl, hconf⟩ := h
  cases a with
  | lock _ _ => exact absurd hconf (by simp [conflict])
  | unlock _ _ => exact absurd hconf (by simp [conflict])
  | acc t l w s =>
    exact ⟨l.2, l.1, pre, _, b, post, rfl, hconf, rfl⟩

theorem race_of_race_field {tr : List Ev} {f : Nat} (h : RaceOnField f tr) : Race tr := by
  obtain ⟨_, pre, a, b, post, rfl, hconf, _⟩ := h
  exact ⟨pre, a, b, post, rfl, hconf⟩

/-- if every member obeys the discipline the table is race free -/
theorem raceFree_of_fieldOK (T : Table) (h : ∀ f, FieldOK T f) : RaceFree T := by
  intro tr hwf hc hr
  obtain ⟨f, hf⟩ := race_field_of_race hr
  exact lockset_sound T f (h f) hwf hc hf

end BFL.Race
