import BFL.Model.History
import Mathlib.Data.List.Basic
import Mathlib.Tactic.Ring
/-
Helper lemmas about the history buffer model (`BFL/Model/History.lean`).
-/
namespace BFL
namespace HistBuf
variable {β : Type}

theorem popBackWhile_eq_take (l : List β) (n : Nat) : popBackWhile l n = l.take n := by
  induction hk : l.length generalizing l with
  | zero =>
    have : l = [] := List.length_eq_zero_iff.mp hk
    subst this
    unfold popBackWhile; simp
  | succ k ih =>
    unfold popBackWhile
    by_cases hgt : l.length > n
    · rw [if_pos hgt, ih l.dropLast (by simp [List.length_dropLast, hk])]
      rw [List.dropLast_eq_take, List.take_take]
      congr 1
      omega
    · rw [if_neg hgt]
      exact (List.take_of_length_le (by omega)).symm

theorem clampWindow_bounds (w : Nat) : 2 ≤ clampWindow w ∧ clampWindow w ≤ 30 := by
  unfold clampWindow maxWindow
  split
  · omega
  · split <;> omega

theorem clampWindow_of_mem {w : Nat} (h2 : 2 ≤ w) (h30 : w ≤ 30) : clampWindow w = w := by
  unfold clampWindow maxWindow
  split
  · omega
  · split <;> omega

theorem clampWindow_low {w : Nat} (h : w < 2) : clampWindow w = 2 := by
  simp [clampWindow, h]

theorem clampWindow_high {w : Nat} (h : 30 ≤ w) : clampWindow w = 30 := by
  unfold clampWindow maxWindow
  rw [if_neg (by omega), if_pos h]

/-- the invariant of every reachable buffer -/
structure Inv (h : HistBuf β) : Prop where
  lo : 2 ≤ h.window
  hi : h.window ≤ 30
  len : h.items.length ≤ h.window

theorem inv_init : Inv (init : HistBuf β) := ⟨by simp [init], by simp [init], by simp [init]⟩

@[simp] theorem add_window (h : HistBuf β) (x : β) : (h.add x).window = h.window := by
  unfold add; simp only; split <;> rfl

theorem add_items (h : HistBuf β) (x : β) (_hw : 1 ≤ h.window) (hl : h.items.length ≤ h.window) :
    (h.add x).items = (x :: h.items).take h.window := by
  unfold add
  simp only
  split
  · rename_i hgt
    simp only [List.length_cons] at hgt
    have : h.items.length = h.window := by omega
    rw [List.dropLast_eq_take]
    simp only [List.length_cons]
    congr 1
  · rename_i hgt
    simp only [List.length_cons] at hgt
    exact (List.take_of_length_le (by simp only [List.length_cons]; omega)).symm

theorem add_length (h : HistBuf β) (x : β) (hw : 1 ≤ h.window) (hl : h.items.length ≤ h.window) :
    (h.add x).items.length = min (h.items.length + 1) h.window := by
  rw [add_items h x hw hl, List.length_take, List.length_cons, Nat.min_comm]

theorem setWindow_flag (h : HistBuf β) (w : Nat) : (h.setWindow w).2 = true := by
  unfold setWindow; split
  · rfl
  · simp only; split <;> rfl

theorem setWindow_window (h : HistBuf β) (w : Nat) :
    (h.setWindow w).1.window = if w = h.window then h.window else clampWindow w := by
  unfold setWindow; split
  · rfl
  · simp only; split <;> rfl

theorem setWindow_items (h : HistBuf β) (w : Nat) (hl : h.items.length ≤ h.window) :
    (h.setWindow w).1.items = h.items.take (h.setWindow w).1.window := by
  unfold setWindow; split
  · exact (List.take_of_length_le hl).symm
  · simp only; split
    · simp only [popBackWhile_eq_take]
    · rename_i hnot
      simp only
      have : h.items.length ≤ clampWindow w := by
        by_contra hc
        exact hnot ⟨by omega, by omega⟩
      exact (List.take_of_length_le this).symm

theorem inv_add {h : HistBuf β} (hi : Inv h) (x : β) : Inv (h.add x) := by
  refine ⟨by simpa using hi.lo, by simpa using hi.hi, ?_⟩
  rw [add_length h x (by have := hi.lo; omega) hi.len, add_window]
  exact Nat.min_le_right _ _

theorem inv_setWindow {h : HistBuf β} (hi : Inv h) (w : Nat) : Inv (h.setWindow w).1 := by
  have hw := setWindow_window h w
  have hit := setWindow_items h w hi.len
  have hb := clampWindow_bounds w
  refine ⟨?_, ?_, ?_⟩
  · rw [hw]; split
    · exact hi.lo
    · exact hb.1
  · rw [hw]; split
    · exact hi.hi
    · exact hb.2
  · rw [hit, List.length_take]; exact Nat.min_le_left _ _

theorem uintSub1_eq {w : Nat} (h1 : 1 ≤ w) : uintSub1 w = w - 1 := by
  unfold uintSub1
  rw [if_neg (by omega)]

theorem uintAdd1_eq {w : Nat} (h2 : w ≤ 30) : uintAdd1 w = w + 1 := by
  unfold uintAdd1
  rw [if_neg (by omega)]

theorem inv_step {h : HistBuf β} (hi : Inv h) (o : Op β) : Inv (step h o) := by
  cases o with
  | add x => exact inv_add hi x
  | set w => exact inv_setWindow hi w
  | dec => exact inv_setWindow hi _
  | inc => exact inv_setWindow hi _
  | clear => exact ⟨hi.lo, hi.hi, by simp [step, clear]⟩

theorem inv_foldl {h : HistBuf β} (hi : Inv h) (ops : List (Op β)) : Inv (ops.foldl step h) := by
  induction ops generalizing h with
  | nil => exact hi
  | cons o os ih => exact ih (inv_step hi o)

theorem inv_run (ops : List (Op β)) : Inv (run ops) := inv_foldl inv_init ops

end HistBuf
end BFL
