import BFL.Driver.Proto
import BFL.Model.Shape
/-
Driver entry of the container model (C11), executed over `Float` (the only arithmetic is the
`1.0 / components` of the constructors, which IEEE division renders bit-for-bit).

  shp <op> ; <op> ; ...      same grammar as harness/h_shape.cpp (see there)

Output mirrors the harness token for token; an unspecified entry is printed as `_`.  A sequence on
which the model predicts an Eigen assertion prints `crash:assert`.
-/
namespace BFL.DriverShape
open BFL BFL.Proto BFL.Shape

instance : NatCast Float := ⟨Float.ofNat⟩
instance : Zero Float := ⟨0.0⟩
instance : One Float := ⟨1.0⟩

def valStr (x : Float) : String :=
  if x.toBits == 0 then "0"
  else if x.abs < 2147483648.0 && x.floor == x && x != 0.0 then
    (if x < 0.0 then "-" else "") ++ toString x.abs.toUInt64.toNat
  else floatStr x

def cellStr : Option Float → String
  | some v => valStr v
  | none => "_"

def stampVal (stamp storage comp idx : Nat) : Float :=
  Float.ofNat (1 + idx + 1024 * (comp + 32 * (storage + 4 * stamp)))

/-- The repository builds with EIGEN_INITIALIZE_MATRICES_BY_ZERO (CMakeLists.txt). -/
def zeroInit : Option Float := some 0.0

def kindOfNat : Nat → Option Kind
  | 0 => some Kind.gm
  | 1 => some Kind.gaussian
  | 2 => some Kind.ps
  | _ => none

def kindNat : Kind → Nat
  | Kind.gm => 0
  | Kind.gaussian => 1
  | Kind.ps => 2

/-- position `(col, row)` of an element inside a matrix with `rows` rows -/
def pos (rows col row : Nat) : List String :=
  if rows = 0 then ["z", "z"] else [toString col, toString row]

/-- geometry of a block starting at `(0, col)` with `r × c` cells -/
def geom (rows col r c : Nat) : List String :=
  (if r * c = 0 then ["z", "z"] else pos rows col 0) ++ [toString r, toString c]

def twice (l : List String) : List String := l ++ l

def entries (s : Sto Float) : List String :=
  (List.range s.cols).flatMap fun j => (List.range s.rows).map fun i => cellStr (s.get i j)

def dumpObj (slot : Nat) (x : Container Float) : List String :=
  let b (v : Bool) := if v then "1" else "0"
  let n (v : Nat) := toString v
  let mr := x.mean.rows; let mc := x.mean.cols
  let cr := x.cov.rows; let cc := x.cov.cols
  let wr := x.weight.rows
  let isPs := x.kind == Kind.ps
  let sr := if isPs then x.state.rows else 0
  let sc := if isPs then x.state.cols else 0
  let dc := x.dimCovariance
  let acc := (List.range (min x.components 32)).flatMap fun i =>
    let (mcol, mw) := meanBlock x i
    let (ccol, cw) := covBlock x i
    let (scol, sw) := stateBlock x i
    (if i < mc then twice (geom mr mcol mr mw) else ["oob"]) ++
    (if i < mc ∧ mr > 0 then twice (pos mr mcol (mr - 1)) else ["-"]) ++
    (if ccol + cw ≤ cc then twice (geom cr ccol cr cw) else ["oob"]) ++
    (if cr > 0 ∧ dc > 0 ∧ ccol + cw ≤ cc then
        twice (pos cr (ccol + (dc - 1)) 0 ++ pos cr ccol (cr - 1)) else ["-"]) ++
    (if i < wr then twice [n (weightIndex x i)] else ["oob"]) ++
    (if isPs then
      (if i < sc then twice (geom sr scol sr sw) else ["oob"]) ++
      (if i < sc ∧ sr > 0 then twice (pos sr scol (sr - 1)) else ["-"])
     else [])
  let ga := if x.kind == Kind.gaussian then
      ["G"] ++
      (if mc ≥ 1 then twice (geom mr 0 mr 1) else ["oob"]) ++
      (if mc ≥ 1 ∧ mr > 0 then twice (pos mr 0 (mr - 1)) else ["-"]) ++
      twice (geom cr 0 cr cc) ++
      (if cr > 0 ∧ cc > 0 then twice (pos cr (cc - 1) 0 ++ pos cr 0 (cr - 1)) else ["-"]) ++
      (if wr ≥ 1 then ["0", "0"] else ["oob"])
    else []
  ["O", n slot, n (kindNat x.kind), n x.components, b x.useQuaternion, n x.dimCircularComponent,
   n x.dim, n x.dimLinear, n x.dimCircular, n x.dimNoise, n x.dimCovariance,
   "M", n mr, n mc, "C", n cr, n cc, "W", n wr, "S", n sr, n sc,
   "A", "H"] ++ geom mr 0 mr mc ++ geom cr 0 cr cc ++ geom wr 0 wr 1 ++ (if isPs then geom sr 0 sr sc else []) ++
   acc ++ ga ++
  ["E"] ++ entries x.mean ++ ["/"] ++ entries x.cov ++ ["/"] ++
  ((List.range wr).map fun i => cellStr (x.weight.get i 0)) ++ ["/"] ++
  (if isPs then entries x.state else [])

/-- One parsed operation: the model operation, the slot it writes to, an applicability test the
    harness also makes (Gaussian-only accessor variants), and how the return value is shown. -/
structure POp where
  op : Op Float
  dst : Nat
  /-- extra applicability condition on the pool -/
  ok : Pool Float → Bool := fun _ => true
  ret : Pool Float → String := fun _ => "-"

def gaussianOnly (s i : Nat) (mode : Nat) (p : Pool Float) : Bool :=
  if mode = 2 then
    match p s with
    | some x => x.kind == Kind.gaussian && i == 0
    | none => false
  else true

def parseOp : R POp := do
  let o ← tok
  match o with
  | "D" => do
    let dst ← nat; let k ← nat
    match kindOfNat k with
    | some kind => pure { op := Op.ctorDefault dst kind zeroInit, dst }
    | none => failure
  | "C2" => do
    let dst ← nat; let k ← nat; let comps ← nat; let d ← nat
    match kindOfNat k with
    | some kind => pure { op := Op.ctorDim dst kind comps d zeroInit, dst }
    | none => failure
  | "C4" => do
    let dst ← nat; let k ← nat; let comps ← nat; let l ← nat; let c ← nat; let q ← bool
    match kindOfNat k with
    | some kind => pure { op := Op.ctorLayout dst kind comps l c q zeroInit, dst }
    | none => failure
  | "CP" => do
    let dst ← nat; let src ← nat; let _mode ← nat
    pure { op := Op.copy dst src, dst }
  | "SL" => do
    let dst ← nat; let src ← nat
    pure { op := Op.slice dst src, dst }
  | "RS" => do
    let s ← nat; let k ← nat; let l ← nat; let c ← nat
    pure { op := Op.resize s k l c, dst := s }
  | "R2" => do
    let s ← nat; let k ← nat; let l ← nat
    pure { op := Op.resize s k l 0, dst := s }
  | "GR" => do
    let s ← nat; let l ← nat; let c ← nat
    pure { op := Op.gaussianResize s l c, dst := s }
  | "G1" => do
    let s ← nat; let l ← nat
    pure { op := Op.gaussianResize s l 0, dst := s }
  | "AU" => do
    let s ← nat; let qr ← nat; let qc ← nat
    let vals ← listOf (qr * qc) flt
    let arr := vals.toArray
    let q : Nat → Nat → Float := fun i j => arr.getD (j * qr + i) 0.0
    pure { op := Op.augment s qr qc q, dst := s,
           ret := fun p => match p s with
             | some x => match augment x qr qc q with
               | some (_, true) => "t"
               | some (_, false) => "f"
               | none => "-"
             | none => "-" }
  | "AA" => do
    let s ← nat; let i ← nat
    pure { op := Op.augmentSelf s i, dst := s,
           ret := fun p => match p s with
             | some x => match augmentSelf x i with
               | some (_, true) => "t"
               | some (_, false) => "f"
               | none => "-"
             | none => "-" }
  | "MV" => do
    let dst ← nat; let src ← nat; let _mode ← nat
    pure { op := Op.move dst src, dst }
  | "BA" => do
    let dst ← nat; let src ← nat
    pure { op := Op.baseAssign dst src, dst }
  | "PE" => do
    let dst ← nat; let src ← nat
    pure { op := Op.concatAssign dst src, dst }
  | "PL" => do
    let dst ← nat; let a ← nat; let b ← nat
    pure { op := Op.concatPlus dst a b, dst }
  | "PA" => do
    -- `dst = a + b` assigned to an existing particle set (the harness skips otherwise)
    let dst ← nat; let a ← nat; let b ← nat
    pure { op := Op.concatPlus dst a b, dst,
           ok := fun p => match p dst with
             | some x => x.kind == Kind.ps
             | none => false }
  | "WM" => do
    let s ← nat; let mode ← nat; let i ← nat; let j ← nat; let v ← flt
    pure { op := Op.writeMean s i j v, dst := s, ok := gaussianOnly s i mode }
  | "WC" => do
    let s ← nat; let mode ← nat; let i ← nat; let j ← nat; let k ← nat; let v ← flt
    pure { op := Op.writeCov s i j k v, dst := s, ok := gaussianOnly s i mode }
  | "WW" => do
    let s ← nat; let mode ← nat; let i ← nat; let v ← flt
    pure { op := Op.writeWeight s i v, dst := s, ok := gaussianOnly s i mode }
  | "WS" => do
    let s ← nat; let _mode ← nat; let i ← nat; let j ← nat; let v ← flt
    pure { op := Op.writeState s i j v, dst := s }
  | "FI" => do
    let s ← nat; let stamp ← nat
    pure { op := Op.fill s (fun storage comp idx => stampVal stamp storage comp idx), dst := s }
  | _ => failure

partial def parseOps (acc : Array POp) : R (Array POp) := do
  match (← get) with
  | [] => pure acc
  | _ =>
    let o ← parseOp
    let acc := acc.push o
    match (← get) with
    | [] => pure acc
    | ";" :: rest => set rest; parseOps acc
    | _ => failure

def nSlot : Nat := 4

def shp : R String := do
  let ops ← parseOps #[]
  let mut pool : Pool Float := emptyPool
  let mut out : Array String := #["ok"]
  for o in ops do
    if o.dst ≥ nSlot then failure
    if !o.ok pool then
      out := out.push "skip" |>.push ";"
    else
      let r := o.ret pool
      match step pool o.op with
      | Outcome.assert => return "crash:assert"
      | Outcome.skip => out := out.push "skip" |>.push ";"
      | Outcome.ok p' =>
        pool := p'
        match pool o.dst with
        | some x => out := (out.push r) ++ (dumpObj o.dst x).toArray |>.push ";"
        | none => out := out.push "skip" |>.push ";"
  out := out.push "END"
  for s in [0:nSlot] do
    match pool s with
    | some x => out := out ++ (dumpObj s x).toArray
    | none => pure ()
  pure (join out.toList)

def handle (op : String) (args : List String) : Option String :=
  match op with
  | "shp" => some ((run shp args).getD "bad-args")
  | _ => none

end BFL.DriverShape
