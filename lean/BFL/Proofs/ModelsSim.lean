import BFL.Model.Models
import BFL.Bridge.Mat
import Mathlib.Data.Matrix.Mul
import Mathlib.Algebra.BigOperators.Fin
import Mathlib.Data.Real.Basic
import Mathlib.Tactic.Linarith
import Mathlib.Tactic.Ring
import Mathlib.Tactic.SplitIfs
/-
Helper lemmas for C16: constructor validation, the component-selecting measurement matrix, the
simulated trajectory (cursor machine) and the simulated sensor.
-/
open Matrix
namespace BFL.Models

/-! ### constructor validation chains -/

theorem ltiStateCtor_iff (fr fc qr qc : Nat) :
    ltiStateCtor fr fc qr qc = true ↔ (0 < fr ∧ fr = fc ∧ qr = qc ∧ fr = qr) := by
  unfold ltiStateCtor ltiStateCheck
  split_ifs <;> simp <;> omega

theorem ltiMeasCtor_iff (hr hc rr rc : Nat) :
    ltiMeasCtor hr hc rr rc = true ↔ (0 < hr ∧ 0 < hc ∧ rr = rc ∧ hr = rr) := by
  unfold ltiMeasCtor ltiMeasCheck
  split_ifs <;> simp <;> omega

/-- which shape class each check of `LTIStateModel` rejects -/
theorem ltiStateCheck_cases (fr fc qr qc : Nat) :
    (ltiStateCheck fr fc qr qc = some 1 ↔ (fr = 0 ∨ fc = 0)) ∧
    (ltiStateCheck fr fc qr qc = some 2 ↔ (0 < fr ∧ 0 < fc ∧ (qr = 0 ∨ qc = 0))) ∧
    (ltiStateCheck fr fc qr qc = some 3 ↔ (0 < fr ∧ 0 < fc ∧ 0 < qr ∧ 0 < qc ∧ fr ≠ fc)) ∧
    (ltiStateCheck fr fc qr qc = some 4 ↔ (0 < fr ∧ fr = fc ∧ 0 < qr ∧ 0 < qc ∧ qr ≠ qc)) ∧
    (ltiStateCheck fr fc qr qc = some 5 ↔ (0 < fr ∧ fr = fc ∧ 0 < qr ∧ qr = qc ∧ fr ≠ qr)) := by
  unfold ltiStateCheck
  split_ifs <;> simp <;> omega

theorem ltiMeasCheck_cases (hr hc rr rc : Nat) :
    (ltiMeasCheck hr hc rr rc = some 1 ↔ (hr = 0 ∨ hc = 0)) ∧
    (ltiMeasCheck hr hc rr rc = some 2 ↔ (0 < hr ∧ 0 < hc ∧ (rr = 0 ∨ rc = 0))) ∧
    (ltiMeasCheck hr hc rr rc = some 3 ↔ (0 < hr ∧ 0 < hc ∧ 0 < rr ∧ 0 < rc ∧ rr ≠ rc)) ∧
    (ltiMeasCheck hr hc rr rc = some 4 ↔ (0 < hr ∧ 0 < hc ∧ 0 < rr ∧ rr = rc ∧ hr ≠ rr)) := by
  unfold ltiMeasCheck
  split_ifs <;> simp <;> omega

theorem linearModelCtor_iff (n : Nat) (idx : List Nat) (rr rc : Nat) :
    linearModelCtor n idx rr rc = true ↔
      (idx ≠ [] ∧ 0 < n ∧ rr = rc ∧ idx.length = rr ∧ ∀ c ∈ idx, c < n) := by
  have hbase := ltiMeasCtor_iff idx.length n rr rc
  unfold linearModelCtor linearModelCheck
  unfold ltiMeasCtor at hbase
  cases h : ltiMeasCheck idx.length n rr rc with
  | some k =>
    rw [h] at hbase
    simp only [Option.isNone_some, Bool.false_eq_true, false_iff] at hbase ⊢
    intro hcon
    apply hbase
    refine ⟨?_, hcon.2.1, hcon.2.2.1, hcon.2.2.2.1⟩
    exact List.length_pos_of_ne_nil hcon.1
  | none =>
    rw [h] at hbase
    simp only [Option.isNone_none, true_iff] at hbase
    have hne : idx ≠ [] := List.ne_nil_of_length_pos hbase.1
    by_cases hall : idx.all (fun c => decide (c < n)) = true
    · simp only [hall, if_true, Option.isNone_none, true_iff]
      refine ⟨hne, hbase.2.1, hbase.2.2.1, hbase.2.2.2, ?_⟩
      simpa using hall
    · simp only [hall, Bool.false_eq_true, if_false, Option.isNone_some, false_iff]
      intro hcon
      apply hall
      simpa using hcon.2.2.2.2

/-- rejected by the index loop (check 5) ⇔ the base constructor accepted and some index is `≥ n` -/
theorem linearModelCheck_index (n : Nat) (idx : List Nat) (rr rc : Nat) :
    linearModelCheck n idx rr rc = some 5 ↔
      (ltiMeasCtor idx.length n rr rc = true ∧ ∃ c ∈ idx, n ≤ c) := by
  unfold linearModelCheck ltiMeasCtor
  cases h : ltiMeasCheck idx.length n rr rc with
  | some k =>
    simp only [Option.isNone_some, Bool.false_eq_true, false_and, iff_false]
    intro hk
    have hk5 : k = 5 := by simpa using hk
    subst hk5
    unfold ltiMeasCheck at h
    split_ifs at h <;> simp at h
  | none =>
    simp only [Option.isNone_none, true_and]
    by_cases hall : idx.all (fun c => decide (c < n)) = true
    · simp only [hall, if_true, reduceCtorEq, false_iff]
      push Not
      intro c hcm
      have := (List.all_eq_true.mp hall) c hcm
      simpa using this
    · simp only [hall, Bool.false_eq_true, if_false, true_iff]
      by_contra hcon
      push Not at hcon
      apply hall
      rw [List.all_eq_true]
      intro c hcm
      simpa using hcon c hcm

/-! ### the 0/1 measurement matrix -/

theorem linearModelH_mulVec {n : Nat} (idx : List Nat) (x : Fin n → ℝ) (i : Fin idx.length)
    (h : idx[i.val] < n) :
    (toM (linearModelH (α := ℝ) n idx) *ᵥ x) i = x ⟨idx[i.val], h⟩ := by
  simp only [Matrix.mulVec, dotProduct, toM_apply, linearModelH, Mat.of_apply]
  rw [Finset.sum_eq_single ⟨idx[i.val], h⟩]
  · simp
  · intro j _ hj
    have : ¬ idx[i.val] = j.val := fun e => hj (Fin.ext e.symm)
    simp [this]
  · intro hcon
    exact absurd (Finset.mem_univ _) hcon

theorem linearModelH_entry {n : Nat} (idx : List Nat) (i : Fin idx.length) (j : Fin n) :
    (linearModelH (α := ℝ) n idx) i j = 0 ∨ (linearModelH (α := ℝ) n idx) i j = 1 := by
  simp only [linearModelH, Mat.of_apply]
  split_ifs <;> simp

theorem linearModelH_one_iff {n : Nat} (idx : List Nat) (i : Fin idx.length) (j : Fin n) :
    (linearModelH (α := ℝ) n idx) i j = 1 ↔ idx[i.val] = j.val := by
  simp only [linearModelH, Mat.of_apply]
  split_ifs with h <;> simp [h]

/-! ### the trajectory and its cursor -/

section sim
variable {σ : Type}

theorem simCtor_target_length (step : Nat → σ → σ) (x0 : σ) (L : Nat) :
    (simCtor step x0 L).target.length = L := by
  simp [simCtor]

theorem simCtor_target_get (step : Nat → σ → σ) (x0 : σ) (L k : Nat) (h : k < L) :
    (simCtor step x0 L).target[k]? = some (simTraj step x0 k) := by
  simp [simCtor, h]

theorem step_target (s : Sim σ) (op : SimOp) : (s.step op).1.target = s.target := by
  cases op <;> simp only [Sim.step]
  split_ifs <;> rfl

theorem run_cons (s : Sim σ) (op : SimOp) (ops : List SimOp) :
    s.run (op :: ops) = (((s.step op).1.run ops).1, (s.step op).2 :: ((s.step op).1.run ops).2) := by
  simp only [Sim.run]

theorem run_target (s : Sim σ) (ops : List SimOp) : (s.run ops).1.target = s.target := by
  induction ops generalizing s with
  | nil => rfl
  | cons op ops ih => rw [run_cons]; simp only []; rw [ih, step_target]

theorem run_append_fst (s : Sim σ) (a b : List SimOp) :
    (s.run (a ++ b)).1 = ((s.run a).1.run b).1 := by
  induction a generalizing s with
  | nil => rfl
  | cons op a ih => simp only [List.cons_append, run_cons]; exact ih _

theorem run_append_snd (s : Sim σ) (a b : List SimOp) :
    (s.run (a ++ b)).2 = (s.run a).2 ++ ((s.run a).1.run b).2 := by
  induction a generalizing s with
  | nil => rfl
  | cons op a ih => simp only [List.cons_append, run_cons, List.cons_append]; rw [ih]

theorem step_cursor (s : Sim σ) (op : SimOp) (h : s.cursor ≤ s.target.length) :
    (s.step op).1.cursor = min s.target.length (cursorStep s.cursor op) := by
  cases op <;> simp only [Sim.step, cursorStep]
  · split_ifs with hc
    · simp only []; omega
    · simp only []; omega
  · omega
  · simp
  · omega

theorem min_foldl_cursorStep (L : Nat) (ops : List SimOp) (a : Nat) :
    min L (ops.foldl cursorStep (min L a)) = min L (ops.foldl cursorStep a) := by
  induction ops generalizing a with
  | nil => simp
  | cons op ops ih =>
    simp only [List.foldl_cons]
    cases op
    · simp only [cursorStep]
      rw [← ih (min L a + 1), ← ih (a + 1)]
      congr 2
      omega
    · simp only [cursorStep]; exact ih a
    · simp only [cursorStep]
    · simp only [cursorStep]; exact ih a

theorem run_cursor (s : Sim σ) (ops : List SimOp) (h : s.cursor ≤ s.target.length) :
    (s.run ops).1.cursor = min s.target.length (ops.foldl cursorStep s.cursor) := by
  induction ops generalizing s with
  | nil => simp [Sim.run]; omega
  | cons op ops ih =>
    rw [run_cons]
    simp only [List.foldl_cons]
    have h1 : (s.step op).1.cursor ≤ (s.step op).1.target.length := by
      rw [step_cursor s op h, step_target]; omega
    rw [ih _ h1, step_target, step_cursor s op h, min_foldl_cursorStep]

/-- cursor after any call sequence on a freshly constructed object -/
theorem simCtor_run_cursor (step : Nat → σ → σ) (x0 : σ) (L : Nat) (ops : List SimOp) :
    ((simCtor step x0 L).run ops).1.cursor = min L (bufCount ops) := by
  have := run_cursor (simCtor step x0 L) ops (by simp [simCtor])
  rw [this, simCtor_target_length]
  rfl

/-- `bufferData` on a state whose cursor is `c < L` -/
theorem step_buffer_lt (s : Sim σ) (h : s.cursor < s.target.length) :
    s.step .buffer = ({ s with cursor := s.cursor + 1, data := some (s.target[s.cursor]'h) }, .flag true) := by
  simp only [Sim.step]
  rw [if_neg (by omega)]
  simp [List.getElem?_eq_getElem h]

/-- `bufferData` on an exhausted trajectory -/
theorem step_buffer_ge (s : Sim σ) (h : s.target.length ≤ s.cursor) :
    s.step .buffer = (s, .flag false) := by
  simp only [Sim.step]
  rw [if_pos h]

end sim

/-! ### sensor -/

theorem sensorMeasurement_eq {n m : Nat} (H : Mat ℝ m n) (SR : Mat ℝ m m) (x : Vec ℝ n) (z : Vec ℝ m) :
    toV (sensorMeasurement H SR x z) = toM H *ᵥ toV x + toM SR *ᵥ toV z := by
  simp [sensorMeasurement]

theorem sensorFreeze_lt {α : Type} [Add α] [Mul α] [Zero α] [Inhabited α] {n m : Nat}
    (H : Mat α m n) (SR : Mat α m m) (s : Sensor α n m) (h : s.sim.cursor < s.sim.target.length) :
    sensorFreeze H SR s =
      ({ sim := { s.sim with cursor := s.sim.cursor + 1, data := some (s.sim.target[s.sim.cursor]'h) }
         meas := some (sensorMeasurement H SR (s.sim.target[s.sim.cursor]'h)
                   ((s.rng.draw m 1).1.col ⟨0, Nat.one_pos⟩))
         rng := (s.rng.draw m 1).2 }, true) := by
  simp only [sensorFreeze, step_buffer_lt s.sim h]

theorem sensorFreeze_ge {α : Type} [Add α] [Mul α] [Zero α] [Inhabited α] {n m : Nat}
    (H : Mat α m n) (SR : Mat α m m) (s : Sensor α n m) (h : s.sim.target.length ≤ s.sim.cursor) :
    sensorFreeze H SR s = (s, false) := by
  simp only [sensorFreeze, step_buffer_ge s.sim h]

end BFL.Models

namespace BFL.Models

/-! ### the measurement description computed from `H` -/

theorem find?_of_unique {β : Type} (l : List β) (p : β → Bool) (a : β) (ha : a ∈ l) (hpa : p a = true)
    (huniq : ∀ b ∈ l, p b = true → b = a) : l.find? p = some a := by
  induction l with
  | nil => simp at ha
  | cons x xs ih =>
    by_cases hx : p x = true
    · have : x = a := huniq x (List.mem_cons_self) hx
      subst this
      simp [List.find?_cons, hpa]
    · have hxa : x ≠ a := fun e => hx (e ▸ hpa)
      have ha' : a ∈ xs := by
        rcases List.mem_cons.mp ha with h | h
        · exact absurd h.symm hxa
        · exact h
      simp only [List.find?_cons, Bool.not_eq_true] at hx ⊢
      rw [hx]
      exact ih ha' (fun b hb => huniq b (List.mem_cons_of_mem _ hb))

theorem absV_zero : absV (0 : ℝ) = 0 := by simp [absV]
theorem absV_one : absV (1 : ℝ) = 1 := by
  simp only [absV]; rw [if_neg (by norm_num)]

theorem rowArgmaxAbs_linearModelH {n : Nat} (idx : List Nat) (i : Fin idx.length) (h : idx[i.val] < n) :
    rowArgmaxAbs (linearModelH (α := ℝ) n idx) i = some ⟨idx[i.val], h⟩ := by
  unfold rowArgmaxAbs
  apply find?_of_unique
  · exact List.mem_finRange _
  · rw [List.all_eq_true]
    intro k _
    have h1 : (linearModelH (α := ℝ) n idx) i ⟨idx[i.val], h⟩ = 1 := (linearModelH_one_iff idx i _).2 rfl
    rw [h1, absV_one]
    rcases linearModelH_entry idx i k with hk | hk <;> rw [hk] <;> simp [absV_zero, absV_one]
  · intro j _ hj
    rw [List.all_eq_true] at hj
    have hmax := hj ⟨idx[i.val], h⟩ (List.mem_finRange _)
    have h1 : (linearModelH (α := ℝ) n idx) i ⟨idx[i.val], h⟩ = 1 := (linearModelH_one_iff idx i _).2 rfl
    rw [h1, absV_one] at hmax
    rcases linearModelH_entry idx i j with hk | hk
    · rw [hk, absV_zero] at hmax
      simp at hmax
    · have := (linearModelH_one_iff idx i j).1 hk
      exact Fin.ext this.symm

theorem sensorSel_linearModelH {n : Nat} (idx : List Nat) (hall : ∀ c ∈ idx, c < n) :
    sensorSel (linearModelH (α := ℝ) n idx) = idx := by
  unfold sensorSel
  apply List.ext_getElem
  · simp
  · intro k h1 h2
    simp only [List.getElem_map, List.getElem_finRange]
    have hk : k < idx.length := by simpa using h1
    have hlt : idx[k] < n := hall _ (List.getElem_mem hk)
    have := rowArgmaxAbs_linearModelH (n := n) idx ⟨k, hk⟩ hlt
    simp only [rowSel, Fin.cast_mk]
    rw [this]

theorem sensorMeasDescrH_eq {n : Nat} (state : Descr) (idx : List Nat) (hall : ∀ c ∈ idx, c < n) :
    sensorMeasDescrH state (linearModelH (α := ℝ) n idx) = sensorMeasDescr state idx := by
  unfold sensorMeasDescrH sensorMeasDescr
  simp only []
  rw [sensorSel_linearModelH idx hall]

end BFL.Models

namespace BFL.Models
open Matrix

/-! ### `k` successive freezes (history lift) -/

/-- what the sensor holds after `k` freezes, starting with cursor `c ≤ L` -/
theorem sensorFreezeN_spec {n m : Nat} (H : Mat ℝ m n) (SR : Mat ℝ m m) (s : Sensor ℝ n m)
    (L c : Nat) (hL : s.sim.target.length = L) (hcu : s.sim.cursor = c) (hc : c ≤ L) (k : Nat) :
    (sensorFreezeN H SR s k).sim.target = s.sim.target ∧
    (sensorFreezeN H SR s k).sim.cursor = min (c + k) L ∧
    (sensorFreezeN H SR s k).rng.stream = s.rng.stream ∧
    (sensorFreezeN H SR s k).rng.pos = s.rng.pos + m * (min (c + k) L - c) ∧
    (∀ j, c ≤ j → j + 1 = min (c + k) L →
      ∃ (h : j < s.sim.target.length) (y : Vec ℝ m), (sensorFreezeN H SR s k).meas = some y ∧
        toV y = toM H *ᵥ toV (s.sim.target[j]'h)
                + toM SR *ᵥ (fun i : Fin m => s.rng.stream (s.rng.pos + m * (j - c) + i.val))) := by
  induction k with
  | zero =>
    refine ⟨rfl, ?_, rfl, ?_, ?_⟩
    · simp only [sensorFreezeN, hcu]; omega
    · simp only [sensorFreezeN]
      have : min (c + 0) L - c = 0 := by omega
      rw [this]; simp
    · intro j hj1 hj2; omega
  | succ k ih =>
    obtain ⟨ht, hcur, hstr, hpos, hmeas⟩ := ih
    simp only [sensorFreezeN]
    generalize sensorFreezeN H SR s k = t at ht hcur hstr hpos hmeas ⊢
    by_cases hlt : c + k < L
    · -- one more state is served
      have hmin : min (c + k) L = c + k := by omega
      have hcur' : t.sim.cursor = c + k := by rw [hcur, hmin]
      have hlt' : t.sim.cursor < t.sim.target.length := by rw [ht, hcur', hL]; exact hlt
      rw [sensorFreeze_lt H SR t hlt']
      have he : min (c + (k + 1)) L = c + k + 1 := by omega
      rw [he]
      refine ⟨ht, by simp only [hcur'], hstr, ?_, ?_⟩
      · simp only [Rng.draw]
        rw [hpos]
        have e1 : min (c + k) L - c = k := by omega
        have e2 : c + k + 1 - c = k + 1 := by omega
        rw [e1, e2]; ring
      · intro j hj1 hj2
        have hj : j = c + k := by omega
        subst hj
        have hidx : c + k < s.sim.target.length := by rw [hL]; exact hlt
        refine ⟨hidx, _, rfl, ?_⟩
        rw [sensorMeasurement_eq]
        have hx : t.sim.target[t.sim.cursor]'hlt' = s.sim.target[c + k]'hidx := by
          simp only [ht, hcur']
        rw [hx]
        congr 2
        funext i
        simp only [Mat.col, Rng.draw, fillCM, Mat.eval_eq, toV_apply, Vec.of_apply, Mat.of_apply]
        rw [hstr, hpos]
        congr 1
        have e1 : min (c + k) L - c = k := by omega
        have e2 : c + k - c = k := by omega
        rw [e1, e2]; omega
    · -- exhausted: nothing changes
      have hcur' : t.sim.cursor = L := by rw [hcur]; omega
      have hge : t.sim.target.length ≤ t.sim.cursor := by rw [ht, hcur', hL]
      rw [sensorFreeze_ge H SR t hge]
      have he : min (c + (k + 1)) L = min (c + k) L := by omega
      rw [he]
      exact ⟨ht, hcur, hstr, hpos, hmeas⟩

end BFL.Models
