"""C12 — A correction that cannot use the measurement leaves the belief untouched.

Proof stage : BFL.Props.C12 (fault_identity_{kf,ukf,sukf,bootstrap}, fault_identity_gpf_partial /
              _counterexample, likelihood_reports_failure, sis_freeze_failure_no_correct, ...).
Tie stage   : the real correction classes (and the real SIS on its own thread) are driven by a scripted
              measurement / likelihood model (harness/h_fault.cpp); the Lean model runs the same scripts.
Oracle stage: the property's clauses are evaluated on what the implementation itself observed:
                * the scripted model answered "unavailable" at a call whose validity the class is said to
                  depend on (measurement, predicted measurement, innovation; the noise covariance for the
                  Kalman correction and the Gaussian likelihood; a user likelihood) => the corrected belief is
                  bit-for-bit the predicted one, every field (label `pred`), the input is not modified;
                * the Gaussian likelihood reports failure (`none`), never a value;
                * SIS: freeze fails => corrected set == predicted set and no call of the correction reaches the
                  measurement / likelihood model in that step.
              The call log and the success label are compared with the model too, but (coordinator's rule)
              a difference there is a note in the evidence, never an alarm.
"""
import itertools
import json

import vlib

GAUSS = ["kf", "ukfa", "ukfg", "sukf"]
KNOWN_GPF_KEY = "gpf-partial-update:wrapped-correction-fails-likelihood-valid"
BOOT_MASSIGN_KEY = "bootstrap-move-assign:models-not-handed-over"            # fixed by 186c63d
GPF_MASSIGN_KEY = "gpf-move-assign:likelihood-model-not-handed-over"          # fixed by 2d4bf06
GPF_INPLACE_KEY = "gpf-in-place:predicted-set-not-restored"      # fixed by 5d39dcb; fires again if that is reverted
METHODS = ["fz", "me", "pr", "in", "no", "li"]


def bits(l):
    return "".join("1" if b else "0" for b in l) or "-"


def mkline(cls, seed, n, m, k, sub, sc):
    return "fault %s %d %d %d %d %d %s" % (cls, seed, n, m, k, sub, " ".join("%s=%s" % (x, bits(sc.get(x, []))) for x in METHODS))


def labset(lab):
    base = lab.split("+")[0]
    return set(base.split("=")[1:]) if base.startswith("ambiguous") else {base}


def parse_log(s):
    return [] if s == "-" else [(e[:2], e[2] == "1") for e in s.split(",")]


def consulted_failures(cls, log):
    """Entries of the implementation's own call log at which unavailability was signalled to code that the
    property says depends on it.  Returns (failures in the wrapped-Gaussian phase, failures elsewhere)."""
    wrapped, rest = [], []
    if cls.startswith("gpf-"):
        _, w, lk = cls.split("-")
        # the likelihood phase starts at the user likelihood call, or at the second measure()
        start, seen_me = len(log), 0
        for i, (mth, ok) in enumerate(log):
            if mth == "li":
                start = i
                break
            if mth == "me":
                seen_me += 1
                if seen_me == 2:
                    start = i
                    break
        for i, (mth, ok) in enumerate(log):
            if ok:
                continue
            if i < start:
                if mth in ("me", "pr", "in") or (mth == "no" and w == "kf"):
                    wrapped.append(mth)
            elif mth in ("me", "pr", "in", "no", "li"):
                rest.append(mth)
        return wrapped, rest
    for mth, ok in log:
        if ok:
            continue
        if mth in ("me", "pr", "in", "li"):
            rest.append(mth)
        elif mth == "no" and cls in ("kf", "glik", "bootg"):
            rest.append(mth)
    return wrapped, rest


def parse_epochs(line):
    """ep=<e0>/<e1>/... -> list of sets of method codes unavailable during call i (None: call-indexed scripts)"""
    last = next((x for x in line.split()[13:] if x.startswith("ep=")), None)
    if last is None:
        return None
    return [set() if e == "-" else {e[i:i + 2] for i in range(0, len(e), 2)} for e in last[3:].split("/")]


def epoch_failures(cls, T):
    """What the property demands from the *state of the model* during this call, whether or not the class asked:
    (unavailable quantities inside the wrapped Gaussian correction only, unavailable quantities that must give `pred`)."""
    if cls in ("kf", "glik", "bootg"):
        return [], sorted(T & {"me", "pr", "in", "no"})
    if cls in ("ukfa", "ukfg", "ukfgo", "sukf"):
        return [], sorted(T & {"me", "pr", "in"})
    if cls == "boots":
        return [], sorted(T & {"li"})
    _, w, lk = cls.split("-")
    if lk == "g":          # the Gaussian likelihood needs all four
        return [], sorted(T & {"me", "pr", "in", "no"})
    if "li" in T:
        return [], ["li"]
    return sorted(T & ({"me", "pr", "in"} | ({"no"} if w == "kf" else set()))), []


def check_single(line, hout, dout, stats, notes):
    """robust wrapper: whatever a mutated implementation prints becomes a violation with the input as replay"""
    cls = line.split()[1]
    try:
        bad = check_single_(line, hout, dout, stats, notes)
    except Exception as e:      # malformed harness output (unexpected shape / tokens)
        return [("%s:malformed-output" % cls, "the harness output could not be interpreted (%s): %s" % (type(e).__name__, hout[:120]))]
    if "massign=1" in line.split()[13:]:
        key = BOOT_MASSIGN_KEY if cls.startswith("boot") else GPF_MASSIGN_KEY
        bad = [(key if ("belief-touched" in k or "not-reached" in k) else k, "handed over by move assignment: " + w) for (k, w) in bad]
    return bad


def check_single_(line, hout, dout, stats, notes):
    t = line.split()
    cls, m, sub = t[1], int(t[4]), int(t[6])
    bad = []
    if hout.startswith("crash") or hout.startswith("throw"):
        return [("%s:crash" % cls, "the correction crashed / threw on a fault script (%s)" % hout[:60])]
    hs, ds = hout.split(), dout.split()
    size_fail = cls == "sukf" and m % sub != 0      # SUKF's own early return (size not divisible by the sub-size)
    br = stats.setdefault("branches", {})
    epochs = parse_epochs(line)
    if epochs is not None and len(hs) != len(epochs):
        return [("harness-output", "unexpected number of calls in the harness output")]
    for i, tok in enumerate(hs):
        _, lab, calls, same = tok.split(":")
        mtok = ds[i].split(":") if i < len(ds) else [None, None, None]
        where = "call %d: " % i if len(hs) > 1 else ""
        if same == "alias":
            where += "in-place call correct(b, b): "
            stats["in_place_calls"] = stats.get("in_place_calls", 0) + 1
        log = parse_log(calls)
        wrapped, rest = consulted_failures(cls, log)
        if epochs is not None:
            # the model *is* in that state during the whole call: a class that no longer asks (cached covariance,
            # cached measurement, cached validity) is still bound by the property
            ew, er = epoch_failures(cls, epochs[i])
            wrapped, rest = sorted(set(wrapped) | set(ew)), sorted(set(rest) | set(er))
            if er and not any(mth in er and not ok for mth, ok in log):
                where += "(the class did not ask for the unavailable %s in this call) " % "/".join(er)
            stats["epoch_calls"] = stats.get("epoch_calls", 0) + 1
        labs = labset(lab)
        stats["observations"] = stats.get("observations", 0) + 1
        if lab.startswith("ambiguous"):
            stats["uninformative"] = stats.get("uninformative", 0) + 1
        flags = line.split()[13:]
        if ("massign=1" in flags or "move=1" in flags) and calls == "-" and cls != "glik":
            bad.append(("%s:models-not-reached" % cls, where + "the handed-over correction made no call to the configured measurement / likelihood model"))
        for fl in ("deco=1", "move=1", "massign=1", "degen=1"):
            if fl in flags:
                stats[fl] = stats.get(fl, 0) + 1
        if any(f.startswith("pre=") for f in flags):
            stats["pre"] = stats.get("pre", 0) + 1
        if same not in ("same", "alias"):
            bad.append(("%s:input-modified" % cls, where + "the predicted belief passed in was modified"))
        if cls == "glik":
            if rest and "none" not in labs:
                bad.append(("glik:value-reported-on-failure:%s" % rest[0], where + "GaussianLikelihood reported a value although %s was unavailable" % rest[0]))
        elif cls.startswith("gpf-"):
            if rest and "pred" not in labs and same == "alias" and "unrestored" in labs:
                bad.append((GPF_INPLACE_KEY, where + "likelihood unavailable (%s): the object comes back with the wrapped correction's Gaussians and redrawn positions "
                            "(the restore corr = pred is a self-assignment) instead of the predicted set" % rest[0]))
            elif rest and "pred" not in labs:
                bad.append(("%s:belief-touched:likelihood-%s" % (cls, rest[0]), where + "likelihood unavailable (%s) but the corrected particle set differs from the predicted one (%s)" % (rest[0], lab)))
            elif wrapped and not rest and "pred" not in labs:
                if "partial" in labs:
                    bad.append((KNOWN_GPF_KEY, where + "GPFCorrection(%s): %s unavailable inside the wrapped Gaussian correction (which returns the predicted belief) while the likelihood is valid: "
                                "positions are redrawn and weights updated around the uncorrected Gaussians instead of returning the predicted set" % (cls, wrapped[0])))
                else:
                    bad.append(("%s:belief-touched:wrapped-%s" % (cls, wrapped[0]), where + "%s unavailable inside the wrapped correction; corrected set is neither the predicted one nor the known partial update (%s)" % (wrapped[0], lab)))
        else:
            fails = rest + (["size"] if size_fail else [])
            if fails and "pred" not in labs:
                bad.append(("%s:belief-touched:%s" % (cls, fails[0]), where + "%s unavailable but the corrected belief differs from the predicted one (%s)" % (fails[0], lab)))
        # comparison with the model: notes only
        if mtok[1] not in labs:
            notes.append((line, "label of call %d" % i, lab, mtok[1]))
        if mtok[2] != calls:
            notes.append((line, "call-log of call %d" % i, calls, mtok[2]))
        else:
            stats["logs_identical"] = stats.get("logs_identical", 0) + 1
        # coverage of the model's branches, from the model's own output
        if mtok[1] is not None:
            mlog = parse_log(mtok[2])
            exit_ = mtok[1]
            if exit_ in ("pred", "none"):
                exit_ = "return-at-" + (mlog[-1][0] if mlog and not mlog[-1][1] else "size-check")
            br["%s:%s" % (cls, exit_)] = br.get("%s:%s" % (cls, exit_), 0) + 1
            if cls.startswith("gpf-"):
                w, rest_m = consulted_failures(cls, mlog)
                key = "%s:wrapped-%s/likelihood-%s" % (cls, ("return-at-" + w[0]) if w else "success", ("return-at-" + rest_m[0]) if rest_m else "success")
                br[key] = br.get(key, 0) + 1
    return bad


def check_sis(line, hout, dout, stats, notes):
    try:
        return check_sis_(line, hout, dout, stats, notes)
    except Exception as e:
        return [("%s:malformed-output" % line.split()[1], "the harness output could not be interpreted (%s): %s" % (type(e).__name__, hout[:120]))]


def check_sis_(line, hout, dout, stats, notes):
    t = line.split()
    cls = t[1]
    bad = []
    if hout.startswith("crash") or hout.startswith("throw") or hout in ("boot-failed", "wait-failed", "no-steps"):
        return [("%s:crash" % cls, "the SIS run failed (%s)" % hout[:60])]
    hs, ds = hout.split(), dout.split()
    epochs = parse_epochs(line)
    for i, tok in enumerate(hs):
        step, lab, calls = tok.split(":")
        log = parse_log(calls)
        if epochs is not None and i < len(epochs):
            # state-based script: add what the model would have answered had it been asked
            T = epochs[i]
            if "fz" in T and not any(mth == "fz" for mth, ok in log):
                log = [("fz", False)] + log
            need = {"me", "pr", "in", "no"} if cls == "sis-bootg" else {"li"}
            for mth in sorted(T & need):
                if "fz" not in T and not any(m2 == mth and not ok for m2, ok in log):
                    log.append((mth, False))
        stats["observations"] = stats.get("observations", 0) + 1
        if lab.startswith("ambiguous"):
            stats["uninformative"] = stats.get("uninformative", 0) + 1
        fz = [ok for mth, ok in log if mth == "fz"]
        if fz and not fz[0]:
            if "pred" not in labset(lab):
                bad.append(("sis:belief-touched-on-freeze-failure", "step %d: freeze failed but the corrected set differs from the predicted one (%s)" % (i, lab)))
            if any(mth != "fz" for mth, ok in log):
                bad.append(("sis:correct-attempted-after-freeze-failure", "step %d: freeze failed but the correction was attempted (calls %s)" % (i, calls)))
        elif any((not ok) and mth in ("me", "pr", "in", "no", "li") for mth, ok in log):
            # measurement acquired, likelihood unavailable: the bootstrap correction must leave the set alone
            # (SIS then normalises the weights)
            if not (labset(lab) & {"normpred", "pred"}):
                bad.append(("sis:belief-touched:likelihood", "step %d: likelihood unavailable but the particle set was updated (%s)" % (i, lab)))
        if i >= len(ds) or ds[i].split(":")[1] not in labset(lab) or ds[i].split(":")[2] != calls:
            notes.append((line, "sis-step-%d" % i, tok, ds[i] if i < len(ds) else None))
        if i < len(ds):
            br = stats.setdefault("branches", {})
            key = "%s:%s" % (cls, ds[i].split(":")[1])
            br[key] = br.get(key, 0) + 1
    return bad


# --------------------------------------------------------------------------- generation

def all_scripts(spec):
    """spec: {method: number of scripted calls}; every combination of answers"""
    keys = sorted(spec)
    for combo in itertools.product(*[list(itertools.product([True, False], repeat=spec[k])) for k in keys]):
        yield {k: list(c) for k, c in zip(keys, combo)}


def sizes(r, need_multi):
    n, m, k = r.randint(1, 4), r.randint(1, 3), r.randint(1, 4)
    if need_multi == "scalar":          # special sizes: scalar measurement, one component / particle
        return r.randint(1, 2), 1, 1
    if need_multi:
        k, m = max(k, 2), max(m, 2)
    elif r.random() < 0.15:
        k = r.choice([5, 6, 8])         # beyond the usual bound
    return n, m, k


def exhaustive_cases(g, variants):
    r = g.r
    cases = []

    def add(cls, sc, sub=None, msub=None):
        for v in range(variants):
            n, m, k = sizes(r, v == 0)
            sb = 1
            if msub is not None:
                m, sb = msub
            cases.append((mkline(cls, r.randint(0, 99999), n, m, k, sb, sc), {"style": "exhaustive", "cls": cls}))
            if v == 0 and cls != "glik":
                # the same script on an in-place call correct(b, b)
                cases.append((mkline(cls, r.randint(0, 99999), n, m, k, sb, sc) + " alias=1", {"style": "exhaustive-in-place", "cls": cls}))
            if v == 0:
                # ... behind a forwarding decorator, on a move-constructed object, and with scalar sizes
                cases.append((mkline(cls, r.randint(0, 99999), n, m, k, sb, sc) + " deco=1" + ("" if cls == "glik" else " move=1"), {"style": "exhaustive-handover", "cls": cls}))
                cases.append((mkline(cls, r.randint(0, 99999), n, m, max(k, 3), sb, sc) + " degen=1", {"style": "exhaustive-degenerate-belief", "cls": cls}))
                if cls != "glik":
                    # output container holding a partial copy of the predicted belief (re-used buffer): every mode in turn
                    pm = len(cases) % (4 if cls in ("kf", "ukfa", "ukfg", "ukfgo", "sukf") else 6)
                    cases.append((mkline(cls, r.randint(0, 99999), n, m, k, sb, sc) + " pre=%d" % pm, {"style": "exhaustive-stale-output", "cls": cls}))
                if msub is None:
                    n1, m1, k1 = sizes(r, "scalar")
                    cases.append((mkline(cls, r.randint(0, 99999), n1, m1, k1, 1, sc), {"style": "exhaustive-scalar", "cls": cls}))

    for cls in ("kf", "ukfa", "ukfg", "ukfgo", "glik", "bootg"):
        for sc in all_scripts({"me": 1, "pr": 1, "in": 1, "no": 1}):
            add(cls, sc)
    for msub in ((2, 1), (2, 2), (3, 2), (4, 2), (3, 3), (1, 1), (5, 3)):
        for sc in all_scripts({"me": 1, "pr": 1, "in": 1, "no": 2}):
            add("sukf", sc, msub=msub)
    for sc in all_scripts({"li": 1}):
        add("boots", sc)
    for w in GAUSS:
        for sc in all_scripts({"me": 2, "pr": 2, "in": 2, "no": 2}):
            if w == "sukf":
                # the likelihood's own noise fetch comes after k*(m/sub) ignored ones: place the second bit there
                for v in range(variants):
                    n, m, k = sizes(r, v == 0)
                    sb = r.choice([d for d in (1, 2, 3) if m % d == 0])
                    sc2 = dict(sc)
                    sc2["no"] = [sc["no"][0]] + [True] * (k * (m // sb) - 1) + [sc["no"][1]]
                    cases.append((mkline("gpf-sukf-g", r.randint(0, 99999), n, m, k, sb, sc2), {"style": "exhaustive", "cls": "gpf-sukf-g"}))
                    if v == 0:
                        cases.append((mkline("gpf-sukf-g", r.randint(0, 99999), n, m, k, sb, sc2) + " alias=1", {"style": "exhaustive-in-place", "cls": "gpf-sukf-g"}))
            else:
                add("gpf-%s-g" % w, sc)
        for sc in all_scripts({"me": 1, "pr": 1, "in": 1, "no": 1, "li": 1}):
            add("gpf-%s-s" % w, sc)
    # the real SIS: every freeze pattern over 3 steps x a failing likelihood call
    for fz in itertools.product([True, False], repeat=3):
        for li in itertools.product([True, False], repeat=3):
            n, m, k = sizes(r, True)
            cases.append((mkline("sis-boots", r.randint(0, 99999), n, m, max(k, 3), 3, {"fz": list(fz), "li": list(li)}), {"style": "exhaustive", "cls": "sis-boots"}))
        for mth in (None, "me", "pr", "in", "no"):
            for pos in (0, 1):
                n, m, k = sizes(r, True)
                sc = {"fz": list(fz)}
                if mth:
                    sc[mth] = [True] * pos + [False]
                cases.append((mkline("sis-bootg", r.randint(0, 99999), n, m, max(k, 3), 3, sc), {"style": "exhaustive", "cls": "sis-bootg"}))
    return cases


def random_cases(g, count):
    r = g.r
    classes = ["kf", "ukfa", "ukfg", "ukfgo", "sukf", "glik", "bootg", "boots"] + ["gpf-%s-%s" % (w, l) for w in GAUSS for l in "gs"] + ["sis-bootg", "sis-boots"]
    cases = []
    for _ in range(count):
        cls = r.choice(classes)
        n, m, k = sizes(r, r.random() < 0.7)
        sub = 1
        if "sukf" in cls:
            sub = r.choice([1, 2, 3]) if cls == "sukf" else r.choice([d for d in (1, 2, 3) if m % d == 0])
        if cls.startswith("sis-"):
            sub = r.randint(1, 6)       # number of steps
            k = max(k, 3)
        p = r.choice([0.1, 0.3, 0.6])
        sc = {x: [r.random() >= p for _ in range(r.randint(0, 8))] for x in METHODS}
        if r.random() < 0.35:
            # state-based script, 2..5 calls / steps on one object
            nep = r.randint(2, 5)
            pe = r.choice([0.1, 0.25])
            seq = ["".join(x for x in METHODS if r.random() < pe) or "-" for _ in range(nep)]
            if cls.startswith("sis-"):
                sub = nep
            al = " alias=1" if (r.random() < 0.3 and cls != "glik" and not cls.startswith("sis-")) else ""
            cases.append((mkline(cls, r.randint(0, 99999), n, m, k, sub, EMPTY) + " ep=" + "/".join(seq) + al, {"style": "random-epochs", "cls": cls}))
            continue
        ln = mkline(cls, r.randint(0, 99999), n, m, k, sub, sc)
        if not cls.startswith("sis-") and r.random() < 0.6:
            ln += " reps=%d" % r.randint(2, 5)       # successive correct() calls on the same object
        if cls != "glik" and not cls.startswith("sis-") and r.random() < 0.25:
            ln += " alias=1"
        if not cls.startswith("sis-") and r.random() < 0.2:
            ln += " deco=1"
        if not cls.startswith("sis-") and r.random() < 0.2:
            ln += " degen=1"
        if cls != "glik" and not cls.startswith("sis-") and r.random() < 0.25:
            ln += " pre=%d" % r.randint(0, 3 if cls in ("kf", "ukfa", "ukfg", "ukfgo", "sukf") else 5)
        if cls != "glik" and not cls.startswith("sis-") and r.random() < 0.2:
            ln += " move=1"
        cases.append((ln, {"style": "random", "cls": cls}))
    return cases


EMPTY = {x: [] for x in METHODS}


def many_particle_cases(g):
    """Particle corrections on sets larger than any plausible internal block (513 .. 2049 particles), with the
    unavailability signalled at the 2nd / 3rd / 5th call of each method inside ONE correct() while the earlier calls
    succeed: a correction that evaluates the likelihood block by block must still hand back the untouched predicted
    set.  (On the current code each method is called once per correction, so the later script entries are not
    consulted; whatever the implementation consults is judged from its own call log.)"""
    r = g.r
    cases = []
    for cls in ["bootg", "boots"] + ["gpf-%s-%s" % (w, l) for w in ("kf", "ukfa") for l in "gs"]:
        for k in (513, 1025, 2049) if cls.startswith("boot") else (513, 1025):
            for mth in METHODS[1:]:
                for at in (1, 2, 4):
                    sc = dict(EMPTY)
                    sc[mth] = [True] * at + [False]
                    n, m = r.randint(1, 2), r.randint(1, 2)
                    cases.append((mkline(cls, r.randint(0, 99999), n, m, k, 1, sc), {"style": "many-particles", "cls": cls}))
    return cases


def epoch_cases(g, variants):
    """State-based scripts on ONE object: during call i the methods in e_i are unavailable however often -- or whether
    at all -- they are asked.  Every all-valid call followed by every failing subset; two successes then a failure;
    failure -> success -> failure and success -> failure -> success -> failure for all pairs of single failures."""
    r = g.r
    cases = []
    classes = ["kf", "ukfa", "ukfg", "ukfgo", "sukf", "glik", "bootg", "boots"] + ["gpf-%s-%s" % (w, l) for w in GAUSS for l in "gs"]

    def ep(seq):
        return "ep=" + "/".join(("".join(sorted(e)) or "-") for e in seq)

    for cls in classes:
        meths = ["li", "me"] if cls == "boots" else ["me", "pr", "in", "no"] + (["li"] if cls.endswith("-s") else [])
        seqs = []
        for nfail in range(1, len(meths) + 1):
            for sub in itertools.combinations(meths, nfail):
                seqs.append([set(), set(sub)])
        for a in meths:
            seqs.append([set(), set(), {a}])
            seqs.append([set(), {a}, set()])
            for b in meths:
                seqs.append([{a}, set(), {b}])
                seqs.append([set(), {a}, set(), {b}])
        for seq in seqs:
            for v in range(variants):
                n, m, k = sizes(r, v == 0)
                sb = r.choice([d for d in (1, 2, 3) if m % d == 0]) if "sukf" in cls else 1
                al = " alias=1" if (v == 1 and cls != "glik") else ""
                cases.append((mkline(cls, r.randint(0, 99999), n, m, k, sb, EMPTY) + " " + ep(seq) + al, {"style": "epoch-sequence" + ("-in-place" if al else ""), "cls": cls}))
                if v == 0 and (cls.startswith("boot") or cls.startswith("gpf-")) and len(seq) <= 3:
                    # the same sequence on an object handed over by move assignment (target built around other models)
                    cases.append((mkline(cls, r.randint(0, 99999), n, m, k, sb, EMPTY) + " massign=1 " + ep(seq), {"style": "epoch-sequence-move-assigned", "cls": cls}))
    for cls, meths in (("sis-bootg", ["me", "pr", "in", "no"]), ("sis-boots", ["li"])):
        seqs = [[set(), {"fz"}, set()], [{"fz"}, set(), {"fz"}], [{"fz"}, {"fz"}, set()], [set(), set(), {"fz"}]]
        for a in meths:
            seqs += [[set(), {"fz"}, {a}], [set(), {a}, {"fz"}], [{a}, set(), {"fz", a}], [{"fz"}, {a}, set()]]
        for seq in seqs:
            for v in range(variants):
                n, m, k = sizes(r, True)
                cases.append((mkline(cls, r.randint(0, 99999), n, m, max(k, 3), len(seq), EMPTY) + " " + ep(seq), {"style": "epoch-sequence", "cls": cls}))
    return cases


def sequence_cases(g):
    """the same object corrected three times: valid / failing / valid in every order, failing call at each method"""
    r = g.r
    cases = []
    for cls in ["kf", "ukfa", "ukfg", "sukf", "glik", "bootg", "boots"] + ["gpf-%s-%s" % (w, l) for w in GAUSS for l in "gs"]:
        meths = ["li"] if cls == "boots" else ["me", "pr", "in", "no"] + (["li"] if cls.endswith("-s") else [])
        for mth in meths:
            for pat in ([True, False, True], [False, True, False], [False, False, True], [True, True, False]):
                n, m, k = sizes(r, True)
                sub = r.choice([d for d in (1, 2, 3) if m % d == 0]) if "sukf" in cls else 1
                per = 2 if (cls.startswith("gpf-") and cls.endswith("-g") and mth != "li") else 1
                if mth == "no" and "sukf" in cls:
                    continue        # position of the likelihood's fetch depends on earlier outcomes: left to the random part
                sc = {mth: [b for b in pat for _ in range(per)]}
                cases.append((mkline(cls, r.randint(0, 99999), n, m, k, sub, sc) + " reps=3", {"style": "sequence", "cls": cls}))
    return cases


def run(ctx):
    ctx.proof_stage()
    if not ctx.quick():
        badck = vlib.leanchecker(["BFL.Model.Fault", "BFL.Proofs.Fault", "BFL.Props.C12"])
        ctx.coverage["leanchecker"] = "ok" if not badck else "FAILED: %s" % badck[:2]
        if badck:
            ctx.violation("leanchecker", "leanchecker rejected the compiled modules: %s" % badck[:1], {"modules": [b[0] for b in badck]}, no_input=True)
    binary = vlib.build_harness("h_fault")
    cases = []
    if ctx.replay:
        body = json.loads(open(ctx.replay).read())
        cases.append((body["replay"]["input_line"], {"style": "replay", "cls": body["replay"]["input_line"].split()[1]}))
    else:
        # the witness of fault_identity_gpf_counterexample, replayed on the implementation on every run
        cases.append((mkline("gpf-kf-g", 7, 3, 2, 3, 1, {"me": [False]}), {"style": "counterexample-witness", "cls": "gpf-kf-g"}))
        corpus = vlib.VERIF / "corpus" / "C12" / "cases.txt"
        if corpus.exists():
            cases += [(ln.strip(), {"style": "corpus", "cls": ln.split()[1]}) for ln in corpus.read_text().split("\n") if ln.strip() and not ln.startswith("#")]
        cases += exhaustive_cases(ctx.gen("fault-exh"), ctx.n(3, 6))
        cases += sequence_cases(ctx.gen("fault-seq"))
        cases += epoch_cases(ctx.gen("fault-epoch"), ctx.n(2, 4))
        cases += many_particle_cases(ctx.gen("fault-many"))
        cases += random_cases(ctx.gen("fault-rnd"), ctx.n(4000, 30000))
    lines = [c[0] for c in cases]
    hout, logs = vlib.run_harness(binary, lines)
    dout = vlib.run_driver(lines)
    stats, notes, hist, chist = {}, [], {}, {}
    prop_bad = []
    for (line, meta), h, d in zip(cases, hout, dout):
        hist[meta["style"]] = hist.get(meta["style"], 0) + 1
        chist[meta["cls"]] = chist.get(meta["cls"], 0) + 1
        if d.startswith("bad"):
            prop_bad.append(("driver-rejected-case", "the model driver rejected the case", line, h))
            continue
        f = check_sis if meta["cls"].startswith("sis-") else check_single
        for key, what in f(line, h, d, stats, notes):
            prop_bad.append((key, what, line, h))
    seen = set()
    for key, what, line, h in prop_bad:
        if key in seen:
            continue
        seen.add(key)
        best = min((x for x in prop_bad if x[0] == key), key=lambda x: (sum(c == "0" for c in x[2].split("fz=")[1]), len(x[2])))
        ctx.violation(best[0], best[1], {"harness": "h_fault", "input_line": best[2], "observed": best[3][:2000],
                                         "crash_log": next((logs[i] for i, l in enumerate(lines) if l == best[2] and i in logs), None)})
    def has_failure(l):
        t = l.split()
        ep = next((x for x in t[13:] if x.startswith("ep=")), None)
        if ep is not None:
            return any(c.isalpha() for c in ep[3:])
        return any("0" in x.split("=")[1] for x in t[7:13])
    failing = sum(1 for l in lines if has_failure(l))
    ctx.coverage.update({
        "evaluations": len(cases),
        "distinct_nontrivial": len(set(l for l in lines if has_failure(l))),
        "rule": "one evaluation = one correction class x one fault script (per-method lists of validity answers consumed call by call) x one "
                "random belief (n in 1..4, measurement size 1..3, 1..4 components / particles; the first variant of every script has >= 2 "
                "components and measurement size >= 2), output container pre-filled with poison; exhaustive part: every combination of answers "
                "at the first call of each method for kf / ukfa / ukfg / glik / bootg (16), sukf x 7 size pairings (32 each, incl. sizes not "
                "divisible by the sub-size), boots (2), gpf-<kf|ukfa|ukfg|sukf>-g over the first two calls of each method (256 each), "
                "gpf-*-s (32 each), the real SIS thread over all freeze patterns of 3 steps x likelihood faults; plus three successive correct() calls "
                "on one object with valid/failing patterns per method; state-based scripts (`ep=`: during call i the named methods are unavailable "
                "whether or not the class asks) on one object for every class: every all-valid call followed by every failing subset, two "
                "successes then a failure, failure->success->failure and success->failure->success->failure for all pairs of single failures, "
                "SIS freeze/likelihood patterns per step; every exhaustive script and half of the state-based sequences also as in-place calls "
                "correct(b, b) (output compared with a copy of b taken before the call); plus random longer scripts (call-indexed with 2..5 successive calls, or state-based); "
                "non-trivial = at least one scripted 'unavailable' answer; distinct = distinct input lines",
        "samples": [lines[0][:300], lines[len(lines) // 2][:300], lines[-1][:300]],
        "exhaustive": True,
        "exhaustive_scope": "class x subset of failing call sites (complete for the call sites listed in rule); sequences and random longer scripts are sampled on top",
        "style_histogram": hist, "class_histogram": dict(sorted(chist.items())),
        "cases_with_a_scripted_failure": failing,
        "traces_validated_against_impl": len(cases),
        "call_logs_identical_to_model": stats.get("logs_identical", 0),
        "state_based_calls_checked": stats.get("epoch_calls", 0),
        "in_place_calls_checked": stats.get("in_place_calls", 0),
        "calls_behind_forwarding_decorator": stats.get("deco=1", 0), "calls_on_move_constructed_objects": stats.get("move=1", 0),
        "calls_on_move_assigned_objects": stats.get("massign=1", 0), "calls_on_degenerate_beliefs": stats.get("degen=1", 0),
        "calls_into_outputs_holding_partial_copies": stats.get("pre", 0),
        "model_branch_hits": dict(sorted(stats.get("branches", {}).items())),
        "property_failures_on_impl": len(prop_bad),
        "property_failures_by_key": {k: sum(1 for x in prop_bad if x[0] == k) for k in sorted(set(x[0] for x in prop_bad))},
        "model_vs_impl_differences_noted": len(notes),
        "sanitizer_crashes": len(logs),
        "observations": stats.get("observations", 0),
        "uninformative_observations_references_coincide": stats.get("uninformative", 0),
    })
    if notes:
        ln, what, a, b = notes[0]
        ctx.notes.append("model and implementation differ on %d observation(s) outside the property's clauses (call order / success label); "
                         "first: %s on %r: implementation %s, model %s" % (len(notes), what, ln[:200], a, b))
    ctx.assumptions += ["a scripted model that reports 'unavailable' still returns usable data (worst case for a dropped early return)",
                        "bit-for-bit comparison with twin objects driven by an all-valid script (same data, same seed)",
                        "calls whose validity the class ignores (noise covariance in UKF / additive UT / SUKF) are not calls at which unavailability can be signalled to that class"]
