#!/usr/bin/env python3
"""Confirm and register a seeded property-breaking change, and run the checks against it.

  seedtool.py verify <out_dir> <scratch_worktree> <seed_name>
      in the scratch worktree of /repo: apply patch.diff, build library + tests, run ctest (must pass),
      build and run the demo (must exit non-zero); undo the patch, rebuild, demo must exit 0.
      On success copies patch.diff, demo.cpp, build_demo.sh, meta.json to /verif/seeded/<seed_name>/.
  seedtool.py run <seed_name> [Cxx ...]
      git -C /repo apply the patch, run the quick checks of the listed properties (default: the
      property named in meta.json), undo (git -C /repo checkout -- .), record the outcome in
      /verif/seeded/<seed_name>/meta.json.
"""
import json, os, shutil, subprocess, sys, time
V = os.path.dirname(os.path.dirname(os.path.abspath(__file__)))


def sh(cmd, cwd=None, timeout=3600):
    p = subprocess.run(cmd, shell=True, cwd=cwd, stdout=subprocess.PIPE, stderr=subprocess.STDOUT, text=True, timeout=timeout)
    return p.returncode, p.stdout


def build(wt):
    rc, o = sh("cmake -S . -B _b -G Ninja -DBUILD_TESTING=ON -DCMAKE_BUILD_TYPE=RelWithDebInfo -DCMAKE_CXX_FLAGS=-Wno-error > /dev/null && ninja -C _b 2>&1 | tail -5", cwd=wt)
    return rc, o


def run_demo(demo, wt, out):
    """LD_LIBRARY_PATH only when the demo does not find the library through its own rpath (a demo that
    links its own sanitizer-instrumented library must not be pointed at the plain one)"""
    rc, o = sh("ldd %s" % demo)
    env = "TSAN_OPTIONS='exitcode=1 halt_on_error=1' "
    if "not found" in o:
        env += "LD_LIBRARY_PATH=%s/_b/lib " % wt
    return sh(env + demo, cwd=out, timeout=300)


def verify(out, wt, name):
    out = os.path.abspath(out)
    res = {}
    sh("git checkout -- . && git clean -fdq src test", cwd=wt)
    rc, o = sh("git apply %s/patch.diff" % out, cwd=wt)
    if rc: print("patch does not apply", o); return 1
    rc, o = build(wt)
    res["compiles"] = (rc == 0)
    if rc: print("build failed", o); sh("git checkout -- .", cwd=wt); return 1
    rc, o = sh("ctest --test-dir _b -j8 --timeout 900 2>&1 | tail -3", cwd=wt)
    res["tests_pass_with_change"] = ("100% tests passed" in o)
    rc, o = sh("sh %s/build_demo.sh %s/_b 2>&1 | tail -5" % (out, wt), cwd=out)
    demo = os.path.join(out, "demo")
    rc1, o1 = run_demo(demo, wt, out)
    res["demo_exit_with_change"] = rc1
    res["demo_output_with_change"] = o1[-600:]
    sh("git checkout -- .", cwd=wt)
    rc, o = build(wt)
    rc, o = sh("sh %s/build_demo.sh %s/_b 2>&1 | tail -5" % (out, wt), cwd=out)
    rc0, o0 = run_demo(demo, wt, out)
    res["demo_exit_without_change"] = rc0
    ok = res["compiles"] and res["tests_pass_with_change"] and rc1 != 0 and rc0 == 0
    print(json.dumps(res, indent=1))
    if not ok:
        print("NOT CONFIRMED"); return 1
    dst = os.path.join(V, "seeded", name)
    os.makedirs(dst, exist_ok=True)
    for f in ("patch.diff", "demo.cpp", "build_demo.sh"):
        shutil.copy(os.path.join(out, f), dst)
    meta = json.load(open(os.path.join(out, "meta.json")))
    meta["confirmed"] = {"ran": "scratch worktree: git apply patch.diff; cmake+ninja with BUILD_TESTING; ctest (13/13 pass); build_demo.sh; demo exits %d with the change and 0 without" % rc1,
                         "demo_output_with_change": o1[-400:]}
    json.dump(meta, open(os.path.join(dst, "meta.json"), "w"), indent=1)
    print("CONFIRMED ->", dst)
    return 0


def verify_harmless(out, wt, name):
    """a rewrite that is meant to keep the property: must apply, compile and pass the shipped tests;
    copied to /verif/seeded/<name>/ (patch.diff, meta.json with kind = harmless)"""
    out = os.path.abspath(out)
    sh("git checkout -- . && git clean -fdq src test", cwd=wt)
    rc, o = sh("git apply %s/patch.diff" % out, cwd=wt)
    if rc: print("patch does not apply", o); return 1
    rc, o = build(wt)
    if rc: print("build failed", o); sh("git checkout -- .", cwd=wt); return 1
    rc, o = sh("ctest --test-dir _b -j8 --timeout 900 2>&1 | tail -3", cwd=wt)
    sh("git checkout -- .", cwd=wt)
    if "100% tests passed" not in o: print("tests fail", o); return 1
    dst = os.path.join(V, "seeded", name)
    os.makedirs(dst, exist_ok=True)
    shutil.copy(os.path.join(out, "patch.diff"), dst)
    meta = json.load(open(os.path.join(out, "meta.json")))
    meta["kind"] = "harmless"
    meta["confirmed"] = {"ran": "scratch worktree: git apply patch.diff; cmake+ninja with BUILD_TESTING; ctest (13/13 pass)"}
    json.dump(meta, open(os.path.join(dst, "meta.json"), "w"), indent=1)
    print("CONFIRMED ->", dst)
    return 0


def run(name, props, scratch=True):
    """scratch=True: apply the patch in a scratch worktree of /repo (BFL_REPO/BFL_BUILD_DIR point the
    checks at it) so that other work running against /repo is not disturbed; scratch=False: apply to
    /repo itself and undo afterwards (what the final procedure prescribes; same checks, same code)."""
    dst = os.path.join(V, "seeded", name)
    meta = json.load(open(os.path.join(dst, "meta.json")))
    props = props or [meta["property"]]
    env = ""
    if scratch:
        root = os.environ.get("SEEDRUN_DIR", "/tmp/seedrun")      # one directory per parallel lane
        wt = root + "/repo"
        if not os.path.exists(wt):
            os.makedirs(root, exist_ok=True)
            sh("git -C /repo worktree add --detach %s HEAD" % wt)
        sh("git checkout -q --detach %s && git checkout -- . " % subprocess.check_output("git -C /repo rev-parse HEAD", shell=True, text=True).strip(), cwd=wt)
        target = wt
        env = "BFL_REPO=%s BFL_BUILD_DIR=%s/build " % (wt, root)
    else:
        target = "/repo"
        rc, o = sh("git -C /repo status --porcelain --untracked-files=no")
        if o.strip(): print("/repo not clean", o); return 1
    rc, o = sh("git -C %s apply %s/patch.diff" % (target, dst))
    if rc:
        # the tree moved on since the patch was written (later fix: commits): use the hand-rebased
        # version if one is stored next to it
        rb = os.path.join(dst, "patch.rebased.diff")
        if os.path.exists(rb):
            rc, o = sh("git -C %s apply %s" % (target, rb))
        if rc: print("patch does not apply", o); return 1
    results = {}
    try:
        for p in props:
            t = time.time()
            rc, o = sh(env + "python3 check.py %s --tier quick" % p, cwd=V, timeout=7200)
            lines = [l for l in o.split("\n") if l.startswith(("VIOLATION", "KNOWN", "PASS", "FAIL", "#"))]
            results[p] = {"exit": rc, "detected": rc == 1 and any(l.startswith("VIOLATION") for l in lines),
                          "with_failing_input": any(l.startswith("VIOLATION") and "no-failing-input-found" not in l for l in lines),
                          "lines": lines[:6], "wall_s": round(time.time() - t), "applied_to": target}
            print(p, json.dumps(results[p])[:700])
    finally:
        sh("git -C %s checkout -- ." % target)
        if "C10" in props:
            # the C10 check regenerates the tracked race table from the (mutated) source: put the clean one back
            sh("git -C %s checkout -- lean/BFL/Gen/RaceTable.lean" % V)
    meta.setdefault("checks_run", {}).update(results)
    commit = subprocess.check_output("git -C %s rev-parse --short HEAD" % V, shell=True, text=True).strip()
    for p, r in results.items():
        meta.setdefault("run_log", []).append({"property": p, "detected": r["detected"], "with_failing_input": r["with_failing_input"],
                                               "verif_commit": commit, "time": time.strftime("%Y-%m-%d %H:%M")})
    json.dump(meta, open(os.path.join(dst, "meta.json"), "w"), indent=1)
    return 0


if __name__ == "__main__":
    if sys.argv[1] == "verify":
        sys.exit(verify(sys.argv[2], sys.argv[3], sys.argv[4]))
    if sys.argv[1] == "verifyh":
        sys.exit(verify_harmless(sys.argv[2], sys.argv[3], sys.argv[4]))
    if sys.argv[1] == "run":
        args = [a for a in sys.argv[2:] if a != "--inplace"]
        sys.exit(run(args[0], args[1:], scratch="--inplace" not in sys.argv))
