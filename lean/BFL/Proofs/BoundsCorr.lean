import BFL.Proofs.BoundsSigma
/-
C14 — safety lemmas for the correction steps (KFCorrection, UKFCorrection, SUKFCorrection).
-/
set_option linter.unusedSimpArgs false
namespace BFL.Bounds
open W

/-- no quaternion component: the vector and its tangent space have the same size -/
theorem Layout.flat (L : Layout) (h : ¬ (L.quat = true ∧ 0 < L.dc)) : L.dim = L.dcov := by
  cases L with
  | mk dl dc q dn =>
    cases q with
    | false => simp [Layout.dim, Layout.dcov, Layout.cc, Layout.tc]
    | true =>
      have : dc = 0 := by simp at h; omega
      subst this
      simp [Layout.dim, Layout.dcov, Layout.cc, Layout.tc]

theorem gaussLikelihood_safe (site : String) (inn : Shape) (O : Layout) (K : Nat)
    (hr : inn.r = O.dcov) (hc : inn.c ≤ K) : (gaussLikelihood site inn O K).Safe := by
  unfold gaussLikelihood
  split
  · simp
  · simp [gaussianDensity, gmCov, Layout.covS, hr]
    intro i hi
    exact ⟨hi, mul_block_le _ _ _ (by omega)⟩

theorem kalmanUpdate_safe (site : String) (I : Layout) (K : Nat) (pxyi pyi inn : Shape) (i : Nat) (hi : i < K)
    (hflat : I.dim = I.dcov) (hp : pxyi.r = I.dcov) (hpc : pxyi.c = pyi.r) (hsq : pyi.r = pyi.c)
    (hir : inn.r = pyi.c) (hic : inn.c = K) :
    (kalmanUpdate site I K I K pxyi pyi inn i).Safe := by
  have b := mul_block_le I.dcov i K hi
  simp [kalmanUpdate, gmMean, gmCov, Layout.meanS, Layout.covS, hflat, hp, hpc, hsq, hir, hic, hi]
  omega

theorem withNoise_cross (L : Layout) (n : Nat) (h : L.dn = 0) :
    (L.withNoise n).dcov - (L.withNoise n).dn = L.dcov ∧ (L.withNoise n).dcov = L.dcov + n := by
  have := withNoise_dim L n
  simp [Layout.withNoise, h] at this ⊢
  omega

/-- the transform UKFCorrection performs, under the documented shapes -/
theorem ukfUT_ok (additive : Bool) (I : Layout) (K : Nat) (M : MMod) (hK : 1 ≤ K)
    (hIn : I.dn = 0) (hId : 1 ≤ I.dcov) (hLin : M.Lin.noiseless = I) (hOn : M.O.dn = 0) (hp : M.prows = M.O.dim) (hdc : M.dcols = 0)
    (hrr : if additive then M.rr = M.O.dcov else M.Lin.dn = M.rr) :
    (ukfUT additive I K M).Safe ∧
    (ukfUT additive I K M).val = if M.pvalid then ⟨true, M.O, K, ⟨I.dcov, M.O.dcov * K⟩⟩ else UTRes.failed := by
  have hnl := Layout.noiseless_dcov M.Lin
  rw [hLin] at hnl
  unfold ukfUT
  cases additive with
  | true =>
    simp only [if_true] at hrr ⊢
    have hw : utWeightSize M.Lin.noiseless.dcov = 2 * I.dcov + 1 := by rw [hLin]; simp [utWeightSize]
    refine ⟨utMeasAdditive_safe I K _ M hId hw hOn hp hdc hrr, ?_⟩
    rw [utMeasAdditive_val, hIn]; simp
  | false =>
    simp only [Bool.false_eq_true, if_false] at hrr ⊢
    obtain ⟨c1, c2⟩ := withNoise_cross I M.rr hIn
    have hst : (⟨K, I, I.dim, I.dcov, I.meanS K, I.covS K, K⟩ : GMStore).wf := by simp [GMStore.wf, Layout.meanS, Layout.covS]
    have hau := gmAugment_ok ⟨K, I, I.dim, I.dcov, I.meanS K, I.covS K, K⟩ ⟨M.rr, M.rr⟩ hst hK
    have haL : (gmAugment ⟨K, I, I.dim, I.dcov, I.meanS K, I.covS K, K⟩ ⟨M.rr, M.rr⟩).val.1.L = I.withNoise M.rr := by
      rw [hau.2.2.2.1]; simp
    have hw : utWeightSize M.Lin.dcov = 2 * (I.withNoise M.rr).dcov + 1 := by rw [c2, ← hnl, hrr]; simp [utWeightSize]
    have hu := utMeasGeneric_safe (I.withNoise M.rr) K _ M (by omega) hw hOn hp hdc
    have huv := utMeasGeneric_val (I.withNoise M.rr) K (utWeightSize M.Lin.dcov) M
    simp only [safe_bind, val_bind, hau.1, haL, hu, huv, true_and, c1, and_self]

theorem ukfUpdates_safe (I : Layout) (K : Nat) (M : MMod) (fI : I.dim = I.dcov) (fO : M.O.dim = M.O.dcov) (hir : M.irows = M.O.dcov) :
    (ukfUpdates I K I K M ⟨true, M.O, K, ⟨I.dcov, M.O.dcov * K⟩⟩ ⟨M.irows, K⟩).Safe := by
  simp only [ukfUpdates, safe_forRange, safe_bind, val_bind]
  intro i hi
  have b := mul_block_le M.O.dcov i K hi
  refine ⟨?_, ?_, ?_⟩
  · simp [fO]; omega
  · simp [gmCov, Layout.covS]; omega
  · apply kalmanUpdate_safe _ I K _ _ _ i hi fI <;> simp [gmCov, Layout.covS, fO, hir]

/-- what `getLikelihood()` needs of the members: no innovations, or innovations matching the stored predicted measurement -/
def UKFMem.ok (M : MMod) (mem : UKFMem) : Prop :=
  mem.inn = ⟨0, 0⟩ ∨ (mem.inn.r = M.O.dcov ∧ mem.inn.c ≤ mem.predK ∧ mem.predO = M.O)

theorem ukfLik_safe (M : MMod) (mem : UKFMem) (h : mem.ok M) : (ukfLik mem).Safe := by
  unfold ukfLik
  rcases h with h | ⟨h1, h2, h3⟩
  · unfold gaussLikelihood; simp [h]
  · rw [h3]; exact gaussLikelihood_safe _ _ _ _ h1 h2

/-- one correction on an object in ANY state (members left by earlier calls): consistent, and it leaves the members such
    that `getLikelihood()` is consistent too -/
theorem ukfStep_ok (additive : Bool) (mem : UKFMem) (I : Layout) (K : Nat) (C : Layout) (cK : Nat) (M : MMod)
    (hv : ukfValid additive I K C cK M) (hs : ukfSupported I M) :
    (ukfStep additive mem I K C cK M).Safe ∧ (ukfStep additive mem I K C cK M).val.1.ok M := by
  obtain ⟨⟨hK, hIn, hId, hC, hcK, hLin, hOn, hOd, hp, hdc, hy⟩, hir, hrr⟩ := hv
  obtain ⟨hsI, hsO⟩ := hs
  have hC' := hC.symm
  have hcK' := hcK.symm
  subst hC' hcK'
  have fI := Layout.flat I hsI
  have fO := Layout.flat M.O hsO
  obtain ⟨hu, huv⟩ := ukfUT_ok additive I K M hK hIn hId hLin hOn hp hdc hrr
  unfold ukfStep
  cases hmv : M.mvalid with
  | false => simp [UKFMem.ok]
  | true =>
    simp only [Bool.not_true, Bool.false_eq_true, if_false, safe_bind, val_bind, hu, huv, true_and]
    cases hpv : M.pvalid with
    | false => simp [UTRes.failed, UKFMem.ok]
    | true =>
      cases hiv : M.ivalid with
      | false => simp [UKFMem.ok]
      | true =>
        simp only [if_true, Bool.not_true, Bool.false_eq_true, if_false, safe_bind, val_bind, safe_pure, val_pure, and_true]
        refine ⟨ukfUpdates_safe I K M fI fO hir, Or.inr ?_⟩
        simp [hir]

/-- UKFCorrection::correctStep + getLikelihood on the supported part of the valid space. -/
theorem ukfCorrect_safe (additive : Bool) (I : Layout) (K : Nat) (C : Layout) (cK : Nat) (M : MMod)
    (hv : ukfValid additive I K C cK M) (hs : ukfSupported I M) : (ukfCorrect additive I K C cK M).Safe := by
  obtain ⟨h1, h2⟩ := ukfStep_ok additive UKFMem.init I K C cK M hv hs
  unfold ukfCorrect
  simp only [safe_bind, val_bind, safe_pure, and_true]
  exact ⟨h1, ukfLik_safe M _ h2⟩

theorem linO (hm : Nat) : (Layout.mk hm 0 false 0).dcov = hm ∧ (Layout.mk hm 0 false 0).dim = hm := by
  simp [Layout.dcov, Layout.dim]

/-- KFCorrection::correctStep + getLikelihood -/
theorem kfCorrect_safe (I : Layout) (K : Nat) (C : Layout) (cK hm hn ysize : Nat) (mvalid : Bool)
    (hv : kfValid I K C cK hm hn ysize) : (kfCorrect I K C cK hm hn ysize mvalid).Safe := by
  obtain ⟨hK, hIn, hC, hcK, hhm, hdim, hdcov, hy⟩ := hv
  have hC' := hC.symm
  have hcK' := hcK.symm
  subst hC' hcK' hy
  have fI : I.dim = I.dcov := by omega
  obtain ⟨o1, o2⟩ := linO ysize
  unfold kfCorrect
  cases mvalid with
  | false => simp [corrCopy]
  | true =>
    simp only [Bool.not_true, Bool.false_eq_true, if_false, safe_bind, val_bind, safe_pure, and_true, safe_forRange]
    refine ⟨?_, ?_, ?_, ?_, ?_⟩
    · simp [Layout.meanS, hdim]
    · simp
    · simp
    · intro i hi
      have b1 := mul_block_le I.dcov i K hi
      have b2 := mul_block_le ysize i K hi
      refine ⟨?_, ?_, ?_, ?_, ?_, ?_, ?_, ?_⟩
      · simp [gmCov, Layout.covS, o1]; omega
      · simp [gmCov, Layout.covS]; omega
      · simp [gmCov, Layout.covS, hdcov]
      · simp [gmCov, Layout.covS, hdcov]
      · simp
      · simp [gmCov, Layout.covS, o1]
      · simp [gmCov, Layout.covS, hdcov]
      · apply kalmanUpdate_safe _ I K _ _ _ i hi fI <;> simp [gmCov, Layout.covS, o1, Layout.meanS]
    · exact gaussLikelihood_safe _ _ _ _ (by simp [o1]) (by simp [Layout.meanS])

/-! ### SUKFCorrection -/

theorem sukfNoiseCov_ok (rr sub : Nat) (reduced : Bool) (j m : Nat) (hj : j < m / sub)
    (hrr : if reduced then rr = sub else rr = m) :
    (sukfNoiseCov rr sub reduced j).Safe ∧ (sukfNoiseCov rr sub reduced j).val = ⟨sub, sub⟩ := by
  have b := div_block_le sub j m hj
  unfold sukfNoiseCov
  cases reduced with
  | true => simp at hrr; simp [hrr]
  | false => simp at hrr; simp [hrr]; omega

/-- `multivariate_gaussian_log_density_UVR` as SUKFCorrection::getLikelihood calls it:
    one input column of `m` rows, `U = Y (m × s)`, `V = Yᵀ`, `R : sub × m` with `sub ∣ m`. -/
theorem gaussianDensityUVR_safe (m s sub : Nat) (hsub : 0 < sub) :
    (gaussianDensityUVR ⟨m, 1⟩ ⟨m, 1⟩ ⟨m, s⟩ ⟨s, m⟩ ⟨sub, m⟩).Safe ∧
    (gaussianDensityUVR ⟨m, 1⟩ ⟨m, 1⟩ ⟨m, s⟩ ⟨s, m⟩ ⟨sub, m⟩).val = ⟨1, 1⟩ := by
  have hb1 : ∀ i, i < m / sub → sub * i + sub ≤ m := fun i hi => div_block_le sub i m hi
  have hb2 : ∀ i, i < m / sub → i * sub + sub ≤ m := fun i hi => div_block_le' sub i m hi
  unfold gaussianDensityUVR
  simp
  grind

theorem sukfLikelihood_safe (m s K rr sub : Nat) (reduced : Bool) (hsub : 0 < sub) (hK : 0 < K)
    (hrr : if reduced then rr = sub else rr = m) :
    (sukfLikelihood ⟨m, K⟩ ⟨m, s * K⟩ rr sub reduced).Safe := by
  unfold sukfLikelihood
  split
  · simp
  · have hdiv : s * K / K = s := Nat.mul_div_cancel s hK
    simp only [safe_bind, safe_pure, and_true, safe_forRange, val_bind, hdiv]
    refine ⟨by simp [hsub], ?_, ?_⟩
    · intro i hi
      have := sukfNoiseCov_ok rr sub reduced i m hi hrr
      have b := div_block_le' sub i m hi
      simp [this.1, this.2]; omega
    · intro i hi
      have := gaussianDensityUVR_safe m s sub hsub
      have b := mul_block_le s i K hi
      simp [this.1, this.2, hi]; omega

theorem Layout.dcov_le_dim (L : Layout) : L.dcov ≤ L.dim := by
  cases L with
  | mk dl dc q dn => cases q <;> simp [Layout.dim, Layout.dcov, Layout.cc, Layout.tc]; omega

theorem Layout.parts_le (L : Layout) : L.dl ≤ L.dim ∧ L.dc ≤ L.dim ∧ L.dl ≤ L.dcov := by
  cases L with
  | mk dl dc q dn => cases q <;> simp [Layout.dim, Layout.dcov, Layout.cc, Layout.tc] <;> omega

/-- one SUKF correction on an object in any state: consistent; afterwards the innovations are empty (the correction failed;
    the propagated sigma points are the old or the new ones) or the members are the matching pair of a successful correction -/
theorem sukfStep_ok (mem : SUKFMem) (I : Layout) (K : Nat) (C : Layout) (cK : Nat) (M : MMod) (sub : Nat) (reduced : Bool)
    (hv : sukfValid I K C cK M sub reduced) (hs : sukfSupported I) :
    (sukfStep mem I K C cK M sub reduced).Safe ∧
    ((sukfStep mem I K C cK M sub reduced).val.1 = { mem with inn := ⟨0, 0⟩ } ∨
     (sukfStep mem I K C cK M sub reduced).val.1 = ⟨⟨0, 0⟩, ⟨M.O.dim, (I.dcov * 2 + 1) * K⟩⟩ ∨
     (sukfStep mem I K C cK M sub reduced).val.1 = ⟨⟨M.O.dim, K⟩, ⟨M.O.dim, (I.dcov * 2 + 1) * K⟩⟩) := by
  obtain ⟨⟨hK, hIn, hId, hC, hcK, hLin, hOn, hOd, hp, hdc, hy⟩, hir, hsub, hrr⟩ := hv
  have hC' := hC.symm
  have hcK' := hcK.symm
  subst hC' hcK'
  have fI := Layout.flat I hs
  have hOdim := Layout.dcov_le_dim M.O
  obtain ⟨p1, p2, p3⟩ := Layout.parts_le I
  have hsig := sigmaPoint_safe I K hId
  have hsv := sigmaPoint_val I K
  have hws : utWeightSize M.Lin.noiseless.dcov = I.dcov * 2 + 1 := by rw [hLin]; simp [utWeightSize]; omega
  unfold sukfStep
  simp only [safe_bind, val_bind, req, safe_mk_cons, safe_mk_nil, Cond.holds, and_true]
  split
  · simp; omega
  · rename_i hmv
    have hmod : M.O.dim % sub = 0 := by simp at hmv; exact hmv.2
    simp only [safe_bind, val_bind, hsig, hsv, true_and]
    cases hpv : M.pvalid with
    | false => simp; omega
    | true =>
      simp only [Bool.not_true, Bool.false_eq_true, if_false, safe_bind, val_bind]
      cases hiv : M.ivalid with
      | false =>
        simp only [Bool.not_false, if_true, safe_pure, val_pure, and_true]
        refine ⟨⟨by omega, ?_⟩, Or.inr (Or.inl ?_)⟩
        · simp [hws, hp, hdc, fI]
          intro i hi
          exact ⟨mul_block_le _ _ _ hi, hi⟩
        · simp [hp, hdc]
      | true =>
        simp only [Bool.not_true, Bool.false_eq_true, if_false, safe_bind, val_bind, safe_pure, val_pure, and_true, safe_forRange]
        refine ⟨⟨by omega, ?_, ?_⟩, Or.inr (Or.inr ?_)⟩
        · simp [hws, hp, hdc, fI]
          intro i hi
          exact ⟨mul_block_le _ _ _ hi, hi⟩
        · intro i hi
          have b1 := mul_block_le (I.dcov * 2 + 1) i K hi
          have b2 := mul_block_le I.dcov i K hi
          have hn : ∀ j, j < M.O.dim / sub → (sukfNoiseCov M.rr sub reduced j).Safe ∧ (sukfNoiseCov M.rr sub reduced j).val = ⟨sub, sub⟩ :=
            fun j hj => sukfNoiseCov_ok M.rr sub reduced j M.O.dim hj hrr
          have hd : ∀ j, j < M.O.dim / sub → sub * j + sub ≤ M.O.dim := fun j hj => div_block_le sub j M.O.dim hj
          simp [hws, hp, hdc, fI, hir, gmMean, gmCov, directionalAdd, Layout.meanS, Layout.covS, hi]
          refine ⟨by omega, ?_, by omega, by omega, by omega, by omega⟩
          intro j hj
          have := hn j hj
          have := hd j hj
          simp_all
        · simp [hp, hdc, hir]

/-- SUKFCorrection::correctStep + getLikelihood on the supported part of the valid space. -/
theorem sukfCorrect_safe (I : Layout) (K : Nat) (C : Layout) (cK : Nat) (M : MMod) (sub : Nat) (reduced : Bool)
    (hv : sukfValid I K C cK M sub reduced) (hs : sukfSupported I) : (sukfCorrect I K C cK M sub reduced).Safe := by
  obtain ⟨h1, h2⟩ := sukfStep_ok SUKFMem.init I K C cK M sub reduced hv hs
  obtain ⟨⟨hK, _, _, _, _, _, _, _, _, _, _⟩, _, hsub, hrr⟩ := hv
  unfold sukfCorrect
  simp only [safe_bind, val_bind, safe_pure, and_true]
  refine ⟨h1, ?_⟩
  rcases h2 with h | h | h
  · rw [h]; simp [SUKFMem.init, sukfLikelihood]
  · rw [h]; simp [SUKFMem.init, sukfLikelihood]
  · rw [h]; exact sukfLikelihood_safe M.O.dim (I.dcov * 2 + 1) K M.rr sub reduced (by omega) (by omega) hrr

/-! ### call sequences on one object -/

theorem ukfSeq_safe (additive : Bool) (I : Layout) (M : MMod) (steps : List CStep) :
    ∀ mem : UKFMem, ukfSeqValid additive I M steps → (∀ s ∈ steps, ukfSupported I (M.withFlags s)) →
      (ukfSeq additive I M mem steps).Safe := by
  induction steps with
  | nil => intro mem _ _; simp [ukfSeq]
  | cons s ss ih =>
    intro mem hv hs
    have h := ukfStep_ok additive mem I s.K I s.K (M.withFlags s) (hv s List.mem_cons_self) (hs s List.mem_cons_self)
    simp only [ukfSeq, safe_bind, val_bind, safe_pure, and_true]
    refine ⟨h.1, ukfLik_safe (M.withFlags s) _ h.2, ih _ ?_ ?_⟩
    · intro x hx
      exact hv x (List.mem_cons_of_mem _ hx)
    · intro x hx
      exact hs x (List.mem_cons_of_mem _ hx)

theorem wnaSeq_fold_safe (d : Dim) (nums : List Nat) : ∀ acc : List String,
    (nums.foldlM (fun (acc : List String) n => do
      let s ← wnaNoise (wnaCtor d).val n
      let mot : Shape := ⟨d.n, n⟩
      additiveMotion (wnaCtor d).val.F (wnaNoise (wnaCtor d).val) ⟨d.n, n⟩ mot
      pure (acc ++ [s.str, mot.str])) acc : W (List String)).Safe := by
  induction nums with
  | nil => intro acc; simp
  | cons n ns ih =>
    intro acc
    simp only [List.foldlM_cons, safe_bind, val_bind, safe_pure, val_pure, and_true]
    refine ⟨?_, ih _⟩
    cases d <;> simp [wnaNoise, additiveMotion, linPropagate, wnaCtor, ldltSqrt, Dim.n]

theorem lmSeq_fold_safe (m : LM) (hm : m.sqrtR.c = m.R.r) (nums : List Nat) : ∀ acc : List String,
    (nums.foldlM (fun (acc : List String) k => do
      let s ← lmNoise m k
      pure (acc ++ [s.str])) acc : W (List String)).Safe := by
  induction nums with
  | nil => intro acc; simp
  | cons n ns ih =>
    intro acc
    simp only [List.foldlM_cons, safe_bind, val_bind, safe_pure, val_pure, and_true]
    exact ⟨by simp [lmNoise, hm], ih _⟩

end BFL.Bounds
