import BFL.Driver.Proto
import BFL.Core.GaussJordan
import BFL.Model.KF
import BFL.Model.UT
import BFL.Driver.UTStore
/-
Driver entries for the unscented transform and the unscented Kalman steps (C03, C04),
executed exactly over `Rat` (linear / noise layouts).

  utw  n α β κ                                   -> "ok" wm[2n+1] wc[2n+1] c
  utwd lin circ noise quat α β κ                 -> "ok" dof wm wc c        (weights from a layout)
  aug  nx nz k means covs Q                      -> "ok" means' covs'       (augmentWithNoise)
  utf  mode nx nz ny k α β κ valid A b means covs [Qin] [Nadd] Bs
                                                 -> "ok" 1 mean cov cross weights | "ok" 0
       mode: gen | sm | asm | mm | amm  (generic / StateModel / AdditiveStateModel /
             MeasurementModel / AdditiveMeasurementModel overload);  Bs = one (nx+nz)² factor per
             component: `fac` looks the covariance up among the covariances of the call
  uukfp variant n nz k α β κ skip F [G] Q u means covs Bs         -> "ok" means covs weights
  uukfc variant n nz m k α β κ fail H [D] R y means covs outw Bs  -> "ok" means covs weights lik…
       variant: 0 additive, 1 augmented;  fail: 0 none, 1 no measurement, 2 prediction invalid,
       3 innovation invalid

Numbers are 16-hex-digit doubles or exact rationals `num/den`.

Float execution (circular / quaternion layouts): `spl`, `utl` below.
-/
namespace BFL.DriverUT
open BFL BFL.Proto

/-- hex double or `num/den` -/
def ratq : R Rat := do
  let t ← tok
  match t.splitOn "/" with
  | [a, b] =>
    match a.toInt?, b.toNat? with
    | some x, some y => if y = 0 then failure else pure (mkRat x y)
    | _, _ => failure
  | _ =>
    match parseRatHex? t with
    | some q => pure q
    | none => failure

instance {n : Nat} : Inhabited (Vec Rat n) := ⟨Vec.of (fun _ => 0)⟩
instance {r c : Nat} : Inhabited (Mat Rat r c) := ⟨Mat.of (fun _ _ => 0)⟩

def colBlock {n k : Nat} (M : Mat Rat n (n * k)) (i : Fin k) : Mat Rat n n :=
  Mat.eval (Mat.of (fun r c => M r ⟨n * i.val + c.val, by
    have hi := i.isLt; have hc := c.isLt
    calc n * i.val + c.val < n * i.val + n := by omega
      _ = n * (i.val + 1) := by rw [Nat.mul_succ]
      _ ≤ n * k := Nat.mul_le_mul_left n hi⟩))

def readGM (n k : Nat) : R (GM Rat n k) := do
  let means ← matCM ratq n k
  let covs ← matCM ratq n (n * k)
  let ms := (List.finRange k).toArray.map fun i => Vec.eval (Vec.of (fun r => means r i))
  let cs := (List.finRange k).toArray.map fun i => colBlock covs i
  pure { mean := fun i => ms[i.val]!
         cov := fun i => cs[i.val]!
         weight := Vec.of (fun _ => 0) }

def readFactors (n k : Nat) : R (Array (Mat Rat n n)) := do
  let mut acc : Array (Mat Rat n n) := #[]
  for _ in [0:k] do
    acc := acc.push (Mat.eval (← matCM ratq n n))
  pure acc

/-- the square-root routine of a run: the factor recorded for the covariance it is applied to
    (exact equality of all entries); zero when the covariance is not one of the call's -/
def facTable {n k : Nat} (b : GM Rat n k) (Bs : Array (Mat Rat n n)) : Rat → Mat Rat n n → Mat Rat n n :=
  let table := (List.finRange k).toArray.map fun i => (Mat.toList (b.cov i), Bs[i.val]!)
  fun _ P =>
    let key := Mat.toList P
    match table.find? (fun p => p.1 == key) with
    | some (_, B) => B
    | none => Mat.zero

def outFam {k n : Nat} (v : Fin k → Vec Rat n) : List String :=
  (List.finRange k).flatMap fun i => outVec ratStr (v i)

def outFamM {k r c : Nat} (v : Fin k → Mat Rat r c) : List String :=
  (List.finRange k).flatMap fun i => outMatCM ratStr (Mat.eval (v i))

def outUT {nx ny k : Nat} (o : UTOut Rat nx ny k) : List String :=
  outFam o.mean ++ outFamM o.cov ++ outFamM o.cross ++ outVec ratStr o.weight

def outGM {n k : Nat} (b : GM Rat n k) : List String :=
  outFam b.mean ++ outFamM b.cov ++ outVec ratStr b.weight

def utw : R String := do
  let n ← nat; let a ← ratq; let b ← ratq; let kp ← ratq
  done
  let w := utWeights n a b kp
  if (n : Rat) + utLambda n a kp = 0 then pure "undefined:c=0" else
  pure (join ("ok" :: outVec ratStr w.mean ++ outVec ratStr w.cov ++ [ratStr w.c]))

def utwd : R String := do
  let lin ← nat; let circ ← nat; let noise ← nat; let quat ← bool
  let a ← ratq; let b ← ratq; let kp ← ratq
  done
  let ly : Layout := { lin := lin, circ := circ, quat := quat, noise := noise }
  let n := ly.dof
  let w := utWeights n a b kp
  if (n : Rat) + utLambda n a kp = 0 then pure "undefined:c=0" else
  pure (join ("ok" :: toString n :: outVec ratStr w.mean ++ outVec ratStr w.cov ++ [ratStr w.c]))

def aug : R String := do
  let nx ← nat; let nz ← nat; let k ← nat
  let b ← readGM nx k
  let Q ← matCM ratq nz nz
  done
  let a := augmentWithNoise b Q
  pure (join ("ok" :: outFam a.mean ++ outFamM a.cov))

/-- augns lin k r c means covs Q(r × c) -> "ok" 1 dim | "ok" 0   (the guard of augmentWithNoise) -/
def augns : R String := do
  let nx ← nat; let k ← nat; let r ← nat; let c ← nat
  let b ← readGM nx k
  let Q ← matCM ratq r c
  done
  match augmentWithNoiseChecked b Q with
  | none => pure "ok 0"
  | some _ => pure s!"ok 1 {nx + r}"

def outOpt {nx ny k : Nat} (o : Option (UTOut Rat nx ny k)) : String :=
  match o with
  | none => "ok 0"
  | some o => join ("ok" :: "1" :: outUT o)

def utf : R String := do
  let mode ← tok
  let nx ← nat; let nz ← nat; let ny ← nat; let k ← nat
  let a ← ratq; let b ← ratq; let kp ← ratq
  let valid ← bool
  let A ← matCM ratq ny (nx + nz)
  let bv ← vec ratq ny
  let b0 ← readGM nx k
  let Qin ← matCM ratq nz nz
  let additive := mode == "asm" || mode == "amm"
  let Nadd ← if additive then matCM ratq ny ny else pure Mat.zero
  let Bs ← readFactors (nx + nz) k
  done
  let A := Mat.eval A
  if ((nx + nz : Nat) : Rat) + utLambda (nx + nz) a kp = 0 then pure "undefined:c=0" else
  let w := utWeights (nx + nz) a b kp
  -- additive modes take the belief as it is; the others take the augmented belief when nz > 0
  let bel : GM Rat (nx + nz) k := augmentWithNoise b0 Qin
  let fac := facTable bel Bs
  let g := affineMap (k := k) (N := 2 * (nx + nz) + 1) A bv
  let f : FunEval Rat (nx + nz) ny k := fun X => if valid then some (g X) else none
  match mode with
  | "gen" => pure (outOpt (unscentedTransform (nx := nx) (nz := nz) fac w bel f))
  | "sm" => pure (outOpt (some (utStateModel (nx := nx) (nz := nz) fac w bel g)))
  | "asm" => pure (outOpt (some (utAdditiveStateModel (nx := nx) (nz := nz) fac w bel g Nadd)))
  | "mm" => pure (outOpt (utMeasurementModel (nx := nx) (nz := nz) fac w bel f))
  | "amm" => pure (outOpt (utAdditiveMeasurementModel (nx := nx) (nz := nz) fac w bel f Nadd))
  | _ => failure

/-- certified exact inverse; zero when singular or when the certificate fails (reported by the
    caller, which re-certifies every matrix the step inverted) -/
def invCert {m : Nat} (S : Mat Rat m m) : Option (Mat Rat m m) :=
  match matInv? m S with
  | none => none
  | some X => let X := Mat.eval X; if certInv m S X then some X else none

def invOrZero {m : Nat} (S : Mat Rat m m) : Mat Rat m m := (invCert (Mat.eval S)).getD Mat.zero

def uukfp : R String := do
  let variant ← nat
  let n ← nat; let nz ← nat; let k ← nat
  let a ← ratq; let b ← ratq; let kp ← ratq
  let skip ← bool
  let F ← matCM ratq n n
  if variant == 0 then do
    let Q ← matCM ratq n n
    let u ← vec ratq n
    let prev ← readGM n k
    let Bs ← readFactors n k
    done
    if (n : Rat) + utLambda n a kp = 0 then pure "undefined:c=0" else
    let fac := facTable prev Bs
    let res := ukfPredictAdditive fac a b kp skip (affineMap (Mat.eval F) u) (Mat.eval Q) prev
    pure (join ("ok" :: outGM res))
  else do
    let G ← matCM ratq n nz
    let Q ← matCM ratq nz nz
    let u ← vec ratq n
    let prev ← readGM n k
    let Bs ← readFactors (n + nz) k
    done
    if ((n + nz : Nat) : Rat) + utLambda (n + nz) a kp = 0 then pure "undefined:c=0" else
    let Q := Mat.eval Q
    let fac := facTable (augmentWithNoise prev Q) Bs
    let res := ukfPredictAugmented fac a b kp skip (affineMap (Mat.eval (hcat F G)) u) Q prev
    pure (join ("ok" :: outGM res))

def outCorr {n m k : Nat} (r : UKFCorrOut Rat n m k) : String :=
  match r.lik with
  | none => join ("ok" :: outGM r.belief ++ ["nolik"])
  | some (nu, S) =>
    if (List.finRange k).any (fun i => (invCert (Mat.eval (S i))).isNone) then "inv-cert-fail" else
    join ("ok" :: outGM r.belief ++ ["lik"] ++ outFam nu ++ outFamM S)

def uukfc : R String := do
  let variant ← nat
  let n ← nat; let nz ← nat; let m ← nat; let k ← nat
  let a ← ratq; let b ← ratq; let kp ← ratq
  let fail ← nat
  let H ← matCM ratq m n
  let innov : (Fin k → Vec Rat m) → Vec Rat m → Option (Fin k → Vec Rat m) :=
    if fail == 3 then (fun _ _ => none) else linearInnovation
  if variant == 0 then do
    let Rm ← matCM ratq m m
    let y ← vec ratq m
    let pred ← readGM n k
    let outw ← vec ratq k
    let Bs ← readFactors n k
    done
    if (n : Rat) + utLambda n a kp = 0 then pure "undefined:c=0" else
    let fac := facTable pred Bs
    let g := affineMap (k := k) (N := 2 * n + 1) (Mat.eval H) Vec.zero
    let f : FunEval Rat n m k := fun X => if fail == 2 then none else some (g X)
    let out : GM Rat n k := { pred with weight := outw }
    let res := ukfCorrectAdditive fac invOrZero a b kp (if fail == 1 then none else some y) f (Mat.eval Rm) innov pred out
    pure (outCorr res)
  else do
    let D ← matCM ratq m nz
    let Rm ← matCM ratq nz nz
    let y ← vec ratq m
    let pred ← readGM n k
    let outw ← vec ratq k
    let Bs ← readFactors (n + nz) k
    done
    if ((n + nz : Nat) : Rat) + utLambda (n + nz) a kp = 0 then pure "undefined:c=0" else
    let Rm := Mat.eval Rm
    let fac := facTable (augmentWithNoise pred Rm) Bs
    let g := affineMap (k := k) (N := 2 * (n + nz) + 1) (Mat.eval (hcat H D)) Vec.zero
    let f : FunEval Rat (n + nz) m k := fun X => if fail == 2 then none else some (g X)
    let out : GM Rat n k := { pred with weight := outw }
    let res := ukfCorrectAugmented fac invOrZero a b kp (if fail == 1 then none else some y) f Rm innov pred out
    pure (outCorr res)


/-! ### Float execution: circular and quaternion layouts -/

instance : Zero Float := ⟨0.0⟩
instance : One Float := ⟨1.0⟩
instance {r c : Nat} : Inhabited (Mat Float r c) := ⟨Mat.of (fun _ _ => 0.0)⟩

def readBlocks {r c : Nat} (k : Nat) : R (Array (Mat Float r c)) := do
  let mut acc : Array (Mat Float r c) := #[]
  for _ in [0:k] do
    acc := acc.push (Mat.eval (← matCM flt r c))
  pure acc

/-- spl lin circ quat noise k | means (dim × k) | perturbations (dof × (2dof+1), one block per component)
    -> "ok" sigma points (dim × (2dof+1) per component, column-major) -/
def spl : R String := do
  let lin ← nat; let circ ← nat; let quat ← bool; let noise ← nat; let k ← nat
  let ly : Layout := { lin := lin, circ := circ, quat := quat, noise := noise }
  let means ← matCM flt ly.dim k
  let perts ← readBlocks (r := ly.dof) (c := 2 * ly.dof + 1) k
  done
  let outs := (List.range k).flatMap fun i =>
    let m : Vec Float ly.dim := Vec.eval (Vec.of (fun r => means.getN r.val i))
    outMatCM floatStr (sigmaPointsLayout ly m (perts[i]!))
  pure (join ("ok" :: outs))

/-- utl linI circI quatI noiseI linO circO quatO k | wm wc (2 dofI + 1 each) | input means (dimI × k)
      | X (dimI × N per component) | Y (dimO × N per component) | eigenvector results (4 per quaternion block per component)
    -> "ok" per component: mean (dimO), covariance (dofO²), cross ((dofI − noiseI) × dofO) -/
def utl : R String := do
  let linI ← nat; let circI ← nat; let quatI ← bool; let noiseI ← nat
  let linO ← nat; let circO ← nat; let quatO ← bool; let k ← nat
  let lyI : Layout := { lin := linI, circ := circI, quat := quatI, noise := noiseI }
  let lyO : Layout := { lin := linO, circ := circO, quat := quatO, noise := 0 }
  let wm ← vec flt (2 * lyI.dof + 1)
  let wc ← vec flt (2 * lyI.dof + 1)
  let means ← matCM flt lyI.dim k
  let Xs ← readBlocks (r := lyI.dim) (c := 2 * lyI.dof + 1) k
  let Ys ← readBlocks (r := lyO.dim) (c := 2 * lyI.dof + 1) k
  let nq := if quatO then circO else 0
  let qm ← matCM flt 4 (nq * k)
  done
  let w : UTWeight Float lyI.dof := { mean := wm, cov := wc, c := 0.0 }
  let outs := (List.range k).flatMap fun i =>
    let m : Vec Float lyI.dim := Vec.eval (Vec.of (fun r => means.getN r.val i))
    let qmean : Nat → Quat Float := fun q => quatAt qm 0 (nq * i + q)
    let res := utLayoutComponent lyI lyO w m (Xs[i]!) (Ys[i]!) qmean
    outVec floatStr res.1 ++ outMatCM floatStr res.2.1 ++ outMatCM floatStr res.2.2
  pure (join ("ok" :: outs))

def handle (op : String) (args : List String) : Option String :=
  match op with
  | "utw" => some ((run utw args).getD "bad-args")
  | "utwd" => some ((run utwd args).getD "bad-args")
  | "aug" => some ((run aug args).getD "bad-args")
  | "augns" => some ((run augns args).getD "bad-args")
  | "utf" => some ((run utf args).getD "bad-args")
  | "uukfp" => some ((run uukfp args).getD "bad-args")
  | "uukfc" => some ((run uukfc args).getD "bad-args")
  | "spl" => some ((run spl args).getD "bad-args")
  | "utl" => some ((run utl args).getD "bad-args")
  | _ => BFL.DriverUTStore.handle op args

end BFL.DriverUT
