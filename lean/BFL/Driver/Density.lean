import BFL.Driver.Proto
import BFL.Core.GaussJordan
import BFL.Model.Density
/-
Driver entries for the Gaussian density utilities and log-sum-exp (C15).

The model is executed over `Rat`: quadratic forms, determinants and every other field operation are
exact; only `log` / `exp` go through `Float` (`transcRatViaFloat`).  Every matrix inverse the model
takes is certified exactly (`A·X = 1 ∧ X·A = 1`), otherwise the line is `inv-cert-fail`.

  ld  d b  x(d×b) m(d) S(d×d)
      -> ok  det  q_0..q_{b-1}  L_0..L_{b-1}  D_0..D_{b-1}
         (det, q exact rationals; L = log-density, D = density as double bit patterns)
  uvr nb bs k b enc  x(d×b) m(d) U(d×k) V(k×d) R      enc 0: R is bs×bs (shared), enc 1: R is bs×d
      -> ok  detS wd_0..  L_0.. D_0..   detDirect qDirect_0..  Ldirect_0.. Ddirect_0..  S(d×d exact)
         (the second half is the direct evaluation on the assembled S = U V + R)
  lse n x_0..x_{n-1}            Float execution            -> ok <double>
  lsex n x_0..x_{n-1}           Ext Rat execution (−∞)     -> ok neginf | nan | <double>
  ldcols / uvrcols              same arguments as ld / uvr; one model call per batch column -> ok L_0.. D_0..
-/
namespace BFL.DriverDensity
open BFL BFL.Proto

attribute [local instance] transcRatViaFloat

/-- exact Gauss–Jordan inverse (zero matrix when singular; every use is certified below) -/
def invQ : InvFn Rat := fun n A =>
  match matInv? n A with
  | some X => Mat.eval X
  | none => Mat.zero

/-- exact certificate `A·X = 1 ∧ X·A = 1` (products formed once) -/
def certInvQ {n : Nat} (A X : Mat Rat n n) : Bool :=
  let P := Mat.mul A X
  let Q := Mat.mul X A
  (List.finRange n).all fun i => (List.finRange n).all fun j =>
    (P i j == (if i = j then (1 : Rat) else 0)) && (Q i j == (if i = j then (1 : Rat) else 0))

/-- one certified inverse: the matrix (row-major entries), its inverse, the certificate -/
structure InvEntry where
  n : Nat
  key : List Rat
  inv : Array Rat
  ok : Bool

def mkEntry {n : Nat} (A : Mat Rat n n) : InvEntry :=
  let X := invQ n A
  { n := n, key := A.toList, inv := X.toList.toArray, ok := certInvQ A X }

/-- The inverse routine handed to the model: looks its argument up among the certified inverses
    (exact equality of all entries) so that repeated calls (one per batch column in the code) cost
    one inversion; an argument not in the table is inverted on the spot. -/
def invTable (tbl : List InvEntry) : InvFn Rat := fun n A =>
  let key := A.toList
  match tbl.find? (fun e => e.n == n && e.key == key) with
  | some e => Mat.of (fun i j => e.inv[i.val * n + j.val]!)
  | none => invQ n A

def outF (q : Rat) : String := floatStr (ratToFloat q)

def ld : R String := do
  let d ← nat; let b ← nat
  let x ← matCM rat d b
  let m ← vec rat d
  let S ← matCM rat d d
  done
  let S := Mat.eval S
  let eS := mkEntry S
  if !eS.ok then pure "inv-cert-fail" else
  let inv := invTable [eS]
  let detS := Mat.detLU d S
  if detS ≤ 0 then pure "det-nonpos" else
  let diff := Mat.eval (diffCols x m)
  let qs := (List.finRange b).map fun c => quadForm inv S (Mat.col diff c)
  let L := Vec.eval (logDensity inv x m S)
  let D := Vec.eval (density inv x m S)
  pure (join (["ok", ratStr detS] ++ qs.map ratStr ++ outVec outF L ++ outVec outF D))

/-- `ldcols`: the same batch evaluated by one call per column (`logDensityCols`) -/
def ldcols : R String := do
  let d ← nat; let b ← nat
  let x ← matCM rat d b
  let m ← vec rat d
  let S ← matCM rat d d
  done
  let S := Mat.eval S
  let eS := mkEntry S
  if !eS.ok then pure "inv-cert-fail" else
  let inv := invTable [eS]
  if Mat.detLU d S ≤ 0 then pure "det-nonpos" else
  let L := Vec.eval (logDensityCols inv x m S)
  pure (join (["ok"] ++ outVec outF L ++ outVec outF (Vec.of (fun c => Transc.exp (L c)))))

def readR (nb bs : Nat) (enc : Nat) : R (RNoise Rat nb bs) := do
  if enc == 0 then
    let R0 ← matCM rat bs bs
    pure (.shared (Mat.eval R0))
  else
    let R0 ← matCM rat bs (nb * bs)
    pure (.perBlock (Mat.eval R0))

def uvr : R String := do
  let nb ← nat; let bs ← nat; let k ← nat; let b ← nat; let enc ← nat
  let x ← matCM rat (nb * bs) b
  let m ← vec rat (nb * bs)
  let U ← matCM rat (nb * bs) k
  let V ← matCM rat k (nb * bs)
  let R ← readR nb bs enc
  done
  let S := Mat.eval (assembleS U V R)
  -- every inverse the two evaluations take, certified exactly
  let eR := match R with
    | .shared R0 => [mkEntry R0]
    | .perBlock _ => (List.finRange nb).map fun i => mkEntry (Mat.eval (R.block i))
  let M := Mat.eval (uvrM (invTable eR) U V R)
  let tbl := eR ++ [mkEntry M, mkEntry S]
  if !(tbl.all (·.ok)) then pure "inv-cert-fail" else
  let inv := invTable tbl
  let a := uvrAlg inv x m U V R
  let detD := Mat.detLU (nb * bs) S
  if a.detS ≤ 0 || detD ≤ 0 then pure "det-nonpos" else
  let diff := Mat.eval (diffCols x m)
  let qs := (List.finRange b).map fun c => quadForm inv S (Mat.col diff c)
  let L := Vec.eval (logDensityUVR inv x m U V R)
  let D := Vec.eval (densityUVR inv x m U V R)
  let Ld := Vec.eval (logDensity inv x m S)
  let Dd := Vec.eval (density inv x m S)
  pure (join (["ok", ratStr a.detS] ++ outVec ratStr a.wd ++ outVec outF L ++ outVec outF D
    ++ [ratStr detD] ++ qs.map ratStr ++ outVec outF Ld ++ outVec outF Dd ++ outMatCM ratStr S))

/-- `uvrcols`: the factorised evaluation by one call per column (`logDensityUVRCols`) -/
def uvrcols : R String := do
  let nb ← nat; let bs ← nat; let k ← nat; let b ← nat; let enc ← nat
  let x ← matCM rat (nb * bs) b
  let m ← vec rat (nb * bs)
  let U ← matCM rat (nb * bs) k
  let V ← matCM rat k (nb * bs)
  let R ← readR nb bs enc
  done
  let eR := match R with
    | .shared R0 => [mkEntry R0]
    | .perBlock _ => (List.finRange nb).map fun i => mkEntry (Mat.eval (R.block i))
  let M := Mat.eval (uvrM (invTable eR) U V R)
  let tbl := eR ++ [mkEntry M]
  if !(tbl.all (·.ok)) then pure "inv-cert-fail" else
  let inv := invTable tbl
  if R.det * Mat.detLU k M ≤ 0 then pure "det-nonpos" else
  let L := Vec.eval (logDensityUVRCols inv x m U V R)
  pure (join (["ok"] ++ outVec outF L ++ outVec outF (Vec.of (fun c => Transc.exp (L c)))))

def lse : R String := do
  let n ← nat
  match n with
  | 0 => pure "empty"
  | n + 1 =>
    let x ← vec flt (n + 1)
    done
    pure (join ["ok", floatStr (logSumExp x)])

def extOfFloat (x : Float) : Ext Rat :=
  if x.isNaN then .nan
  else if x.isInf then (if x < 0 then .negInf else .nan)
  else .fin (floatToRat x)

def lsex : R String := do
  let n ← nat
  match n with
  | 0 => pure "empty"
  | n + 1 =>
    let x ← vec flt (n + 1)
    done
    let xe : Vec (Ext Rat) (n + 1) := Vec.of (fun i => extOfFloat (x i))
    let r : Ext Rat := logSumExp xe
    pure (join ["ok", match r with
      | Ext.negInf => "neginf"
      | Ext.nan => "nan"
      | Ext.fin q => outF q])

def handle (op : String) (args : List String) : Option String :=
  match op with
  | "ld" => some ((run ld args).getD "bad-args")
  | "uvr" => some ((run uvr args).getD "bad-args")
  | "ldcols" => some ((run ldcols args).getD "bad-args")
  | "uvrcols" => some ((run uvrcols args).getD "bad-args")
  | "lse" => some ((run lse args).getD "bad-args")
  | "lsex" => some ((run lsex args).getD "bad-args")
  | _ => none

end BFL.DriverDensity
