import BFL.Model.Skip
/-
Helper lemmas for C13 (skip machinery).  Everything here is a finite case analysis over the
flags and the command, closed by `decide`/`simp`, plus inductions over command lists.
-/
namespace BFL.Skip

/-- The bookkeeping invariant of the prediction-level flag. -/
def Inv (st : SkipState) : Prop :=
  st.pred = (st.state && (match st.exo with
                          | none => true
                          | some e => e))

instance (st : SkipState) : Decidable (Inv st) := by unfold Inv; infer_instance

/-- Commands that go through the filter or the steps (not directly to the state model). -/
def Cmd.viaSteps (c : Cmd) : Prop := c.level ≠ .stateModel ∧ c.level ≠ .exoModel

instance (c : Cmd) : Decidable c.viaSteps := by unfold Cmd.viaSteps; infer_instance

theorem init_inv (h : Bool) : Inv (SkipState.init h) := by
  cases h <;> decide

/-- Every command that goes through the filter or a step re-establishes the invariant,
    whatever the flags were before (so a throwing command cannot break it either). -/
theorem filterSkip_inv (st : SkipState) (n : StepName) (on : Bool) (h : Inv st) :
    Inv (filterSkip st n on).st := by
  obtain ⟨p, s, e, c⟩ := st
  cases n <;> cases on <;> cases p <;> cases s <;> cases c <;> rcases e with _ | (_ | _) <;>
    first | decide | (revert h; decide)

theorem predictionSkip_inv (st : SkipState) (n : StepName) (on : Bool) (h : Inv st) :
    Inv (predictionSkip st n on).st := by
  obtain ⟨p, s, e, c⟩ := st
  cases n <;> cases on <;> cases p <;> cases s <;> cases c <;> rcases e with _ | (_ | _) <;>
    first | decide | (revert h; decide)

theorem correctionSkip_inv (st : SkipState) (on : Bool) (h : Inv st) :
    Inv (correctionSkip st on).st := by
  obtain ⟨p, s, e, c⟩ := st
  cases on <;> cases p <;> cases s <;> cases c <;> rcases e with _ | (_ | _) <;>
    first | decide | (revert h; decide)

theorem skipCmd_inv (st : SkipState) (c : Cmd) (hc : c.viaSteps) (h : Inv st) :
    Inv (skipCmd st c).st := by
  obtain ⟨l, n, on⟩ := c
  cases l
  · exact filterSkip_inv st n on h
  · exact predictionSkip_inv st n on h
  · exact correctionSkip_inv st on h
  · exact absurd rfl hc.1
  · exact absurd rfl hc.2

theorem run_inv (cs : List Cmd) : ∀ (st : SkipState), (∀ c ∈ cs, c.viaSteps) → Inv st → Inv (run st cs) := by
  induction cs with
  | nil => intro st _ h; exact h
  | cons c cs ih =>
    intro st hcs h
    exact ih _ (fun c' hc' => hcs c' (List.mem_cons_of_mem _ hc')) (skipCmd_inv st c (hcs c List.mem_cons_self) h)

/-- No command attaches or detaches the exogenous model. -/
theorem skipCmd_hasExo (st : SkipState) (c : Cmd) : (skipCmd st c).st.hasExo = st.hasExo := by
  obtain ⟨p, s, e, cr⟩ := st
  obtain ⟨l, n, on⟩ := c
  cases l <;> cases n <;> cases on <;> cases p <;> cases s <;> cases cr <;> rcases e with _ | (_ | _) <;> decide

theorem run_hasExo (cs : List Cmd) : ∀ st : SkipState, (run st cs).hasExo = st.hasExo := by
  induction cs with
  | nil => intro st; rfl
  | cons c cs ih => intro st; simp only [run]; rw [ih, skipCmd_hasExo]

/-- One filter-level command against the specification: flags and outcome. -/
theorem filterSkip_spec (s : Spec) (n : StepName) (on : Bool) :
    filterSkip s.flags n on = ⟨(s.apply n on).flags, s.outcome n⟩ := by
  obtain ⟨h, st, e, c⟩ := s
  cases n <;> cases on <;> cases h <;> cases st <;> cases e <;> cases c <;> decide

theorem run_spec (cs : List (StepName × Bool)) : ∀ s : Spec,
    run s.flags (filterCmds cs) = (s.run cs).flags := by
  induction cs with
  | nil => intro s; rfl
  | cons c cs ih =>
    intro s
    obtain ⟨n, on⟩ := c
    simp only [filterCmds, List.map_cons, run, skipCmd, Spec.run]
    rw [filterSkip_spec]
    exact ih _

theorem init_flags (h : Bool) : (Spec.init h).flags = SkipState.init h := by
  cases h <;> decide

theorem spec_run_hasExo (cs : List (StepName × Bool)) : ∀ s : Spec, (s.run cs).hasExo = s.hasExo := by
  induction cs with
  | nil => intro s; rfl
  | cons c cs ih =>
    intro s
    obtain ⟨n, on⟩ := c
    simp only [Spec.run]
    rw [ih]
    cases n <;> simp [Spec.apply] <;> split <;> rfl

end BFL.Skip
