import BFL.Proofs.AnyBoxHeld
/-
C20 helper lemmas, part 4: the heap model refines the value-semantic specification `specStep`
(simulation through the abstraction `absPool`, for every operation from every state satisfying `Inv`).
-/
namespace BFL.AnyBox

theorem absPool_apply (s : St) (k : Nat) :
    absPool s k = bif liveN s k then some (held s (.named k)) else none := rfl

theorem absPool_none_iff {s : St} {k : Nat} : absPool s k = none ↔ liveN s k = false := by
  rw [absPool_apply]; cases liveN s k <;> simp

theorem absPool_isSome (s : St) (k : Nat) : (absPool s k).isSome = liveN s k := by
  rw [absPool_apply]; cases liveN s k <;> simp

theorem freeN_iff {n : Nat} {s : St} {k : Nat} : (k < n ∧ absPool s k = none) ↔ freeN n s k = true := by
  rw [absPool_none_iff]; simp [freeN]

theorem absPool_of_live {s : St} {k : Nat} (h : liveN s k = true) : absPool s k = some (held s (.named k)) := by
  rw [absPool_apply]; simp [h]

theorem absPool_of_dead {s : St} {k : Nat} (h : liveN s k = false) : absPool s k = none := by
  rw [absPool_apply]; simp [h]

/-- two states showing the same liveness and the same held values have the same abstraction -/
theorem absPool_congr {s' : St} (f : APool)
    (hf : ∀ j, (bif liveN s' j then some (held s' (.named j)) else none) = f j) : absPool s' = f :=
  funext fun j => by rw [absPool_apply]; exact hf j

theorem step_refines {n : Nat} {s : St} (h : Inv n s) (op : Op) :
    absPool (step n s op).1 = (specStep n (absPool s) op).1 ∧ (step n s op).2 = (specStep n (absPool s) op).2 := by
  have ht := h.content_tmp
  have htl := h.tmpDead
  have ho := h.own
  cases op with
  | dflt k =>
    simp only [step, specStep, freeN_iff]
    split
    · refine ⟨absPool_congr _ fun j => ?_, by first | rfl | trivial⟩
      simp only [liveN, isLive_ctorDefault, held_ctorDefault, upd_apply, Obj.named.injEq, absPool_apply]
      by_cases hj : j = k <;> simp [hj]
    · exact ⟨rfl, rfl⟩
  | ctorAny k src c =>
    simp only [step, specStep, ← and_assoc, freeN_iff, absPool_isSome, ← Bool.and_eq_true]
    split
    · next hv =>
      simp only [Bool.and_eq_true] at hv
      obtain ⟨hk, hd⟩ := freeN_spec hv.1
      have hsk : src ≠ k := by
        intro e; subst e
        have h1 : isLive s (.named src) = true := hv.2
        simp [h1] at hd
      refine ⟨absPool_congr _ fun j => ?_, by first | rfl | trivial⟩
      simp only [liveN, isLive_ctorFromAny _ _ _ _ _ hv.2, Obj.named.injEq]
      cases c <;>
        simp only [ctorFromAny, held_ctorCopy ho, held_ctorMove, upd_apply, Obj.named.injEq, absPool_apply, liveN] <;>
        by_cases hjk : j = k <;> by_cases hjs : j = src <;> simp_all [liveN]
    · exact ⟨rfl, rfl⟩
  | ctorVal k c v =>
    simp only [step, specStep, freeN_iff]
    split
    · refine ⟨absPool_congr _ fun j => ?_, by first | rfl | trivial⟩
      simp only [liveN, isLive_ctorFromVal, held_ctorFromVal ho, upd_apply, Obj.named.injEq, absPool_apply]
      by_cases hj : j = k <;> simp [hj]
    · exact ⟨rfl, rfl⟩
  | asgnAny a b c =>
    simp only [step, specStep, absPool_isSome, ← Bool.and_eq_true]
    split
    · next hv =>
      simp only [Bool.and_eq_true] at hv
      have ha : isLive s (.named a) = true := hv.1
      have hb : isLive s (.named b) = true := hv.2
      refine ⟨absPool_congr _ fun j => ?_, by first | rfl | trivial⟩
      simp only [liveN, isLive_assignFromAny s a b c _ ha hb htl]
      cases c with
      | rref =>
        simp only [assignFromAny, held_assignMove ho ht]
        by_cases hab : a = b
        · subst hab; simp [absPool_apply, liveN]
        · simp only [hab, if_false, upd_apply, absPool_apply, liveN]
          by_cases hjb : j = b <;> by_cases hja : j = a <;> simp_all
      | clref =>
        simp only [held_assignFromAny_copy ho ht a b j .clref (by simp), upd_apply, absPool_apply, liveN]
        by_cases hja : j = a <;> simp_all
      | lref =>
        simp only [held_assignFromAny_copy ho ht a b j .lref (by simp), upd_apply, absPool_apply, liveN]
        by_cases hja : j = a <;> simp_all
      | crref =>
        simp only [held_assignFromAny_copy ho ht a b j .crref (by simp), upd_apply, absPool_apply, liveN]
        by_cases hja : j = a <;> simp_all
    · exact ⟨rfl, rfl⟩
  | asgnVal a c v =>
    simp only [step, specStep, absPool_isSome]
    split
    · next hv =>
      have ha : isLive s (.named a) = true := hv
      refine ⟨absPool_congr _ fun j => ?_, by first | rfl | trivial⟩
      simp only [liveN, isLive_assignFromVal s a v c _ ha htl, held_assignFromVal ho ht, upd_apply, absPool_apply]
      by_cases hja : j = a <;> simp_all
    · exact ⟨rfl, rfl⟩
  | reset a =>
    simp only [step, specStep, absPool_isSome]
    split
    · next hv =>
      have ha : isLive s (.named a) = true := hv
      refine ⟨absPool_congr _ fun j => ?_, by first | rfl | trivial⟩
      simp only [liveN, isLive_reset s a _ ha htl, held_reset ho ht, upd_apply, absPool_apply]
      by_cases hja : j = a <;> simp_all
    · exact ⟨rfl, rfl⟩
  | swap a b f =>
    simp only [step, specStep, absPool_isSome, ← Bool.and_eq_true]
    split
    · next hv =>
      simp only [Bool.and_eq_true] at hv
      have ha : isLive s (.named a) = true := hv.1
      have hb : isLive s (.named b) = true := hv.2
      refine ⟨absPool_congr _ fun j => ?_, by first | rfl | trivial⟩
      simp only [liveN, isLive_swap, held_swap, upd_apply, absPool_apply, Obj.named.injEq]
      by_cases hjb : j = b <;> by_cases hja : j = a <;> simp_all
    · exact ⟨rfl, rfl⟩
  | destroy a =>
    simp only [step, specStep, absPool_isSome]
    split
    · refine ⟨absPool_congr _ fun j => ?_, by first | rfl | trivial⟩
      simp only [liveN, isLive_dtor, held_dtor ho, upd_apply, absPool_apply, Obj.named.injEq]
      by_cases hja : j = a <;> simp_all
    · exact ⟨rfl, rfl⟩
  | poke a v =>
    simp only [step, specStep]
    by_cases hl : liveN s a = true
    · have hty := typeOf_eq_held_tag s (.named a)
      simp only [hl, if_true, absPool_of_live hl]
      cases hh : held s (.named a) with
      | none =>
        simp only [hh, Option.map_none] at hty
        refine ⟨absPool_congr _ fun j => ?_, by first | rfl | trivial⟩
        simp only [liveN, isLive_poke, held_poke ho, hty, absPool_apply]
        simp
      | some w =>
        simp only [hh, Option.map_some] at hty
        by_cases htag : w.tag = v.tag
        · simp only [htag, if_true]
          refine ⟨absPool_congr _ fun j => ?_, by first | rfl | trivial⟩
          simp only [liveN, isLive_poke, held_poke ho, hty, htag, upd_apply, absPool_apply, Obj.named.injEq]
          by_cases hja : j = a
          · subst hja; simp_all [liveN]
          · simp [hja]
        · simp only [htag, if_false]
          refine ⟨absPool_congr _ fun j => ?_, by first | rfl | trivial⟩
          have : ¬ (some w.tag = some v.tag) := by simpa using htag
          simp only [liveN, isLive_poke, held_poke ho, hty, this, and_false, if_false, absPool_apply]
    · have hl' : liveN s a = false := by simpa using hl
      simp only [hl', absPool_of_dead hl']
      exact ⟨rfl, rfl⟩
  | pokeRef a v =>
    simp only [step, specStep]
    by_cases hl : liveN s a = true
    · have hty := typeOf_eq_held_tag s (.named a)
      have hsnd := pokeRef_snd s (.named a) v
      simp only [hl, if_true, absPool_of_live hl, pokeRef_fst]
      cases hh : held s (.named a) with
      | none =>
        simp only [hh, Option.map_none] at hty
        have h2 : (pokeRef s (.named a) v).2 = false := by
          cases hb : (pokeRef s (.named a) v).2 with
          | false => rfl
          | true => rw [hsnd.1 hb] at hty; simp at hty
        refine ⟨absPool_congr _ fun j => ?_, by simp [h2]⟩
        simp only [liveN, isLive_poke, held_poke ho, hty, absPool_apply]
        simp
      | some w =>
        simp only [hh, Option.map_some] at hty
        by_cases htag : w.tag = v.tag
        · have h2 : (pokeRef s (.named a) v).2 = true := hsnd.2 (by rw [hty, htag])
          simp only [htag, if_true]
          refine ⟨absPool_congr _ fun j => ?_, by simp [h2]⟩
          simp only [liveN, isLive_poke, held_poke ho, hty, htag, upd_apply, absPool_apply, Obj.named.injEq]
          by_cases hja : j = a
          · subst hja; simp_all [liveN]
          · simp [hja]
        · have hne : ¬ (some w.tag = some v.tag) := by simpa using htag
          have h2 : (pokeRef s (.named a) v).2 = false := by
            cases hb : (pokeRef s (.named a) v).2 with
            | false => rfl
            | true => exact absurd (hty ▸ hsnd.1 hb) hne
          simp only [htag, if_false]
          refine ⟨absPool_congr _ fun j => ?_, by simp [h2]⟩
          simp only [liveN, isLive_poke, held_poke ho, hty, hne, and_false, if_false, absPool_apply]
    · have hl' : liveN s a = false := by simpa using hl
      simp only [hl', absPool_of_dead hl']
      exact ⟨rfl, rfl⟩
  | castVal a t f =>
    simp only [step, specStep]
    by_cases hl : liveN s a = true
    · have hty := typeOf_eq_held_tag s (.named a)
      simp only [hl, if_true, absPool_of_live hl, castValue_result]
      cases hh : held s (.named a) with
      | none =>
        simp only [hh, Option.map_none] at hty
        refine ⟨absPool_congr _ fun j => ?_, by simp [hty]⟩
        simp only [liveN, isLive_castValue, held_castValue ho, hty, absPool_apply]
        simp
      | some w =>
        simp only [hh, Option.map_some] at hty
        by_cases htag : w.tag = t
        · simp only [htag, if_true]
          refine ⟨absPool_congr _ fun j => ?_, by simp [hty, htag]⟩
          simp only [liveN, isLive_castValue, held_castValue ho, hty, htag, absPool_apply, Obj.named.injEq, hh]
          by_cases hf : f = .rvalMove
          · simp only [hf, true_and, if_true, upd_apply]
            by_cases hja : j = a
            · subst hja; simp_all [liveN]
            · simp [hja, absPool_apply, liveN]
          · simp [hf, absPool_apply, liveN]
        · simp only [htag, if_false]
          have : ¬ (some w.tag = some t) := by simpa using htag
          refine ⟨absPool_congr _ fun j => ?_, by simp [hty, this]⟩
          simp only [liveN, isLive_castValue, held_castValue ho, hty, this, and_false, if_false, absPool_apply]
    · have hl' : liveN s a = false := by simpa using hl
      simp only [hl', absPool_of_dead hl']
      exact ⟨rfl, rfl⟩
  | castPtr a t c =>
    cases a with
    | none => simp [step, specStep, castPtr, castPtrConst, deref]
    | some a =>
      simp only [step, specStep]
      by_cases hl : liveN s a = true
      · have hty := typeOf_eq_held_tag s (.named a)
        simp only [hl, if_true, absPool_of_live hl, castPtrConst, ite_self, deref_castPtr]
        cases hh : held s (.named a) with
        | none => simp [hh] at hty; simp [hty]
        | some w =>
          simp only [hh, Option.map_some] at hty
          simp [hty]
      · have hl' : liveN s a = false := by simpa using hl
        simp only [hl', absPool_of_dead hl']
        exact ⟨rfl, rfl⟩

theorem run_refines {n : Nat} (ops : List Op) {s : St} (h : Inv n s) :
    absPool (run n s ops) = specRun n (absPool s) ops := by
  induction ops generalizing s with
  | nil => rfl
  | cons op rest ih =>
    show absPool (run n (step n s op).1 rest) = specRun n (specStep n (absPool s) op).1 rest
    rw [ih (inv_step op h), (step_refines h op).1]

end BFL.AnyBox
