import BFL.Model.GPF
import BFL.Bridge.Mat
import BFL.Bridge.Transc
import Mathlib.LinearAlgebra.Matrix.PosDef
import Mathlib.LinearAlgebra.Matrix.NonsingularInverse
import Mathlib.LinearAlgebra.Matrix.Determinant.Basic
import Mathlib.Analysis.SpecialFunctions.Pow.Real
import Mathlib.Algebra.Order.Star.Real
/-
Helper lemmas for C08 (the property theorems are in `BFL/Props/C08.lean`).

  * `mahalanobis`       : for `S Sᵀ = P`, `P` positive definite: `(S z)ᵀ P⁻¹ (S z) = zᵀ z`;
  * `gauss_exp_form`    : `exp(−½(n log 2π + log d + q)) = (2π)^(−n/2) d^(−1/2) exp(−q/2)` for `d > 0`;
  * `lapDet_eq`         : the model's Laplace expansion is `Matrix.det`.
-/
namespace BFL.GPFProofs
open Matrix

section sqrt
variable {n : Type*} [Fintype n] [DecidableEq n]

/-- a square-root factor of a positive definite matrix is invertible, and `det P = (det S)² > 0` -/
theorem sqrt_det {P S : Matrix n n ℝ} (hP : P.PosDef) (hS : S * Sᵀ = P) :
    IsUnit S.det ∧ 0 < P.det := by
  have hdet : P.det = S.det * S.det := by rw [← hS, det_mul, det_transpose]
  have hPu : IsUnit P.det := (Matrix.isUnit_iff_isUnit_det _).1 hP.isUnit
  have hne : S.det ≠ 0 := by
    intro h
    rw [hdet, h] at hPu
    simp at hPu
  refine ⟨isUnit_iff_ne_zero.mpr hne, ?_⟩
  rw [hdet]
  exact mul_self_pos.mpr hne

/-- the Mahalanobis identity -/
theorem mahalanobis {P S : Matrix n n ℝ} (hP : P.PosDef) (hS : S * Sᵀ = P) (z : n → ℝ) :
    (S *ᵥ z) ⬝ᵥ (P⁻¹ *ᵥ (S *ᵥ z)) = z ⬝ᵥ z := by
  have hSu : IsUnit S.det := (sqrt_det hP hS).1
  have hStu : IsUnit (Sᵀ).det := by rw [det_transpose]; exact hSu
  have h1 : P⁻¹ * S = (Sᵀ)⁻¹ := by
    rw [← hS, Matrix.mul_inv_rev, Matrix.mul_assoc, nonsing_inv_mul _ hSu, Matrix.mul_one]
  have h2 : P⁻¹ *ᵥ (S *ᵥ z) = (Sᵀ)⁻¹ *ᵥ z := by
    rw [Matrix.mulVec_mulVec, h1]
  rw [h2, ← Matrix.vecMul_transpose, ← Matrix.dotProduct_mulVec, Matrix.mulVec_mulVec,
    Matrix.mul_nonsing_inv _ hStu, Matrix.one_mulVec]

/-- the squared Mahalanobis distance of a draw moved by `d` -/
theorem mahalanobis_shift {P S : Matrix n n ℝ} (hP : P.PosDef) (hS : S * Sᵀ = P) (z d : n → ℝ) :
    (S *ᵥ z + d) ⬝ᵥ (P⁻¹ *ᵥ (S *ᵥ z + d)) = z ⬝ᵥ z + 2 * (d ⬝ᵥ (P⁻¹ *ᵥ (S *ᵥ z))) + d ⬝ᵥ (P⁻¹ *ᵥ d) := by
  have hsymm : (P⁻¹)ᵀ = P⁻¹ := by
    have : Pᵀ = P := by
      have h := hP.isHermitian.eq
      rwa [Matrix.conjTranspose_eq_transpose_of_trivial] at h
    rw [Matrix.transpose_nonsing_inv, this]
  have hcross : (S *ᵥ z) ⬝ᵥ (P⁻¹ *ᵥ d) = d ⬝ᵥ (P⁻¹ *ᵥ (S *ᵥ z)) := by
    rw [Matrix.dotProduct_mulVec, ← Matrix.mulVec_transpose, hsymm, dotProduct_comm]
  rw [Matrix.mulVec_add, add_dotProduct, dotProduct_add, dotProduct_add, mahalanobis hP hS z, hcross]
  ring

end sqrt

/-- the Gaussian density as the code evaluates it (`exp` of the log-density) in product form -/
theorem gauss_exp_form (n : ℕ) {d : ℝ} (hd : 0 < d) (q : ℝ) :
    Real.exp ((-((1 : ℝ) / (1 + 1))) * ((n : ℝ) * Real.log ((1 + 1) * Real.pi) + Real.log d + q))
      = (2 * Real.pi) ^ (-(n : ℝ) / 2) * d ^ (-(1 : ℝ) / 2) * Real.exp (-q / 2) := by
  have h2pi : (0 : ℝ) < 2 * Real.pi := by positivity
  rw [Real.rpow_def_of_pos h2pi, Real.rpow_def_of_pos hd, ← Real.exp_add, ← Real.exp_add]
  congr 1
  have : ((1 : ℝ) + 1) = 2 := by norm_num
  rw [this]
  ring

section det
variable {α : Type} [CommRing α]

theorem skipCol_eq {n : Nat} (j : Fin (n+1)) (c : Fin n) : skipCol j c = j.succAbove c := by
  unfold skipCol Fin.succAbove
  simp only [Fin.lt_def, Fin.val_castSucc]

/-- the Laplace expansion the model executes is the determinant -/
theorem lapDet_eq : ∀ (n : Nat) (A : Mat α n n), lapDet n A = (toM A).det
  | 0, A => by simp [lapDet]
  | n+1, A => by
    rw [lapDet, fsum_eq_sum, Matrix.det_succ_row_zero]
    refine Finset.sum_congr rfl fun j _ => ?_
    have hminor : toM (Mat.of fun r c => A r.succ (skipCol j c)) = (toM A).submatrix Fin.succ j.succAbove := by
      ext r c
      simp [skipCol_eq]
    rw [lapDet_eq n, hminor]
    rcases Nat.even_or_odd (j : ℕ) with he | ho
    · have : (j : ℕ) % 2 = 0 := Nat.even_iff.mp he
      simp [this, he.neg_one_pow]
    · have : (j : ℕ) % 2 = 1 := Nat.odd_iff.mp ho
      simp [this, ho.neg_one_pow]

end det

/-- The factor the code builds from Eigen's LDLᵀ after fix 5d4e99d, `S = Pᵀ L √(max(D, 0))`
    (rounding-negative pivots are clamped before the square root): whatever the pivots,
    `S Sᵀ = Pᵀ L max(D, 0) Lᵀ P`. -/
theorem ldlt_factor_clamped {n : Type*} [Fintype n] [DecidableEq n] (L Pm : Matrix n n ℝ) (d : n → ℝ) :
    (Pmᵀ * L * diagonal (fun i => Real.sqrt (max (d i) 0))) *
      (Pmᵀ * L * diagonal (fun i => Real.sqrt (max (d i) 0)))ᵀ
      = Pmᵀ * L * diagonal (fun i => max (d i) 0) * Lᵀ * Pm := by
  have hdd : diagonal (fun i => Real.sqrt (max (d i) 0)) * diagonal (fun i => Real.sqrt (max (d i) 0))
      = diagonal (fun i => max (d i) 0) := by
    rw [diagonal_mul_diagonal]
    congr 1
    funext i
    exact Real.mul_self_sqrt (le_max_right _ _)
  rw [transpose_mul, transpose_mul, transpose_transpose, diagonal_transpose]
  calc Pmᵀ * L * diagonal (fun i => Real.sqrt (max (d i) 0)) * (diagonal (fun i => Real.sqrt (max (d i) 0)) * (Lᵀ * Pm))
      = Pmᵀ * L * (diagonal (fun i => Real.sqrt (max (d i) 0)) * diagonal (fun i => Real.sqrt (max (d i) 0))) * Lᵀ * Pm := by
        simp only [Matrix.mul_assoc]
    _ = Pmᵀ * L * diagonal (fun i => max (d i) 0) * Lᵀ * Pm := by rw [hdd]

/-- With Eigen's LDLᵀ contract `A = Pᵀ L D Lᵀ P`: the clamped factor satisfies
    `S Sᵀ = A + Pᵀ L max(−D, 0) Lᵀ P` — exactly `A` when `D ≥ 0` (next theorem), and `A` plus the
    clamped-away negative part (of the size of the rounding error) otherwise. -/
theorem ldlt_factor_clamped_excess {n : Type*} [Fintype n] [DecidableEq n] (A L Pm : Matrix n n ℝ) (d : n → ℝ)
    (h : A = Pmᵀ * L * diagonal d * Lᵀ * Pm) :
    (Pmᵀ * L * diagonal (fun i => Real.sqrt (max (d i) 0))) *
      (Pmᵀ * L * diagonal (fun i => Real.sqrt (max (d i) 0)))ᵀ
      = A + Pmᵀ * L * diagonal (fun i => max (-(d i)) 0) * Lᵀ * Pm := by
  have hsplit : diagonal (fun i => max (d i) 0) = diagonal d + diagonal (fun i => max (-(d i)) 0) := by
    rw [diagonal_add]
    congr 1
    funext i
    rcases le_total 0 (d i) with hi | hi
    · rw [max_eq_left hi, max_eq_right (by linarith)]; simp
    · rw [max_eq_right hi, max_eq_left (by linarith)]; simp
  rw [ldlt_factor_clamped, hsplit, h]
  simp only [Matrix.mul_add, Matrix.add_mul]

/-- Eigen's LDLᵀ contract `A = Pᵀ L D Lᵀ P` with `D ≥ 0` makes the (clamped) factor a square root of
    `A` (no definiteness: positive *semi*-definite `A` included). -/
theorem ldlt_factor {n : Type*} [Fintype n] [DecidableEq n] (A L Pm : Matrix n n ℝ) (d : n → ℝ)
    (hd : ∀ i, 0 ≤ d i) (h : A = Pmᵀ * L * diagonal d * Lᵀ * Pm) :
    (Pmᵀ * L * diagonal (fun i => Real.sqrt (max (d i) 0))) *
      (Pmᵀ * L * diagonal (fun i => Real.sqrt (max (d i) 0)))ᵀ = A := by
  rw [ldlt_factor_clamped, h]
  have : (fun i => max (d i) 0) = d := by funext i; exact max_eq_left (hd i)
  rw [this]

end BFL.GPFProofs
