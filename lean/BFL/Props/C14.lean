import BFL.Proofs.Bounds
import BFL.Proofs.BoundsSigma
import BFL.Proofs.BoundsCorr
import BFL.Proofs.BoundsPart
import BFL.Proofs.BoundsFilt
import BFL.Proofs.BoundsHand
set_option linter.unusedSimpArgs false
/-
C14 — no operation reads or writes outside its matrices or mixes incompatible sizes.

Theorems about the shape-algebra transcriptions of `BFL/Model/Bounds/*`: for every configuration
satisfying the documented precondition `…Valid` of an entry point, every side condition of every
matrix operation the entry point performs holds (`W.Safe`).  PARTIAL by nature: the statements are
about the transcribed dimension arithmetic of the listed functions; memory safety of Eigen,
libstdc++ and of code that is not transcribed is covered only dynamically (sanitizer builds).
-/
namespace BFL.Bounds
open W

/-! ## WhiteNoiseAcceleration -/

/-- The constructor's comma initialisers and square-root products are consistent for all three `Dim`. -/
theorem safe_wna_ctor (d : Dim) : (wnaCtor d).Safe := by
  cases d <;> simp [wnaCtor, ldltSqrt]

/-- `getNoiseSample(num)` is consistent for every `Dim` and every `num` (the buffer is sized by `Q_`),
    and returns a `state size × num` matrix. -/
theorem safe_wna_noise (d : Dim) (num : Nat) :
    (wnaNoiseCase d num).Safe ∧ (wnaNoiseCase d num).val = some [(Shape.mk d.n d.n).str, (Shape.mk d.n d.n).str, toString d.n, (Shape.mk d.n num).str] := by
  cases d <;> simp [wnaNoiseCase, wnaNoiseTokens, wnaNoise, wnaCtor, ldltSqrt, Dim.n]

/-- `motion` on states with as many rows as the model's description: consistent; and only then. -/
theorem safe_wna_motion (d : Dim) (num sr : Nat) : (wnaMotionCase d num sr).Safe ↔ wnaMotionValid d sr := by
  cases d <;> simp [wnaMotionCase, wnaMotion, additiveMotion, linPropagate, wnaNoise, wnaCtor, ldltSqrt, wnaMotionValid, Dim.n] <;> omega

theorem safe_wna_transition_probability (d : Dim) (num sr : Nat) (h : wnaMotionValid d sr) : (wnaTPCase d num sr).Safe := by
  cases d <;> simp_all [wnaTPCase, wnaTransitionProbability, gaussianDensity, wnaCtor, ldltSqrt, wnaMotionValid, Dim.n]

/-- a moved-to model keeps working after its source is destroyed (the closure lives in the heap-allocated `ImplData`) -/
theorem safe_wna_move (d : Dim) (num : Nat) : (wnaMoveCase d num).Safe := by
  cases d <;> simp [wnaMoveCase, moveThenUse, callClosure, wnaNoise, wnaCtor, ldltSqrt]

example : wnaMotionValid .three 6 := rfl

/-- Any number of `getNoiseSample(n)` / `motion` calls on ONE model, with `n` going up and down: every call returns /
    adds a `state size × n` sample (the buffer is local to the call and sized by the request). -/
theorem safe_wna_call_sequence (d : Dim) (nums : List Nat) : (wnaSeqCase d nums).Safe := by
  unfold wnaSeqCase
  simp only [safe_bind, val_bind, safe_pure, and_true]
  exact ⟨safe_wna_ctor d, wnaSeq_fold_safe d nums []⟩

/-! ## LinearModel -/

/-- Whatever the component list and the covariance passed to the constructor: it either throws or builds a
    model whose `getNoiseSample(num)` / `predictedMeasure` are consistent for every `num` (buffer sized by `R_`). -/
theorem safe_linear_model (n rr rc num : Nat) (comps : List Nat) : (lmCase n rr rc num comps).Safe := by
  unfold lmCase lmTokens lmCtor
  simp only [ldltSqrt, lmNoise, lmPredicted]
  split
  · simp
  · split
    · rename_i h1 h2
      simp only [List.all_eq_true, decide_eq_true_eq] at h2
      simp
      refine ⟨?_, by omega⟩
      intro i hi
      refine ⟨hi, ?_⟩
      rw [List.getElem?_eq_getElem hi]
      exact h2 _ (List.getElem_mem hi)
    · simp

theorem safe_linear_model_call_sequence (n : Nat) (comps nums : List Nat) : (lmSeqCase n comps nums).Safe := by
  unfold lmSeqCase
  have hl := lmCtor_safe n comps ⟨comps.length, comps.length⟩
  simp only [safe_bind, val_bind, hl, true_and]
  cases hm : (lmCtor n comps ⟨comps.length, comps.length⟩).val with
  | none => simp
  | some m =>
    obtain ⟨_, m2, m3, _⟩ := lmCtor_some _ _ _ _ hm
    simp only [safe_bind, safe_pure, and_true]
    exact lmSeq_fold_safe m (by simp [m2, m3]) nums []

/-- a constructed model draws `measured components × num` noise samples -/
theorem linear_model_noise_shape (n rr rc num : Nat) (comps : List Nat) (toks : List String)
    (h : (lmCase n rr rc num comps).val = some toks) :
    toks = [(Shape.mk comps.length n).str, (Shape.mk comps.length comps.length).str, (Shape.mk comps.length num).str, (Shape.mk comps.length num).str] := by
  unfold lmCase lmTokens lmCtor at h
  simp only [ldltSqrt, lmNoise, lmPredicted] at h
  split at h
  · simp at h
  · split at h
    · rename_i h1 h2
      simp at h
      have hr : rr = comps.length := by omega
      have hc : rc = comps.length := by omega
      subst hr; subst hc
      exact h.symm
    · simp at h

/-! ## SimulatedStateModel, SimulatedLinearSensor -/

theorem ssmCtor_val (d : Dim) (x0 T : Nat) :
    (ssmCtor d x0 T).val.target = ⟨x0, T⟩ ∧ (ssmCtor d x0 T).val.T = T ∧ (ssmCtor d x0 T).val.cur = 0 := by
  simp [ssmCtor]

theorem safe_ssm_ctor (d : Dim) (T sr : Nat) (h : ssmValid d sr) : (ssmCtor d sr T).Safe := by
  have hw := safe_wna_ctor d
  unfold ssmValid at h
  subst h
  cases d <;>
    simp [ssmCtor, additiveMotion, linPropagate, wnaNoise, wnaCtor, ldltSqrt, Dim.n] <;>
    bounds_arith

/-- Any trajectory length (0 included), any number of `bufferData()` calls — in particular more than the
    trajectory holds: no column outside the trajectory is touched. -/
theorem safe_simulated_state_model (d : Dim) (T sr calls : Nat) (h : ssmValid d sr) : (ssmCase d T sr calls).Safe := by
  unfold ssmCase ssmTokens
  simp only [safe_bind, safe_pure, and_true]
  refine ⟨safe_ssm_ctor d T sr h, ssmCalls_safe calls _ ?_⟩
  have := ssmCtor_val d sr T
  rw [this.1, this.2.1]

/-- Exhaustion is reported through the return value: call `i` (0-based) returns `true` with a `state × 1`
    datum iff `i < T`, and `false` afterwards. -/
theorem simulated_state_model_reports_exhaustion (d : Dim) (T sr calls : Nat) :
    (ssmCase d T sr calls).val =
      some ((List.range calls).map fun i => if i < T then "1:" ++ (Shape.mk sr 1).str else "0") := by
  unfold ssmCase ssmTokens
  simp only [val_bind, val_pure]
  rw [ssmCalls_tokens]
  have := ssmCtor_val d sr T
  simp [this.1, this.2.1, this.2.2]

/-- `log()` (protected; called from `bufferData()`) after at least one successful `bufferData()` -/
theorem safe_ssm_log (d : Dim) (T calls : Nat) (h : ssmLogValid T calls) : (ssmLogCase d T calls).Safe := by
  unfold ssmLogCase ssmLogTokens
  have hc := ssmCtor_val d d.n T
  have hg := ssmLogGo calls (ssmCtor d d.n T).val (by rw [hc.1, hc.2.1]) (by rw [hc.2.2]; omega)
  simp only [safe_bind, safe_pure, and_true]
  refine ⟨safe_ssm_ctor d T d.n rfl, hg.1, ?_⟩
  unfold ssmLogValid at h
  have h1 : (ssmLogTokens.go (ssmCtor d d.n T).val calls).val.target.c = T := by rw [hg.2.1, hc.1]
  have h2 : (ssmLogTokens.go (ssmCtor d d.n T).val calls).val.cur = min (0 + calls) T := by rw [hg.2.2.2, hc.2.2, hc.2.1]
  simp only [ssmLog, req, col, safe_bind, safe_mk_cons, safe_mk_nil, safe_pure, Cond.holds, and_true]
  omega

/-- The sensor over a trajectory of any length, any measured-component subset of the state, any number of
    `freeze()` calls: the constructor throws or every product / sum is consistent, and nothing is read past the trajectory. -/
theorem safe_simulated_linear_sensor (d : Dim) (T n rr calls : Nat) (comps : List Nat) (h : slsValid d n) :
    (slsCase d T n rr calls comps).Safe := by
  unfold slsValid at h
  subst h
  unfold slsCase slsTokens slsCtor
  have hc := ssmCtor_val d d.n T
  have hs := safe_ssm_ctor d T d.n rfl
  have hl := lmCtor_safe d.n comps ⟨rr, rr⟩
  simp only [safe_bind, val_bind]
  cases hm : (lmCtor d.n comps ⟨rr, rr⟩).val with
  | none => simp [hs, hl]
  | some m =>
    obtain ⟨m1, m2, m3, m4, m5, m6, m7⟩ := lmCtor_some _ _ _ _ hm
    simp only [safe_bind, val_bind, safe_pure, val_pure, and_true]
    refine ⟨⟨hs, hl, ?_⟩, slsCalls_safe calls _ ⟨?_, ?_, ?_, ?_⟩⟩
    · simp [m1]; omega
    · simp [hc.1, hc.2.1]
    · simp [m1, hc.1]
    · simp [m2, m3]
    · simp [m1, m3]; omega

example : ssmValid .one 2 := rfl

/-! ## HistoryBuffer -/

/-- Any sequence of `addElement` (vectors of the state size the buffer has at that point), `setHistorySize`,
    `decrease/increaseHistorySize`, `clear`, `getHistoryBuffer`, move construction (continuing with the moved-to object) and move
    ASSIGNMENT from / into a buffer of another state size, window and content — of any length: no `pop_back` on an
    empty deque, no column of `getHistoryBuffer()` assigned a vector of another size. -/
theorem safe_history (S : Nat) (ops : List HOp) (h : histValid S ops) : (histCase S ops).Safe := by
  unfold histCase
  simp only [safe_bind, safe_pure, and_true]
  exact histRun_safe ops (Hist.new S) (by simp [Hist.uniform, Hist.new]) h

/-- Call sequences longer than the buffer: the content never exceeds the window and the window stays in [2, 30]. -/
theorem history_bounded (S : Nat) (ops : List HOp) (h : ∀ op ∈ ops, op ≠ .moveKeepOld) :
    (histFinal (Hist.new S) ops).buf.length ≤ (histFinal (Hist.new S) ops).window ∧
    2 ≤ (histFinal (Hist.new S) ops).window ∧ (histFinal (Hist.new S) ops).window ≤ 30 :=
  histFinal_bounded ops (Hist.new S) (by simp [Hist.bounded, Hist.new]) h

/-- shrinking the window below the content pops exactly the excess (the defect fixed by 382f8e9 popped `window - new`) -/
example : (histCase 3 [.add 3, .add 3, .add 3, .add 3, .setSize 10, .setSize 3, .get]).Safe := by decide

example : histValid 3 [.add 3, .setSize 2, .get, .dec, .inc, .clear, .moveKeepNew] := by decide

/-- hand-over between buffers of DIFFERENT state sizes: after `*this = std::move(other)` the buffer has the other's state
    size, window and content, and is used with vectors of that size -/
example : histValid 2 [.add 2, .add 2, .moveAssignFrom 4 3 0, .get, .add 4, .get, .moveAssignInto 7 1 2, .add 4, .get] ∧
    (histCase 2 [.add 2, .add 2, .moveAssignFrom 4 3 0, .get, .add 4, .get, .moveAssignInto 7 1 2, .add 4, .get]).Safe := by decide

/-- seed C14-r3-2 as the model sees it: a move assignment that does NOT hand over `state_size_` leaves vectors of 4 entries
    in a buffer that builds `getHistoryBuffer()` with 2 rows -/
theorem unsafe_history_move_assign_without_state_size_counterexample :
    ¬ (histGet ⟨5, 2, [4, 4, 4]⟩).Safe ∧ (histGet ⟨5, 4, [4, 4, 4]⟩).Safe := by decide

/-! ## InitSurveillanceAreaGrid -/

/-- Any grid, any particle count, any state layout (after fix 8ea2579 the initialiser refuses states that are not
    4-dimensional): every written column exists and receives exactly its 4 coefficients. -/
theorem safe_grid (nx ny N : Nat) (L : Layout) : (gridCase nx ny N L).Safe := by
  unfold gridCase gridInit
  split
  · simp
  · split
    · simp
    · rename_i h1 h2
      simp only [Decidable.not_not] at h1 h2
      simp [h2]
      intro i hi j hj
      rw [h1]
      exact grid_index_lt nx ny i j hi hj

theorem grid_refuses (nx ny N : Nat) (L : Layout) (h : L.dim ≠ 4) :
    ∃ s, (gridCase nx ny N L).val = some ["0", s] := by
  unfold gridCase gridInit
  split
  · exact ⟨_, rfl⟩
  · simp [b01]

/-! ## sigma_point, unscented_transform -/

/-- Every layout (linear, circular Euler / quaternion, noise-augmented), every component count ≥ 1. -/
theorem safe_sigma_point (K : Nat) (L : Layout) (h : spValid K L) : (spCase K L).Safe := by
  obtain ⟨hK, hd⟩ := h
  unfold spCase
  simp only [safe_bind, safe_pure, and_true]
  exact ⟨mkGM_safe K L (Or.inl hK), sigmaPoint_safe L K hd⟩

/-- The precondition is also necessary: with at least one component, a 0-dimensional mixture makes `jacobiSvd` reject
    the empty covariance block (the correspondence observes exactly this abort). -/
theorem sigma_point_safe_iff (K : Nat) (L : Layout) : (sigmaPoint L K).Safe ↔ (K = 0 ∨ 1 ≤ L.dcov) := by
  constructor
  · intro h
    rcases Nat.eq_zero_or_pos K with h0 | h0
    · exact Or.inl h0
    · right
      simp only [sigmaPoint, safe_bind, safe_forRange, gmCov, middleCols, nonEmpty, safe_mk_cons, Cond.holds, val_bind] at h
      have := (h.1 0 h0).2.1.1
      exact this
  · rintro (h | h)
    · subst h; simp [sigmaPoint]
    · exact sigmaPoint_safe L K h

/-- … and returns `dim × (2·dim_covariance + 1)·components` sigma points. -/
theorem sigma_point_shape (K : Nat) (L : Layout) : (sigmaPoint L K).val = ⟨L.dim, (L.dcov * 2 + 1) * K⟩ :=
  sigmaPoint_val L K

/-- the unscented weights for any number of degrees of freedom (0 included): `2n + 1` entries, all written in range -/
theorem safe_unscented_weights (dof : Nat) : (utwCase dof).Safe ∧ (utwCase dof).val = some [toString (utWeightSize dof), toString (utWeightSize dof)] := by
  simp [utwCase, unscentedWeights, utWeightSize]

/-- The generic transform, for every input layout (incl. noise-augmented, quaternion) and every output description. -/
theorem safe_unscented_transform (K : Nat) (I : Layout) (wdof : Nat) (O : Layout) (prows dcols : Nat) (fvalid : Bool)
    (h : utValid K I wdof O prows dcols) : (utCase K I wdof O prows dcols fvalid).Safe := by
  obtain ⟨hK, hd, hw, hO, hp, hc⟩ := h
  unfold utCase
  simp only [safe_bind, safe_pure, and_true]
  refine ⟨mkGM_safe K I (Or.inl hK), utGeneric_safe I K _ O _ fvalid hd (by simp [utWeightSize, hw]) hO (by simp [hp, hc])⟩

/-- A failed function evaluation is reported (`false`, default mixture, empty cross covariance) without touching anything. -/
theorem unscented_transform_failure (K : Nat) (I : Layout) (wdof : Nat) (O : Layout) (prows dcols : Nat) :
    (utCase K I wdof O prows dcols false).val = some UTRes.failed.tokens := by
  simp [utCase, utGeneric_val]

/-- Through a linear state model (generic `StateModel&` and `AdditiveStateModel&` overloads). -/
theorem safe_unscented_transform_state_model (additive : Bool) (K : Nat) (I : Layout) (wdof fn fq : Nat) (D : Layout)
    (h : utsmValid K I wdof fn fq D) : (utsmCase additive K I wdof fn fq D).Safe := by
  obtain ⟨hK, hfn, hfq, hw, hI, hD, hdim, hdc⟩ := h
  subst hI hfq
  unfold utsmCase
  have hl : ltiStateOk fq fq = true := by simp [ltiStateOk]; omega
  rw [hl]
  simp only [safe_bind, Bool.not_true, Bool.false_eq_true, if_false, safe_pure, and_true]
  refine ⟨mkGM_safe K I (Or.inl hK), ?_⟩
  have hw' : utWeightSize wdof = 2 * I.dcov + 1 := by simp [utWeightSize, hw]
  cases additive with
  | true => exact utStateAdditive_safe I K _ ⟨⟨fq, fq⟩, fq, I⟩ (by omega) hw' hD (by simp [hdim]) rfl (by simp [hdc])
  | false => exact utStateGeneric_safe I K _ ⟨⟨fq, fq⟩, fq, I⟩ (by omega) hw' hD (by simp [hdim]) rfl (by simp [hdim])

/-- Through `WhiteNoiseAcceleration` of every `Dim`. -/
theorem safe_unscented_transform_wna (additive : Bool) (d : Dim) (K dl dn wdof : Nat)
    (h : utwnaValid d K dl dn wdof) : (utwnaCase additive d K dl dn wdof).Safe := by
  obtain ⟨hK, hdl, hdn, hw⟩ := h
  subst hdl hdn hw
  have hc := safe_wna_ctor d
  unfold utwnaCase
  simp only [safe_bind, safe_pure, and_true, hc, true_and]
  refine ⟨mkGM_safe K _ (Or.inl hK), ?_⟩
  have hdim : (Layout.mk d.n 0 false 0).dim = d.n := by simp [Layout.dim]
  have hdcov : (Layout.mk d.n 0 false 0).dcov = d.n := by simp [Layout.dcov]
  have hw' : utWeightSize d.n = 2 * (Layout.mk d.n 0 false 0).dcov + 1 := by simp [utWeightSize, hdcov]
  have h1 : 1 ≤ (Layout.mk d.n 0 false 0).dcov := by rw [hdcov]; cases d <;> simp [Dim.n]
  cases additive with
  | true =>
    apply utStateAdditive_safe _ K _ _ h1 hw' <;> cases d <;> simp [wnaCtor, ldltSqrt, Dim.n, Layout.dim, Layout.dcov, Layout.tc, Layout.cc]
  | false =>
    apply utStateGeneric_safe _ K _ _ h1 hw' <;> cases d <;> simp [wnaCtor, ldltSqrt, Dim.n, Layout.dim, Layout.dcov, Layout.tc, Layout.cc]

/-- Through a measurement model (generic and additive overloads; a failed prediction returns before any post-processing). -/
theorem safe_unscented_transform_measurement_model (additive : Bool) (K : Nat) (I : Layout) (wdof : Nat) (M : MMod)
    (h : utmmValid additive K I wdof M) : (utmmCase additive K I wdof M).Safe := by
  obtain ⟨hK, hd, hw, hO, hp, hc, hr⟩ := h
  unfold utmmCase
  simp only [safe_bind, safe_pure, and_true]
  refine ⟨mkGM_safe K I (Or.inl hK), ?_⟩
  have hw' : utWeightSize wdof = 2 * I.dcov + 1 := by simp [utWeightSize, hw]
  cases additive with
  | true => exact utMeasAdditive_safe I K _ M hd hw' hO hp hc (hr rfl)
  | false => exact utMeasGeneric_safe I K _ M hd hw' hO hp hc

example : spValid 2 ⟨1, 2, true, 2⟩ := by decide
example : utValid 2 ⟨2, 1, true, 1⟩ 6 ⟨1, 1, true, 0⟩ 5 0 := by decide

/-! ## correction steps -/

/-- KFCorrection::correctStep + getLikelihood, any dimensions and component counts. -/
theorem safe_kf_correct (I : Layout) (K : Nat) (C : Layout) (cK hm hn ysize : Nat) (mvalid : Bool)
    (h : kfValid I K C cK hm hn ysize) : (kfCase I K C cK hm hn ysize mvalid).Safe := by
  unfold kfCase
  split
  · simp
  · simp only [safe_bind, safe_pure, and_true]
    exact kfCorrect_safe I K C cK hm hn ysize mvalid h

/-- UKFCorrection (generic and additive constructors): correctStep + getLikelihood are consistent whenever the
    shapes match the declared descriptions AND neither the state nor the measurement has quaternion components.
    PARTIAL: the full statement `ukfValid → Safe` is false, see the two counterexamples below. -/
theorem safe_ukf_correct_partial (additive : Bool) (I : Layout) (K : Nat) (C : Layout) (cK : Nat) (M : MMod)
    (h : ukfValid additive I K C cK M) (hs : ukfSupported I M) : (ukfCase additive I K C cK M).Safe := by
  unfold ukfCase
  simp only [safe_bind, safe_pure, and_true]
  exact ukfCorrect_safe additive I K C cK M h hs

/-- Any number of successive `correct()` / `getLikelihood()` calls on ONE UKFCorrection object, each call with its own
    component count and its own subset of failing model calls (after fix 5117f2c a failed correction no longer leaves the
    innovations of an earlier success paired with the mixture of the failed transform). -/
theorem safe_ukf_call_sequence_partial (additive : Bool) (I : Layout) (M : MMod) (steps : List CStep)
    (h : ukfSeqValid additive I M steps) (hs : ∀ s ∈ steps, ukfSupported I (M.withFlags s)) : (ukfSeqCase additive I M steps).Safe := by
  unfold ukfSeqCase
  simp only [safe_bind, safe_pure, and_true]
  exact ukfSeq_safe additive I M steps UKFMem.init h hs

/-- the defect fixed by 5117f2c as the model sees it: WITHOUT the reset, success (2 components) followed by a failed
    prediction leaves 2 innovation columns and a 1-component default mixture, and `getLikelihood()` addresses `covariance(1)` -/
example : ¬ (gaussLikelihood "UKFCorrection" ⟨2, 2⟩ UTRes.failed.O UTRes.failed.K).Safe := by decide

/-- witness: 1 linear + 1 quaternion state, 2 linear measurements, additive model — all shapes as declared -/
def ukfQuatStateWitness : MMod := ⟨⟨1, 1, true, 2⟩, ⟨2, 0, false, 0⟩, 2, 0, 2, 2, 2, true, true, true⟩
/-- Known finding `ukf-quaternion-state`: `corr_state.mean(i) = pred_state.mean(i) + K * innovation` adds a
    `dim`-vector and a `dim_covariance`-vector. -/
theorem unsafe_ukf_quaternion_state_counterexample :
    ukfValid true ⟨1, 1, true, 0⟩ 2 ⟨1, 1, true, 0⟩ 2 ukfQuatStateWitness ∧
    ¬ (ukfCase true ⟨1, 1, true, 0⟩ 2 ⟨1, 1, true, 0⟩ 2 ukfQuatStateWitness).Safe := by decide

/-- witness: 3 linear states, one quaternion measurement (4 numbers, 3 degrees of freedom) -/
def ukfQuatMeasWitness : MMod := ⟨⟨3, 0, false, 3⟩, ⟨0, 1, true, 0⟩, 4, 0, 3, 4, 3, true, true, true⟩
/-- Known finding `ukf-quaternion-measurement`: `Pxy.middleCols(meas_size*i, meas_size)` uses `total_size()` (4)
    where the cross covariance has `dof` (3) columns per component. -/
theorem unsafe_ukf_quaternion_measurement_counterexample :
    ukfValid true ⟨3, 0, false, 0⟩ 2 ⟨3, 0, false, 0⟩ 2 ukfQuatMeasWitness ∧
    ¬ (ukfCase true ⟨3, 0, false, 0⟩ 2 ⟨3, 0, false, 0⟩ 2 ukfQuatMeasWitness).Safe := by decide

/-- SUKFCorrection: any measurement size and sub-size (non-dividing sizes leave the belief untouched), reduced or full
    noise covariance.  PARTIAL: quaternion states excluded, see the counterexample. -/
theorem safe_sukf_correct_partial (I : Layout) (K : Nat) (C : Layout) (cK : Nat) (M : MMod) (sub : Nat) (reduced : Bool)
    (h : sukfValid I K C cK M sub reduced) (hs : sukfSupported I) : (sukfCase I K C cK M sub reduced).Safe := by
  unfold sukfCase
  simp only [safe_bind, safe_pure, and_true]
  exact sukfCorrect_safe I K C cK M sub reduced h hs

def sukfQuatStateWitness : MMod := ⟨⟨1, 1, true, 2⟩, ⟨4, 0, false, 0⟩, 4, 0, 4, 4, 2, true, true, true⟩
/-- Known finding `sukf-quaternion-state`: sigma blocks sized by `pred_state.dim` instead of `dim_covariance`. -/
theorem unsafe_sukf_quaternion_state_counterexample :
    sukfValid ⟨1, 1, true, 0⟩ 2 ⟨1, 1, true, 0⟩ 2 sukfQuatStateWitness 2 true ∧
    ¬ (sukfCase ⟨1, 1, true, 0⟩ 2 ⟨1, 1, true, 0⟩ 2 sukfQuatStateWitness 2 true).Safe := by decide

/-- a measurement whose size is not a multiple of the sub-size is refused without any matrix operation -/
example : (sukfCase ⟨3, 0, false, 0⟩ 2 ⟨3, 0, false, 0⟩ 2 ⟨⟨3, 0, false, 4⟩, ⟨4, 0, false, 0⟩, 4, 0, 4, 4, 4, true, true, true⟩ 3 false).val
    = some (corrCopy ⟨3, 0, false, 0⟩ 2).tokens := by decide

example : ukfValid false ⟨2, 1, false, 0⟩ 2 ⟨2, 1, false, 0⟩ 2 ⟨⟨2, 1, false, 2⟩, ⟨1, 1, false, 0⟩, 2, 0, 2, 2, 2, true, true, true⟩ ∧
    ukfSupported ⟨2, 1, false, 0⟩ ⟨⟨2, 1, false, 2⟩, ⟨1, 1, false, 0⟩, 2, 0, 2, 2, 2, true, true, true⟩ := by decide
example : sukfValid ⟨2, 1, false, 0⟩ 2 ⟨2, 1, false, 0⟩ 2 ⟨⟨2, 1, false, 2⟩, ⟨4, 0, false, 0⟩, 4, 0, 4, 4, 2, true, true, true⟩ 2 true := by decide
example : kfValid ⟨3, 0, false, 0⟩ 2 ⟨3, 0, false, 0⟩ 2 2 3 2 := by decide

/-! ## GaussianMixture / ParticleSet -/

/-- indexed accessors (`mean(i)`, `mean(i, j)`, `covariance(i)`, `covariance(i, j, k)`, `weight(i)`) with indices in range,
    on any layout incl. noise-augmented ones -/
theorem safe_gm_accessors (K : Nat) (L : Layout) (which : String) (i j k : Nat) (h : gmaccValid K L which i j k) :
    (gmaccCase K L which i j k).Safe := by
  obtain ⟨hK, hi, hm, hc⟩ := h
  unfold gmaccCase
  simp only [safe_bind]
  exact ⟨mkGM_safe K L (Or.inl hK), gmAccess_safe L K which i j k hi hm hc⟩

theorem safe_ps_accessors (K : Nat) (L : Layout) (which : String) (i j : Nat) (h : psaccValid K L which i j) :
    (psaccCase K L which i j).Safe := by
  obtain ⟨_, hi, hm⟩ := h
  exact psAccess_safe L K which i j hi hm

/-- `augmentWithNoise`, once or twice, any argument shape (a non-square argument is refused): every block moved / written is
    inside the resized storage, and the storage stays consistent with the bookkeeping. -/
theorem safe_gm_augment (K : Nat) (L : Layout) (n1 n2 : Shape) (h : gmaugValid K) : (gmaugCase K L n1 n2).Safe := by
  unfold gmaugValid at h
  have hw0 := gmCtor_wf K L.dl L.dc L.quat
  have h1 := gmAugment_ok (gmCtor K L.dl L.dc L.quat) n1 hw0 (by simpa [gmCtor] using h)
  have hK1 : 1 ≤ (gmAugment (gmCtor K L.dl L.dc L.quat) n1).val.1.K := by rw [h1.2.2.1]; simpa [gmCtor] using h
  have h2 := gmAugment_ok (gmAugment (gmCtor K L.dl L.dc L.quat) n1).val.1 n2 h1.2.1 hK1
  unfold gmaugCase
  simp only [safe_bind, val_bind, safe_pure, and_true, h1.1, true_and, safe_forRange]
  split
  · obtain ⟨_, w2, _, w4, _⟩ := h2.2.1
    refine ⟨h2.1, ?_⟩
    intro i hi
    simp [w4, w2]
    exact mul_block_le _ _ _ hi
  · obtain ⟨_, w2, _, w4, _⟩ := h1.2.1
    refine ⟨by simp, ?_⟩
    intro i hi
    simp [w4, w2]
    exact mul_block_le _ _ _ hi

/-- `resize` keeps the storage consistent with the bookkeeping (noise block and quaternion layouts included; fix ad6ea89) -/
theorem gm_resize_consistent (g : GMStore) (K dl dc : Nat) (h : g.wf) : (gmResize g K dl dc).wf :=
  gmResize_wf g K dl dc h

theorem safe_gm_resize (K : Nat) (L : Layout) (K2 dl2 dc2 : Nat) (h : gmresizeValid K L) : (gmresizeCase K L K2 dl2 dc2).Safe := by
  unfold gmresizeCase
  simp only [safe_bind, safe_pure, and_true]
  exact mkGM_safe K L (by unfold gmresizeValid at h; omega)

/-- `ParticleSet::operator+=` of sets with the same layout: consistent, and the result is the set of `K1 + K2` particles -/
theorem safe_particle_set_add (K1 : Nat) (L1 : Layout) (K2 : Nat) (L2 : Layout) (h : psaddValid L1 L2) :
    (psaddCase K1 L1 K2 L2).Safe ∧ (psaddCase K1 L1 K2 L2).val = some (psCtor (K1 + K2) L1.dl L1.dc L1.quat).tokens := by
  obtain ⟨h1, h2, h3⟩ := h
  unfold psaddCase
  rw [← h1, ← h2, ← h3]
  have := psAdd_safe K1 K2 L1.dl L1.dc L1.quat
  have hv := psAdd_wf K1 K2 L1.dl L1.dc L1.quat
  simp [this, hv]

/-! ## Resampling -/

/-- `Resampling::resample` for ANY weight vector of the right shape: `gt j idx` (the comparison `u_j > csw(idx)`) is an
    arbitrary function — un-normalised weights, exponentials summing to less or more than one, -inf, underflow, NaN.
    The end clamp `idx_csw < N - 1` of the scan is what keeps `state / mean / covariance(idx_csw)` inside the set. -/
theorem safe_resample (N : Nat) (I : Layout) (rN : Nat) (R : Layout) (plen : Nat) (gt : Nat → Nat → Bool)
    (h : rsValid N I rN R plen) : (rsCase N I rN R plen gt).Safe := by
  obtain ⟨hN, _, hR, hrN, hp⟩ := h
  rw [hR, hrN, hp]
  unfold rsCase
  simp only [safe_bind, safe_pure, and_true]
  exact resample_safe I N gt hN

/-- The same function with the scan NOT clamped (e.g. `std::lower_bound` over the cumulative weights with no end check):
    with weights whose exponentials sum to less than the last comb point every comparison says "advance", the index
    reaches `N` and particle `N` of an `N`-particle set is read.  4 particles, 2 linear states. -/
theorem unsafe_unclamped_resample_counterexample :
    rsValid 4 ⟨2, 0, false, 0⟩ 4 ⟨2, 0, false, 0⟩ 4 ∧
    ¬ (resampleGen false ⟨2, 0, false, 0⟩ 4 ⟨2, 0, false, 0⟩ 4 4 (fun _ _ => true)).Safe ∧
    (resampleGen true ⟨2, 0, false, 0⟩ 4 ⟨2, 0, false, 0⟩ 4 4 (fun _ _ => true)).Safe := by decide

/-- with normalised weights (`u_j > csw(idx)` iff `idx < j` for uniform weights) the unclamped scan is indistinguishable -/
example : (resampleGen false ⟨2, 0, false, 0⟩ 4 ⟨2, 0, false, 0⟩ 4 4 (weightOracle 0)).Safe := by decide

/-- `ResamplingWithPrior::resample`: any particle count ≥ 1, any prior ratio in [0, 1), Euler and quaternion layouts,
    any initialisation grid, any weights (the comparisons inside the embedded `Resampling::resample` are arbitrary). -/
theorem safe_resample_with_prior (N rnum rden : Nat) (I : Layout) (nx ny plen : Nat) (gt : Nat → Nat → Bool)
    (h : rwpValid N rnum rden I plen) : (rwpCase N rnum rden I nx ny plen gt).Safe := by
  obtain ⟨hN, _, _, hr, hp⟩ := h
  rw [hp]
  unfold rwpCase
  simp only [safe_bind, safe_pure, and_true]
  exact resampleWithPrior_safe I N rnum rden nx ny gt hN hr

/-! ## EstimatesExtraction -/

/-- All twelve extraction methods, both overloads, any number of successive extractions (longer than the window),
    any window size: products, history columns and weight vectors agree in size. -/
theorem safe_estimates_extraction (ls cs : Nat) (m : EMethod) (full : Bool) (a : EEArgs) (reps window : Nat)
    (h : eeValid ls cs full a) : (eeCase ls cs m full a reps window).Safe := by
  have hu0 : (Hist.new (ls + cs)).uniform := by simp [Hist.uniform, Hist.new]
  have hb0 : (Hist.new (ls + cs)).bounded := by simp [Hist.bounded, Hist.new]
  unfold eeCase
  simp only [safe_bind, val_bind, safe_pure, and_true]
  split
  · have hs := histSetSize_ok (Hist.new (ls + cs)) window hu0
    have hb := histSetSize_bounded (Hist.new (ls + cs)) window hb0
    refine ⟨hs.1, eeRun_safe reps _ m full a ⟨hs.2.1, hb, ?_⟩ h⟩
    show (histSetSize (Hist.new (ls + cs)) window).val.stateSize = ls + cs
    rw [hs.2.2]; rfl
  · refine ⟨by simp, eeRun_safe reps _ m full a ⟨hu0, hb0, ?_⟩ h⟩
    simp [EEState.new, Hist.new]

/-! ## GPFCorrection -/

theorem safe_gpf_sample (msize csize : Nat) (h : gpfSampleValid msize csize) : (gpfSampleCase msize csize).Safe := by
  unfold gpfSampleValid at h
  subst h
  simp [gpfSampleCase, (gpfSample_safe msize).1]

/-- after fix 1b09d3a a moved-to GPFCorrection draws from its own generator, whatever happens to the source -/
theorem safe_gpf_move (mode n : Nat) : (gpfMoveCase mode n).Safe := by
  unfold gpfMoveCase
  have := (gpfSample_safe n).1
  split
  · simp [moveThenUse, callClosure, this]
    split <;> simp
  · simp [this]

/-- the defect fixed by 1b09d3a, in the lifetime model: the moved `std::function` still dereferences the destroyed source -/
theorem unsafe_gpf_move_before_fix_counterexample : ¬ (moveThenUse .gpfCorrectionOld true).Safe := by decide

example : rwpValid 8 1 2 ⟨0, 1, true, 0⟩ 8 := by decide
example : eeValid 2 1 true ⟨⟨3, 4⟩, 4, 4, 4, ⟨4, 4⟩⟩ := by decide

/-! ## deepening round: predictions, particle-filter plumbing, stale members -/

/-- `LinearStateModel::propagate`: every combination of skipped state / attached / skipped exogenous model -/
theorem safe_linear_propagate (fn sr num pr pc : Nat) (skipS hasExo skipE : Bool) (h : linpropValid fn sr num pr pc) :
    (linpropCase fn sr num pr pc skipS hasExo skipE).Safe := by
  obtain ⟨_, h1, h2, h3⟩ := h
  subst h1 h2 h3
  unfold linpropCase
  simp only [safe_bind, safe_pure, and_true]
  exact linPropagateFull_safe _ _ _ _ _

/-- `KFPrediction::predict`, every skip command, with / without exogenous model, also in place (`predict(b, b)`) -/
theorem safe_kf_predict (I : Layout) (K : Nat) (P : Layout) (pK fn : Nat) (m : SkipMode) (hasExo alias : Bool)
    (h : kfpValid I K P pK fn m hasExo alias) : (kfpCase I K P pK fn m hasExo alias).Safe := by
  obtain ⟨_, hfn, _, hdim, hdc, hal, _⟩ := h
  unfold kfpCase
  have : fn ≠ 0 := by omega
  simp only [this, if_false, safe_bind, safe_pure, and_true]
  cases alias with
  | true => simpa using kfPredict_safe I K fn m hasExo hdim hdc
  | false =>
    obtain ⟨hP, hpK⟩ := hal rfl
    subst hP hpK
    simpa using kfPredict_safe P pK fn m hasExo hdim hdc

/-- `UKFPrediction::predict`, generic (noise-augmented, any layout incl. quaternion) and additive (linear model) variants -/
theorem safe_ukf_predict (additive : Bool) (I : Layout) (K n qn : Nat) (D : Layout) (inoise : Nat) (skip : Bool)
    (h : ukfpValid additive I K n qn D inoise) : (ukfpCase additive I K n qn D inoise skip).Safe := by
  obtain ⟨hK, hIn, hId, hD, hrest⟩ := h
  subst hD
  unfold ukfpCase
  simp only [safe_bind]
  refine ⟨mkGM_safe K D (Or.inl hK), ?_⟩
  cases additive with
  | true =>
    simp only [if_true] at hrest
    obtain ⟨hn, hq, hdim, hdc⟩ := hrest
    subst hq
    have hl : ltiStateOk qn qn = true := by simp [ltiStateOk]; omega
    simp only [hl, Bool.true_and, Bool.not_true, Bool.false_eq_true, if_false, if_true, safe_bind, safe_pure, and_true]
    exact ukfPredictAdditive_safe D K qn skip hK hIn hId hdim hdc
  | false =>
    simp only [Bool.false_eq_true, if_false] at hrest
    subst hrest
    simp only [Bool.false_and, Bool.false_eq_true, if_false, safe_bind, safe_pure, and_true]
    exact ukfPredictGeneric_safe D K inoise skip hK hIn hId

theorem safe_gpf_predict (I : Layout) (K : Nat) (P : Layout) (pK fn : Nat) (h : gpfpValid I K P pK fn) :
    (gpfpCase I K P pK fn).Safe := by
  obtain ⟨_, hfn, _, hdim, hdc, hP, hpK⟩ := h
  subst hP hpK
  unfold gpfpCase
  have : fn ≠ 0 := by omega
  simp only [this, if_false, safe_bind, safe_pure, and_true]
  exact gpfPredict_safe P pK fn hdim hdc

/-- `DrawParticles::predictStep` over WhiteNoiseAcceleration of every `Dim`, both constructors -/
theorem safe_draw_particles (d : Dim) (I : Layout) (N : Nat) (P : Layout) (pN : Nat) (hasExo : Bool)
    (h : drawValid d I N P pN) : (drawCase d I N P pN hasExo).Safe := by
  obtain ⟨_, hdim, hP, hpN⟩ := h
  subst hP hpN
  unfold drawCase
  simp only [safe_bind, safe_pure, and_true]
  exact drawPredict_safe d P pN hasExo hdim

theorem safe_gaussian_likelihood (N sr : Nat) (M : MMod) (h : glikValid M) : (glikCase N sr M).Safe := by
  unfold glikCase
  simp only [safe_bind, safe_pure, and_true]
  exact (gaussianLikelihood_ok M ⟨sr, N⟩ h.1 h.2).1

/-- `BootstrapCorrection::correct` (+ `getLikelihood`): any subset of failing model calls, any layout -/
theorem safe_bootstrap_correct (I : Layout) (N : Nat) (M : MMod) (h : bootValid I M) : (bootCase I N M).Safe := by
  unfold bootCase
  simp only [safe_bind, safe_pure, and_true]
  exact bootstrapCorrect_safe I N M h.2.1 h.2.2

/-- `GPFCorrection::correctStep` (Gaussian correction, sampling, likelihood, transition probability, proposal density, weights) -/
theorem safe_gpf_correct (d : Dim) (N cN hm ysize : Nat) (mvalid : Bool) (h : gpfcValid N cN hm ysize) :
    (gpfcCase d N cN hm ysize mvalid).Safe := by
  obtain ⟨hN, hcN, hhm, hy⟩ := h
  rw [hcN, hy]
  unfold gpfcCase
  have : hm ≠ 0 := by omega
  simp only [this, if_false, safe_bind, safe_pure, and_true]
  exact gpfCorrect_safe d N hm mvalid hN hhm

/-- `SIS`: initialisation + any number of filtering steps, whatever the data-dependent decisions (resample or not at each
    step, every comparison of the resampling scan) -/
theorem safe_sis (N lin circ : Nat) (d : Dim) (nx ny hm steps : Nat) (resampleAt : Nat → Bool) (gt : Nat → Nat → Bool)
    (h : sisValid N lin circ d hm) : (sisCase N lin circ d nx ny hm steps resampleAt gt).Safe := by
  obtain ⟨hN, hd, hhm⟩ := h
  unfold sisCase
  split
  · simp
  · simp only [safe_bind, safe_pure, and_true]
    exact sisRun_safe N lin circ d nx ny hm steps resampleAt gt hN hd

/-- Any number of successive `correct()` / `getLikelihood()` calls on ONE SUKFCorrection object, each call with its own
    component count, its own MEASUREMENT SIZE (time-varying model) and its own subset of failing model calls: since fix
    9d4c3da a correction first forgets the innovations of the previous call, so `getLikelihood()` never pairs innovations
    of one call with propagated sigma points of another. -/
theorem safe_sukf_call_sequence_partial (I : Layout) (M : MMod) (sub : Nat) (reduced : Bool) (steps : List CStep)
    (h : sukfSeqValid I M sub reduced steps) (hs : sukfSupported I) : (sukfSeqCase I M sub reduced steps).Safe := by
  unfold sukfSeqCase
  simp only [safe_bind, safe_pure, and_true]
  exact sukfSeq_safe I M sub reduced hs steps SUKFMem.init h

/-- the defect fixed by 9d4c3da as the model sees it: WITHOUT the reset, a success with a 4-row measurement followed by a call
    with a 6-row measurement whose innovation fails leaves 4-row innovations next to 6-row propagated sigma points, and
    `getLikelihood()` builds blocks of the wrong height (sub-size 2, reduced covariance) -/
theorem unsafe_sukf_stale_likelihood_before_fix_counterexample :
    ¬ (sukfLikelihood ⟨4, 1⟩ ⟨6, 5⟩ 2 2 true).Safe ∧ (sukfLikelihood ⟨0, 0⟩ ⟨6, 5⟩ 2 2 true).Safe := by decide

/-- Any call sequence on ONE KFCorrection object (failed corrections keep the innovations and measurement covariances of the
    last success: stale but of matching sizes) with `getLikelihood()` after every call -/
theorem safe_kf_call_sequence (I : Layout) (hm hn ysize : Nat) (steps : List CStep) (h : kfSeqValid I hm hn ysize steps) :
    (kfSeqCase I hm hn ysize steps).Safe := by
  unfold kfSeqCase
  split
  · simp
  · simp only [safe_bind, safe_pure, and_true]
    exact kfSeq_safe I hm hn ysize steps ⟨⟨0, 0⟩, 1⟩ (Or.inl rfl) h

/-- One EstimatesExtraction object, the method changed between extractions in any order (a map-based method asked through the
    two-argument overload is refused and leaves the window untouched), any number of calls -/
theorem safe_estimates_extraction_method_sequence (ls cs N : Nat) (steps : List (EMethod × Bool)) (hN : 1 ≤ N) :
    (eeSeqCase ls cs N steps).Safe := by
  unfold eeSeqCase
  simp only [safe_bind, safe_pure, and_true]
  apply eeSeq_safe
  · exact ⟨by simp [Hist.uniform, Hist.new, EEState.new], by simp [Hist.bounded, Hist.new, EEState.new], by simp [EEState.new, Hist.new]⟩
  · exact ⟨rfl, hN, rfl, fun _ => ⟨rfl, rfl, rfl⟩⟩

/-- `ParticleSet::resize` keeps `state_` consistent with the mixture bookkeeping (fix 668e0de) -/
theorem ps_resize_consistent (p : PSStore) (K dl dc : Nat) (h : p.wf) : (psResize p K dl dc).wf :=
  psResize_wf p K dl dc h

/-- `a += a` (after fix 39621a9 the right-hand side is copied first): consistent, and the set is doubled -/
theorem safe_particle_set_add_self (K : Nat) (L : Layout) :
    (psaddselfCase K L).Safe ∧ (psaddselfCase K L).val = some (psCtor (K + K) L.dl L.dc L.quat).tokens := by
  unfold psaddselfCase psAddSelf
  simp [psAdd_safe K K L.dl L.dc L.quat, psAdd_wf K K L.dl L.dc L.quat]

/-- the defect fixed by 39621a9 (key `psadd-self-alias`): without the copy the right-hand side is read after it has been grown -/
theorem unsafe_particle_set_add_self_before_fix_counterexample :
    ¬ (psAddSelfBeforeFix (psCtor 2 2 0 false)).Safe ∧ (psAddSelfBeforeFix (psCtor 0 2 0 false)).Safe := by decide

/-- `g.augmentWithNoise(g.covariance(0))` (aliasing argument, legal since af9098e) -/
theorem safe_gm_augment_aliased (K : Nat) (L : Layout) (hK : 1 ≤ K) : (gmaugAliasCase K L).Safe := by
  have hw0 := gmCtor_wf K L.dl L.dc L.quat
  have h1 := gmAugment_ok (gmCtor K L.dl L.dc L.quat) ⟨(gmCtor K L.dl L.dc L.quat).cov.r, (gmCtor K L.dl L.dc L.quat).dcov⟩ hw0 (by simpa [gmCtor] using hK)
  unfold gmaugAliasCase
  simp only [safe_bind, val_bind, safe_pure, and_true, middleCols, safe_mk_cons, safe_mk_nil, Cond.holds]
  refine ⟨?_, h1.1⟩
  simp [gmCtor]
  have := mul_block_le (Layout.mk L.dl L.dc L.quat 0).dcov 0 K (by omega)
  omega

example : kfpValid ⟨3, 0, false, 0⟩ 2 ⟨3, 0, false, 0⟩ 2 3 .state true false := by decide
example : ukfpValid false ⟨1, 1, true, 0⟩ 2 0 2 ⟨1, 1, true, 0⟩ 2 := by decide
example : sisValid 4 3 1 .two 2 := by decide

/-! ## Round 4: hand-over incl. self move, EstimatesExtraction move operations, Logger, filter skip plumbing, default virtuals -/

/-- Every kind of hand-over (move / copy assignment and construction, `A = static_cast<const T&&>(B)`, and the self move
    `B = std::move(B)` behind the guard `if (this == &other) return *this;`) leaves an object in use that is configured as
    the source `B` was: the case the tie runs on it afterwards is the case of `B`'s configuration. -/
theorem handover_keeps_configuration {α : Type} (k : HandKind) (a : Option α) (b : α) :
    (handStep k true a (some b)).1 = some b := by
  cases k <;> rfl

/-- … and only the moves consume the source -/
theorem handover_source_after {α : Type} (k : HandKind) (a : Option α) (b : α) :
    (handStep k true a (some b)).2 = (if k = .moveAssign ∨ k = .moveConstruct then none else some b) := by
  cases k <;> simp [handStep]

/-- the guard is what a class needs whose move assignment resets the source's members (`HistoryBuffer`: `window_ = other.window_;
    other.window_ = 0;`): without it the self move leaves no usable object -/
theorem unguarded_self_move_counterexample : (handStep .selfMoveAssign false (none : Option Nat) (some 3)).1 = none := rfl

/-- EstimatesExtraction: any sequence of extractions (all 12 methods, both overloads), window changes, move construction,
    self move and move ASSIGNMENT from / into an extractor of other sizes, window, method and fill level — the object in use
    always holds a window of vectors of ITS `linear + circular` size. -/
theorem safe_estimates_extraction_handover (ls cs N : Nat) (ops : List EEOp) (hN : 1 ≤ N) : (eeHandCase ls cs N ops).Safe := by
  unfold eeHandCase
  simp only [safe_bind, safe_pure, and_true]
  exact eeHandRun_safe N hN ops _ (eeNew_inv ls cs)

/-- a move assignment that hands the history buffer over but keeps its own `linear_size_` / `state_size_`: the next windowed
    extraction pushes a 2-vector into a window of 4-vectors -/
theorem unsafe_estimates_extraction_move_assign_keeping_sizes_counterexample :
    ¬ (eeExtract (eeMoveAssignKeepingSizes (EEState.new 2 0) { EEState.new 3 1 with hist := ⟨5, 4, [4, 4]⟩ }) .smean false
        ⟨⟨2, 3⟩, 3, 3, 3, ⟨3, 3⟩⟩).Safe ∧
    (eeExtract { EEState.new 3 1 with hist := ⟨5, 4, [4, 4]⟩ } .smean false ⟨⟨4, 3⟩, 3, 3, 3, ⟨3, 3⟩⟩).Safe := by decide

example : (eeHandCase 2 1 3 [.extract .smean false, .moveAssignFrom 4 0 2 3 .wmode, .extract .emap true, .moveSelf,
    .moveAssignInto 1 1 0 2 .mean, .setWindow 7, .extract .wmean false, .moveConstruct, .extract .smap false]).Safe := by decide

/-- Logger: for a class whose `log()` hands at most as many data to `logger(…)` as its `log_file_names()` names files, any
    history of `enable_log` (folder present or not), `disable_log`, `log()` and queries keeps every `log_files_[pos]` inside
    the vector of open streams. -/
theorem safe_logger (sp : LogSpec) (ops : List LogOp) (h : logValid sp) : (logCase sp ops).Safe := by
  unfold logCase
  simp only [safe_bind, safe_pure, and_true]
  exact logRun_safe sp h ops LogSt.init (by simp [LogSt.inv, LogSt.init])

/-- the shipped Logger classes (SimulatedStateModel, SimulatedLinearSensor, SIS) satisfy that contract -/
theorem logger_shipped_valid (cls n k : Nat) (h : 1 ≤ cls ∧ cls ≤ 3) : logValid (logSpecOf cls n k) := by
  obtain ⟨h1, h2⟩ := h
  have : cls = 1 ∨ cls = 2 ∨ cls = 3 := by omega
  rcases this with rfl | rfl | rfl <;> simp [logValid, logSpecOf]

/-- the contract is needed: two data over one file name read `log_files_[1]` of a one-element vector — but only while the log
    is enabled -/
theorem unsafe_logger_more_data_than_files_counterexample :
    ¬ (logCase ⟨1, 2⟩ [.enable true 0, .log]).Safe ∧ (logCase ⟨1, 2⟩ [.enable true 0, .disable, .log]).Safe ∧
    (logCase ⟨1, 2⟩ [.enable false 0, .log]).Safe := by decide

/-- `GaussianFilter::skip` in front of filtering steps (KFPrediction + KFCorrection): whatever command history — known and
    unknown names, "exogenous" without an exogenous model (throws, nothing changes) — the steps run on consistent shapes. -/
theorem safe_gaussian_filter (hasExo : Bool) (fn K hm : Nat) (cmds : List (SkipWhat × Bool)) (steps : Nat)
    (h : gfValid fn K hm) : (gfCase hasExo fn K hm cmds steps).Safe := by
  obtain ⟨hfn, hK, hhm⟩ := h
  unfold gfCase
  split
  · simp
  · simp only [safe_bind, safe_pure, and_true, safe_forRange]
    intro _ _
    exact gfStep_safe fn K hm _ hasExo hfn hK hhm

/-- `ParticleFilter::skip` in front of `SIS::filtering_step`s (DrawParticles with / without exogenous model,
    BootstrapCorrection, Resampling): every command history, every resampling decision, every scan comparison. -/
theorem safe_particle_filter_skip (hasExo : Bool) (N lin circ : Nat) (d : Dim) (nx ny hm : Nat) (cmds : List (SkipWhat × Bool))
    (steps : Nat) (resampleAt : Nat → Bool) (gt : Nat → Nat → Bool) (h : sisValid N lin circ d hm) :
    (pfCase hasExo N lin circ d nx ny hm cmds steps resampleAt gt).Safe := by
  obtain ⟨hN, hd, hhm⟩ := h
  unfold pfCase
  split
  · simp
  · simp only [safe_bind, safe_pure, and_true]
    exact pfRun_safe N lin circ d nx ny hm steps hasExo _ resampleAt gt hN hd

/-- unknown step names are refused without any change, "exogenous" without a model throws without any change -/
theorem filter_skip_refusals (hasExo : Bool) (st : SkipSt) (b : Bool) :
    filterSkip hasExo st .unknown b = some (st, false) ∧ filterSkip false st .exogenous b = none := ⟨rfl, rfl⟩

/-- the default virtuals reached through shipped classes report through an exception; the only matrix operation in front of
    one (`LinearStateModel::propagate` inside `AdditiveStateModel::motion` of an LTIStateModel) is consistent -/
theorem safe_default_virtuals (which fn sr N : Nat) (h : defaultsValid which fn sr) :
    (defaultsCase which fn sr N).Safe ∧ (defaultsCase which fn sr N).val = none := by
  unfold defaultsCase
  split
  · have := h rfl
    subst this
    split
    · simp
    · simp [linPropagate]
  · simp

example : gfValid 3 2 2 := by decide
example : (gfCase true 2 2 1 [(.state, true), (.exogenous, true), (.unknown, true), (.all, false), (.correction, true)] 2).Safe := by decide
example : logValid (logSpecOf 3 0 0) := by decide

/-! ## Round 4 (b): `getLikelihood()` after the measurement model changed its size -/

/-- `SUKFCorrection::getLikelihood()` reads the measurement model's noise covariance AT QUERY TIME while `innovations_` /
    `propagated_sigma_points_` are those of the last successful correction.  After a successful correction with `m1` rows,
    the model switching to `m2` rows, and then the query at once / after a skipped `correct()` / after a real `correct()`:
    safe whenever the current noise covariance still covers the stored innovations (reduced mode, or the members were renewed,
    or `m1 ≤ m2`). -/
theorem safe_sukf_likelihood_query_partial (reduced : Bool) (sub m1 m2 : Nat) (how : LikQHow) (K : Nat)
    (h : likqValid 2 sub m1 m2 K) (hc : likqCovered reduced m1 m2 how) : (likqCase 2 reduced sub m1 m2 how K).Safe := by
  obtain ⟨hK, hm1, hm2, hs⟩ := h
  obtain ⟨hsub, _, _⟩ := hs rfl
  unfold likqCase
  simp only [safe_bind, safe_pure, and_true]
  exact sukfLikQuery_safe K sub m1 m2 reduced how hK hm1 hm2 hsub hc

/-- the query function itself: any members `m × Ki`, `m × p` against a noise covariance of `rr ≥ m` rows (full) / `sub` rows (reduced) -/
theorem safe_sukf_likelihood_cover (m Ki p rr sub : Nat) (reduced : Bool) (hsub : 0 < sub) (hK : 0 < Ki)
    (hrr : if reduced then rr = sub else m ≤ rr) : (sukfLikelihood ⟨m, Ki⟩ ⟨m, p⟩ rr sub reduced).Safe :=
  sukfLikelihood_cover_safe m Ki p rr sub reduced hsub hK hrr

set_option maxRecDepth 8000 in
/-- GENUINE DEFECT (key `sukf-likelihood-noise-shrunk`): a valid configuration — measurement of 4 rows (sub-size 2, full noise
    covariance 4 × 4), one successful correction, the model then measures 2 rows (R is 2 × 2) — on which the query is NOT safe,
    neither at once nor after a skipped correction: `getNoiseCovarianceMatrix(1)` takes `R.block(2, 2, 2, 2)` of a 2 × 2 matrix.
    After a real correction, and in reduced mode, the same history is safe. -/
theorem unsafe_sukf_likelihood_noise_shrunk_counterexample :
    likqValid 2 2 4 2 1 ∧
    ¬ (likqCase 2 false 2 4 2 .queryOnly 1).Safe ∧ ¬ (likqCase 2 false 2 4 2 .skippedCorrect 1).Safe ∧
    (likqCase 2 false 2 4 2 .correct 1).Safe ∧ (likqCase 2 true 2 4 2 .queryOnly 1).Safe ∧
    ¬ (sukfLikelihood ⟨4, 1⟩ ⟨4, 7⟩ 2 2 false).Safe := by
  refine ⟨by decide, by decide, by decide, by decide, by decide, by decide⟩

set_option maxRecDepth 8000 in
/-- UKFCorrection (both constructors) and KFCorrection answer from their own members: the same histories are safe whatever the sizes -/
example : (likqCase 0 false 1 4 2 .queryOnly 2).Safe ∧ (likqCase 1 false 1 4 2 .skippedCorrect 2).Safe ∧
    (likqCase 3 false 1 4 2 .queryOnly 2).Safe ∧ (likqCase 3 false 1 2 4 .skippedCorrect 2).Safe := by
  refine ⟨by decide, by decide, by decide, by decide⟩
example : likqValid 2 2 4 6 3 ∧ likqCovered false 4 6 .skippedCorrect := by decide

end BFL.Bounds
