import BFL.Proofs.AnyBoxThrow
import Mathlib.Data.Finset.Card
/-
C20 helper lemmas, part 6: histories with exceptions refine the specification with exceptions; what a
client observes of a slot, and the number of live held objects of a type, are functions of the abstract
pool alone.
-/
namespace BFL.AnyBox

theorem aHeld_absPool (s : St) (k : Nat) : aHeld (absPool s) k = held s (.named k) := by
  unfold aHeld
  rw [absPool_apply]
  cases h : liveN s k with
  | false =>
    have hl : isLive s (.named k) = false := h
    simp [held_of_content_none (content_of_not_live hl)]
  | true => simp

theorem freeN_abs (n : Nat) (s : St) (k : Nat) :
    freeN n s k = (decide (k < n) && (absPool s k).isNone) := by
  unfold freeN
  rw [absPool_apply]
  cases liveN s k <;> simp

/-- which held value an operation copy-constructs can be read off the abstract pool -/
theorem specCopied_eq (n : Nat) (s : St) (op : Op) : specCopied n (absPool s) op = copied n s op := by
  cases op <;>
    simp only [specCopied, copied, ← freeN_abs, absPool_isSome, aHeld_absPool, typeOf_eq_held_tag]

/-- one operation, possibly run with the throwing probe armed, against the specification with exceptions -/
theorem stepX_refines {n : Nat} {s : St} (h : Inv n s) (x : Op × Bool) :
    absPool (stepX n s x).1 = (specStepX n (absPool s) x).1 ∧
    (stepX n s x).2 = (specStepX n (absPool s) x).2 := by
  obtain ⟨op, b⟩ := x
  unfold stepX specStepX
  rw [specCopied_eq]
  cases b with
  | false => exact step_refines h op
  | true =>
    cases hc : copied n s op with
    | none => exact step_refines h op
    | some v =>
      by_cases ht : v.tag = .thr
      · simp only [ht, if_true]
        obtain ⟨h1, h2⟩ := stepThrow_of_copied hc
        refine ⟨?_, h1⟩
        rcases h2 with e | e <;> rw [e]
        exact absPool_failedNew s
      · simp only [ht, if_false]
        exact step_refines h op

theorem runX_refines {n : Nat} (xs : List (Op × Bool)) {s : St} (h : Inv n s) :
    absPool (runX n s xs) = specRunX n (absPool s) xs := by
  induction xs generalizing s with
  | nil => rfl
  | cons x rest ih =>
    show absPool (runX n (stepX n s x).1 rest) = specRunX n (specStepX n (absPool s) x).1 rest
    rw [ih (inv_stepX x h), (stepX_refines h x).1]

/-- what a client observes of a slot (has_value, type(), every cast to every type) is a function of the
    abstract pool -/
theorem viewSlot_abs {s : St} (hown : Own s) (k : Nat) : viewSlot s k = specViewSlot (absPool s) k := by
  unfold viewSlot specViewSlot
  cases hl : liveN s k with
  | false => simp [absPool_of_dead hl]
  | true =>
    rw [absPool_of_live hl]
    have hty : typeOf s (.named k) = (held s (.named k)).map (·.tag) := typeOf_eq_held_tag s _
    have hhv : hasValue s (.named k) = (held s (.named k)).isSome := by
      unfold hasValue
      cases hc : content s (.named k) with
      | none => simp [held_of_content_none hc]
      | some i =>
        cases hh : s.heap i with
        | none => exact absurd hh (hown.live _ i hc)
        | some v => simp [held_def, hc, hh]
    have hp : ∀ t, deref s (castPtr s (some (.named k)) t) =
        if (held s (.named k)).map (·.tag) = some t then held s (.named k) else none := by
      intro t; rw [deref_castPtr, hty]
    simp only [if_true, castPtrConst, castRef, hp, hty, hhv]

/-! ### Counting live held objects -/

theorem length_filter_range (m : Nat) (p : Nat → Bool) :
    ((List.range m).filter p).length = ((Finset.range m).filter fun i => p i = true).card := by
  rw [← List.toFinset_card_of_nodup ((List.nodup_range).filter _)]
  congr 1
  ext i
  simp

/-- In a state satisfying the invariant, the number of live holder cells storing an object of type `t`
    equals the number of containers of the pool holding an object of type `t`. -/
theorem liveOfTag_abs {n : Nat} {s : St} (h : Inv n s) (t : Tag) :
    liveOfTag s t = specLiveOfTag n (absPool s) t := by
  unfold liveOfTag specLiveOfTag
  rw [length_filter_range, length_filter_range]
  symm
  refine Finset.card_bij (fun k _ => (content s (.named k)).getD 0) ?_ ?_ ?_
  · intro k hk
    simp only [Finset.mem_filter, Finset.mem_range, aHeld_absPool] at hk ⊢
    obtain ⟨_, hk2⟩ := hk
    cases hc : content s (.named k) with
    | none => simp [held_of_content_none hc] at hk2
    | some i =>
      have hh : held s (.named k) = s.heap i := by simp [held_def, hc]
      rw [hh] at hk2
      refine ⟨?_, by simpa using hk2⟩
      by_contra hge
      have := h.own.fresh i (Nat.le_of_not_lt hge)
      simp [this] at hk2
  · intro k1 hk1 k2 hk2 heq
    simp only [Finset.mem_filter, Finset.mem_range, aHeld_absPool] at hk1 hk2
    cases hc1 : content s (.named k1) with
    | none => simp [held_of_content_none hc1] at hk1
    | some i =>
      cases hc2 : content s (.named k2) with
      | none => simp [held_of_content_none hc2] at hk2
      | some j =>
        simp only [hc1, hc2, Option.getD_some] at heq
        subst heq
        have := h.own.inj _ _ i hc1 hc2
        cases this; rfl
  · intro i hi
    simp only [Finset.mem_filter, Finset.mem_range] at hi
    obtain ⟨_, hi2⟩ := hi
    have hne : s.heap i ≠ none := by
      intro e; simp [e] at hi2
    obtain ⟨a, ha⟩ := h.own.owned i hne
    cases a with
    | tmp => rw [h.content_tmp] at ha; cases ha
    | named k =>
      have hk : k < n := by
        by_contra hge
        have := h.bound k (Nat.le_of_not_lt hge)
        rw [content_of_not_live this] at ha; cases ha
      refine ⟨k, ?_, by simp [ha]⟩
      simp only [Finset.mem_filter, Finset.mem_range, aHeld_absPool]
      refine ⟨hk, ?_⟩
      have hh : held s (.named k) = s.heap i := by simp [held_def, ha]
      rw [hh]; exact hi2

end BFL.AnyBox
