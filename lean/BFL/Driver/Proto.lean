import BFL.Core.Mat
import BFL.Core.Num
/-
Token reader / writer for the line protocol shared by all driver modules.
A case line is `op tok tok …`; numbers are 16-hex-digit double bit patterns.
-/
namespace BFL.Proto

abbrev R := StateT (List String) Option

def tok : R String := do
  match (← get) with
  | [] => failure
  | t :: ts => set ts; pure t

def nat : R Nat := do
  let t ← tok
  match t.toNat? with
  | some n => pure n
  | none => failure

def bool : R Bool := do
  let n ← nat
  pure (n != 0)

def rat : R Rat := do
  let t ← tok
  match parseRatHex? t with
  | some q => pure q
  | none => failure

def flt : R Float := do
  let t ← tok
  match parseFloatHex? t with
  | some q => pure q
  | none => failure

def listOf {β : Type} (n : Nat) (p : R β) : R (List β) := do
  let mut acc : Array β := #[]
  for _ in [0:n] do
    acc := acc.push (← p)
  pure acc.toList

/-- Matrices travel column-major (Eigen's storage order). -/
def matCM {β : Type} [Inhabited β] (p : R β) (r c : Nat) : R (Mat β r c) := do
  let l ← listOf (r * c) p
  let arr := l.toArray
  pure (Mat.of (fun i j => arr[j.val * r + i.val]!))

def vec {β : Type} [Inhabited β] (p : R β) (n : Nat) : R (Vec β n) := do
  let l ← listOf n p
  let arr := l.toArray
  pure (Vec.of (fun i => arr[i.val]!))

def done : R Unit := do
  match (← get) with
  | [] => pure ()
  | _ => failure

def run {β : Type} (p : R β) (toks : List String) : Option β :=
  (p.run toks).map (·.1)

/-- column-major token list of a matrix -/
def outMatCM {β : Type} (f : β → String) {r c : Nat} (A : Mat β r c) : List String :=
  (List.finRange c).flatMap fun j => (List.finRange r).map fun i => f (A i j)

def outVec {β : Type} (f : β → String) {n : Nat} (v : Vec β n) : List String :=
  (List.finRange n).map fun i => f (v i)

def join (l : List String) : String := " ".intercalate l

end BFL.Proto
