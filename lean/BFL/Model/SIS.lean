import BFL.Model.Resample
/-
Model of the SIS particle-filter recursion.

  SIS::initialization_step, SIS::filtering_step      src/BayesFilters/src/SIS.cpp
  PFPrediction::predict, PFCorrection::correct       (skip dispatch)
  ParticleFilter::skip                               ("prediction" | "correction" | "all")
  BootstrapCorrection::correctStep                   w += log(likelihood + DBL_MIN) if the likelihood is valid
  DrawParticles::predictStep                         contract only (see `SisEvent.predict`)
  Resampling::{neff, resample}                       the model of `BFL/Model/Resample.lean`

One `SisEvent` is everything the environment contributes to one `filtering_step()`: the skip commands
issued since the previous step, whether `freeze_measurements()` succeeds, the likelihood the model
returns (validity flag and vector) and the effect of the prediction step.  The draws of the
resampler's generator are a stream in the state, consumed one per resampling.
-/
namespace BFL.PF

variable {π α : Type}

/-- `ParticleFilter::skip(what, status)` for the three step-level commands -/
inductive SkipCmd where
  | predOn | predOff      -- skip("prediction", true/false)
  | corOn | corOff        -- skip("correction", true/false)
  | allOn | allOff        -- skip("all", true/false)
  | other                 -- skip(<any other string>, ·): refused (`return false`), nothing changes
                          -- ("state" / "exogenous" are forwarded to the state model: C13's subject)
  deriving Repr, DecidableEq

/-- effect of a command on (`PFPrediction::skip_`, `PFCorrection::skip_`) -/
def applyCmd (f : Bool × Bool) : SkipCmd → Bool × Bool
  | .predOn => (true, f.2)
  | .predOff => (false, f.2)
  | .corOn => (f.1, true)
  | .corOff => (f.1, false)
  | .allOn => (true, true)
  | .allOff => (false, false)
  | .other => f

/-- return value of `ParticleFilter::skip` for the command -/
def cmdAccepted : SkipCmd → Bool
  | .other => false
  | _ => true

structure SisEvent (π α : Type) where
  /-- skip commands issued between the previous step and this one -/
  cmds : List SkipCmd
  /-- result of `correction().freeze_measurements()` -/
  freezeOk : Bool
  /-- first component of `LikelihoodModel::likelihood(...)` -/
  likValid : Bool
  /-- second component: one likelihood per particle -/
  lik : List α
  /-- `PFPrediction::predictStep(prev, pred)` of this step: previous corrected set and the current
      content of the output set ↦ new content of the output set -/
  predict : PSet π α → PSet π α → PSet π α
  /-- skip commands that arrive *during* the step, after `PFPrediction::predict` has read its flag and before
      `PFCorrection::correct` reads its own (`skip()` is an asynchronous command on atomic flags; e.g. issued
      while `freeze_measurements()` runs) -/
  cmdsMid : List SkipCmd := []
  /-- skip commands that arrive after `PFCorrection::correct` has read its flag (while the likelihood is
      evaluated, or later in the step): the step reads no flag after that point, they act on later steps only -/
  cmdsLate : List SkipCmd := []

structure SisCfg (α : Type) where
  /-- `num_particle_` -/
  N : Nat
  /-- `std::numeric_limits<double>::min()` -/
  tiny : α

structure SisState (π α : Type) where
  /-- `step_number()` -/
  step : Nat
  /-- `pred_particle_` -/
  pred : PSet π α
  /-- `cor_particle_` -/
  cor : PSet π α
  /-- `PFPrediction::skip_` -/
  skipPred : Bool
  /-- `PFCorrection::skip_` -/
  skipCor : Bool
  /-- future values of `distribution_res(generator_)` -/
  rng : List α
  /-- observables of the last step: did `resample` run, the parents it reported -/
  resampled : Bool
  parents : List Int

/-- constructor of `SIS` followed by `initialization_step()`:
    both sets are `ParticleSet(N, lin, circ)`; `initialize(pred_particle_)`. -/
def sisInit [Inhabited π] [Div α] [One α] [NatCast α] (cfg : SisCfg α) (lin circ : Nat)
    (init : PSet π α → PSet π α) (rng : List α) : SisState π α :=
  { step := 0, pred := init (PSet.fresh cfg.N lin circ), cor := PSet.fresh cfg.N lin circ,
    skipPred := false, skipCor := false, rng := rng, resampled := false, parents := [] }

/-- the two skip flags when the step starts (= when `PFPrediction::predict` reads its flag) -/
def sisFlags (s : SisState π α) (ev : SisEvent π α) : Bool × Bool :=
  ev.cmds.foldl applyCmd (s.skipPred, s.skipCor)

/-- the two skip flags when `PFCorrection::correct` reads its flag -/
def sisFlagsCor (s : SisState π α) (ev : SisEvent π α) : Bool × Bool :=
  ev.cmdsMid.foldl applyCmd (sisFlags s ev)

/-- the two skip flags when the step ends -/
def sisFlagsEnd (s : SisState π α) (ev : SisEvent π α) : Bool × Bool :=
  ev.cmdsLate.foldl applyCmd (sisFlagsCor s ev)

/-- `if (step_number() != 0) prediction().predict(cor_particle_, pred_particle_);`
    with `PFPrediction::predict`: `if (!skip_) predictStep(prev, pred); else pred = prev;` -/
def sisPredict (s : SisState π α) (ev : SisEvent π α) : PSet π α :=
  if s.step != 0 then
    (if !(sisFlags s ev).1 then ev.predict s.cor s.pred else s.cor)
  else s.pred

/-- `BootstrapCorrection::correctStep`: `cor = pred; if (valid) cor.weight() += log(lik + tiny)` -/
def bootstrapCorrect [Transc α] [Add α] (tiny : α) (valid : Bool) (lik : List α) (pred : PSet π α) : PSet π α :=
  if valid then { pred with logw := List.zipWith (fun w l => w + Transc.log (l + tiny)) pred.logw lik }
  else pred

/-- `GaussianLikelihood::likelihood` (the shipped `LikelihoodModel`): the measurement, the predicted
    measurements, the innovations and the noise covariance are asked of the measurement model in this
    order; the first failure returns `(false, VectorXd::Zero(1))`; otherwise the likelihood of particle
    `i` is `scale · N(innovationᵢ; 0, R)`.  `dens` is `utils::multivariate_gaussian_density(·, 0, R)`
    (C15's subject), `innov` the innovation columns. -/
def gaussianLikelihood {ι : Type} [Mul α] [Zero α] (scale : α) (okMeasure okPredicted okInnovation okCov : Bool)
    (dens : ι → α) (innov : List ι) : Bool × List α :=
  if !okMeasure then (false, [0])
  else if !okPredicted then (false, [0])
  else if !okInnovation then (false, [0])
  else if !okCov then (false, [0])
  else (true, innov.map (fun v => scale * dens v))

/-- the corrected set before the resampling decision:
    `if (freeze) { correct(pred, cor); cor.weight() -= log_sum_exp(cor.weight()); } else cor = pred;`
    with `PFCorrection::correct`: `if (!skip_) correctStep(pred, cor); else cor = pred;` -/
def sisCorrect [Transc α] [Add α] [Sub α] [Zero α] [LT α] [DecidableLT α] [Inhabited α]
    (cfg : SisCfg α) (s : SisState π α) (ev : SisEvent π α) : PSet π α :=
  let pred := sisPredict s ev
  if ev.freezeOk then
    let c := if !(sisFlagsCor s ev).2 then bootstrapCorrect cfg.tiny ev.likValid ev.lik pred else pred
    { c with logw := normalizeLog c.logw }
  else pred

/-- `resampling().neff(cor_particle_.weight()) < static_cast<double>(num_particle_)/3.0` -/
def sisTrigger [Transc α] [Add α] [Mul α] [Div α] [Zero α] [One α] [NatCast α] [LT α] [DecidableLT α]
    (cfg : SisCfg α) (cor : PSet π α) : Bool :=
  decide (neffLog cor.logw < (cfg.N : α) / ((3 : Nat) : α))

/-- one `SIS::filtering_step()` followed by `++filtering_step_`, for a resampling object `rs`
    (`resampling().resample(cor_particle_, res_particle, res_parent)`, virtual: `Resampling` or
    `ResamplingWithPrior`); `rs cor res u` gets the corrected set, the freshly constructed destination
    and the next draw of its generator -/
def sisStepWith [Transc α] [Add α] [Sub α] [Mul α] [Div α] [Neg α] [Zero α] [One α] [NatCast α]
    [LT α] [DecidableLT α] [Inhabited α] [Inhabited π]
    (rs : PSet π α → PSet π α → α → PSet π α × List Int)
    (cfg : SisCfg α) (s : SisState π α) (ev : SisEvent π α) : SisState π α :=
  let f := sisFlagsEnd s ev
  let pred := sisPredict s ev
  let cor := sisCorrect cfg s ev
  if sisTrigger cfg cor then
    -- ParticleSet res_particle(num_particle_, cor_particle_.dim_linear, cor_particle_.dim_circular);
    let r := rs cor (PSet.fresh cfg.N cor.lin cor.circ) (s.rng.headD default)
    { step := s.step + 1, pred := pred, cor := r.1, skipPred := f.1, skipCor := f.2,
      rng := s.rng.tail, resampled := true, parents := r.2 }
  else
    { step := s.step + 1, pred := pred, cor := cor, skipPred := f.1, skipCor := f.2,
      rng := s.rng, resampled := false, parents := [] }

/-- the step with the plain systematic resampler `Resampling` -/
def sisStep [Transc α] [Add α] [Sub α] [Mul α] [Div α] [Neg α] [Zero α] [One α] [NatCast α]
    [LT α] [DecidableLT α] [Inhabited α] [Inhabited π]
    (cfg : SisCfg α) (s : SisState π α) (ev : SisEvent π α) : SisState π α :=
  sisStepWith resample cfg s ev

/-- what `SIS::log()` hands to the logger inside `filtering_step()`: the predicted set and the corrected
    set *after* the normalisation and *before* the resampling decision (the call sits between them) -/
def sisLogged [Transc α] [Add α] [Sub α] [Zero α] [LT α] [DecidableLT α] [Inhabited α]
    (cfg : SisCfg α) (s : SisState π α) (ev : SisEvent π α) : PSet π α × PSet π α :=
  (sisPredict s ev, sisCorrect cfg s ev)

/-- A `reset()` seen by `FilteringAlgorithm::filtering_recursion`: the step counter returns to 0 and
    `initialization_step()` runs again — on the *existing* `pred_particle_` (the sets are not rebuilt).
    The corrected set, both skip flags and the resampler's generator are carried into the new epoch. -/
def sisReinit (init : PSet π α → PSet π α) (s : SisState π α) : SisState π α :=
  { s with step := 0, pred := init s.pred, resampled := false, parents := [] }

/-- one item of a filter's life: a filtering step, or a reset followed by re-initialisation (with the
    initialisation model as it is at that time) -/
inductive SisOp (π α : Type) where
  | step (ev : SisEvent π α)
  | reset (init : PSet π α → PSet π α)

/-- a whole life: epochs separated by resets -/
def sisRun [Transc α] [Add α] [Sub α] [Mul α] [Div α] [Neg α] [Zero α] [One α] [NatCast α]
    [LT α] [DecidableLT α] [Inhabited α] [Inhabited π]
    (rs : PSet π α → PSet π α → α → PSet π α × List Int) (cfg : SisCfg α) (s : SisState π α) (ops : List (SisOp π α)) : SisState π α :=
  ops.foldl (fun st op => match op with
    | .step ev => sisStepWith rs cfg st ev
    | .reset init => sisReinit init st) s

end BFL.PF
