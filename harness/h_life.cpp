// C09 — schedule-driven correspondence harness for bfl::FilteringAlgorithm.
//
// A probe subclass holds the real filtering thread at its parking places (the six
// verif_schedule_point hooks, the entry of initialization_step / filtering_step / run_condition,
// and the entry of the condition wait) until the scheduler — the main thread of a forked child,
// driven by the case line — lets it go.  Nothing here depends on timing for its *result*:
//  * arrival at a parking place is signalled through a semaphore;
//  * "parked inside the condition wait" is established by interposing pthread_cond_wait (the
//    filtering thread stops at its entry, mutex held = place `k`; once released into the real
//    wait, verif_lock_unlock() returning proves it has released the mutex = place `w`);
//  * whether a command notified is read from interposed pthread_cond_signal/broadcast; a
//    notification sent while the thread is inside the wait is followed by an arrival (at `2` or
//    back at `k`), which the scheduler waits for without any time-out;
//  * a schedule that hangs the implementation is cut by the parent's watchdog and reported as
//    `hang` after the words already produced.
// The only timed element is the grace period of an *asynchronous* command (upper-case token:
// issued from a helper thread while the filtering thread holds the mutex at `k`): a correct,
// locking command can never complete within it, so the period only decides how reliably a
// command that wrongly does not lock is caught — never whether correct code passes.
//
//   life <watchdog_ms> tok…          see lean/BFL/Driver/Life.lean for tokens and output words
//   lifesis <watchdog_ms> tok…       the same schedule on a real bfl::SIS (DrawParticles + BootstrapCorrection on
//        harness-defined LTI models): SIS::filtering_step() predicts unless step_number() == 0; a prediction
//        is logged as event P between S<k> and E<k>
//   free <watchdog_ms> <true_calls> tok…   free-running run: no parking; run_condition() is true
//        for its first <true_calls> calls; tokens r s b t (commands), y (yield), z<us> (sleep), j
//        output: totally ordered log of events and command begin/end marks, then J:<run>:<step>
#include <BayesFilters/FilteringAlgorithm.h>
#include <BayesFilters/SIS.h>
#include <BayesFilters/DrawParticles.h>
#include <BayesFilters/BootstrapCorrection.h>
#include <BayesFilters/LTIStateModel.h>
#include <BayesFilters/LTIMeasurementModel.h>
#include <BayesFilters/LikelihoodModel.h>
#include <BayesFilters/ParticleSetInitialization.h>
#include <BayesFilters/Resampling.h>

#include <atomic>
#include <cerrno>
#include <cmath>
#include <memory>
#include <cstdio>
#include <functional>
#include <cstdlib>
#include <cstring>
#include <iostream>
#include <sstream>
#include <string>
#include <thread>
#include <vector>

#include <dlfcn.h>
#include <fcntl.h>
#include <poll.h>
#include <pthread.h>
#include <semaphore.h>
#include <signal.h>
#include <sys/wait.h>
#include <time.h>
#include <unistd.h>

namespace {

thread_local bool tl_filter = false;       // set by the probe on the filtering thread (first schedule point)
thread_local bool tl_ctl = false;          // set on the scheduler's own threads (controller side)
std::atomic<bool> g_wait_returned{false};  // wait() has returned to the controller
std::atomic<bool> g_ended{false};          // the filtering thread passed its last schedule point
std::atomic<bool> g_late_logged{false};
// the filtering thread's condition wait, implemented here so that a woken thread can be held
// before it re-acquires the mutex (place `v`)
std::atomic<bool> g_w_active{false};
pthread_cond_t* g_w_cond = nullptr;
sem_t g_w_sem;
std::atomic<bool> g_fail_create{false};    // the next pthread_create fails (boot() cannot start the thread)
std::atomic<bool> g_split{false};          // hold the controller at schedule point 6 (between reboot()'s stores)
std::atomic<bool> g_at6{false};
sem_t g_ctl_arrive, g_ctl_go;
std::atomic<int> g_wakes{0};               // notifications that reached the waiting thread
std::atomic<bool> g_free{false};           // parking disabled (free run)
std::atomic<bool> g_free_op{false};        // the `free` operation (logs the end mark)
std::atomic<bool> g_rc{false};             // value run_condition() returns when released
std::atomic<long> g_true_calls{0};         // free mode: remaining `true` answers of run_condition()
std::atomic<int> g_place{'?'};
std::atomic<int> g_signals{0};             // notifications sent by threads other than the filtering thread
std::atomic<bool> g_in_wait{false};
sem_t g_arrive, g_go;
pthread_mutex_t g_q_mtx = PTHREAD_MUTEX_INITIALIZER;
std::vector<int> g_q;                      // places reached, in order (one per post of g_arrive)
size_t g_q_head = 0;

void post_arrival(int place) {
    pthread_mutex_lock(&g_q_mtx);
    g_q.push_back(place);
    pthread_mutex_unlock(&g_q_mtx);
    sem_post(&g_arrive);
}
pthread_mutex_t g_log_mtx = PTHREAD_MUTEX_INITIALIZER;
std::vector<std::string> g_log;            // events (filtering thread) and marks (controller)

void logev(const std::string& s) {
    pthread_mutex_lock(&g_log_mtx);
    g_log.push_back(s);
    pthread_mutex_unlock(&g_log_mtx);
}

// the filtering thread reached a parking place
void arrive(int place) {
    if (g_free.load()) return;
    post_arrival(place);
    while (sem_wait(&g_go) != 0) {}
}

typedef int (*cw_t)(pthread_cond_t*, pthread_mutex_t*);
typedef int (*cs_t)(pthread_cond_t*);

void* next_sym(const char* name) {
    void* p = dlvsym(RTLD_NEXT, name, "GLIBC_2.3.2");
    if (!p) p = dlsym(RTLD_NEXT, name);
    if (!p) { std::fprintf(stderr, "cannot resolve %s\n", name); std::abort(); }
    return p;
}

}  // namespace

void wake_waiter(pthread_cond_t* c) {
    if (g_w_active.load() && (c == nullptr || c == g_w_cond)) {
        bool exp = true;
        if (g_w_active.compare_exchange_strong(exp, false)) { g_wakes.fetch_add(1); sem_post(&g_w_sem); }
    }
}

extern "C" int pthread_cond_wait(pthread_cond_t* c, pthread_mutex_t* m) {
    static cw_t real = (cw_t)next_sym("pthread_cond_wait");
    if (!tl_filter || g_free_op.load()) return real(c, m);
    // scheduled run: semaphore-based wait with the standard semantics (registration under the mutex)
    arrive('k');                            // predicate evaluated false, mutex held
    g_w_cond = c;
    g_w_active.store(true);
    pthread_mutex_unlock(m);
    g_in_wait.store(true);
    if (!g_free.load()) post_arrival('w');   // parked, mutex released
    while (sem_wait(&g_w_sem) != 0) {}
    g_in_wait.store(false);
    arrive('v');                            // woken, mutex not yet re-acquired
    pthread_mutex_lock(m);
    return 0;
}

typedef int (*pc_t)(pthread_t*, const pthread_attr_t*, void* (*)(void*), void*);
extern "C" int pthread_create(pthread_t* t, const pthread_attr_t* a, void* (*fn)(void*), void* arg) {
    static pc_t real = (pc_t)dlsym(RTLD_NEXT, "pthread_create");
    if (g_fail_create.exchange(false)) return EAGAIN;
    return real(t, a, fn, arg);
}

extern "C" int pthread_cond_signal(pthread_cond_t* c) {
    static cs_t real = (cs_t)next_sym("pthread_cond_signal");
    if (!tl_filter) { g_signals.fetch_add(1); wake_waiter(c); }
    return real(c);
}

extern "C" int pthread_cond_broadcast(pthread_cond_t* c) {
    static cs_t real = (cs_t)next_sym("pthread_cond_broadcast");
    if (!tl_filter) { g_signals.fetch_add(1); wake_waiter(c); }
    return real(c);
}

namespace {

// a callback made by a thread of the controller side, or after wait() has returned, is recorded
bool foreign(const char* what) {
    if (tl_ctl) { logev(std::string("X") + what); return true; }
    if (g_wait_returned.load() && !g_late_logged.exchange(true)) logev("A");
    return false;
}

// the probe's callbacks, shared by the bare probe and the SIS probe (`real` = what the base class does)
bool hook_init(const std::function<void()>& real) {
    if (foreign("I")) return true;
    logev("I");
    real();
    arrive('i');
    // the result is an input of the schedule like run_condition()'s (digit of the releasing `a`)
    return g_free.load() ? true : g_rc.load();
}
void hook_step(const std::function<unsigned()>& number, const std::function<void()>& real) {
    if (foreign("S")) return;
    logev("S" + std::to_string(number()));
    arrive('s');
    real();
    logev("E" + std::to_string(number()));
}
bool hook_cond() {
    if (foreign("C")) return false;
    arrive('c');
    if (g_free.load()) return g_true_calls.fetch_sub(1) > 0;
    return g_rc.load();
}
void hook_point(int p) {
    if (p == 6) {                       // inside reboot(), on the controller's thread, mutex held
        if (g_split.exchange(false)) { g_at6.store(true); sem_post(&g_ctl_arrive); while (sem_wait(&g_ctl_go) != 0) {} }
        return;
    }
    if (foreign("P")) return;
    tl_filter = true;
    if (p == 5) {                       // after the final store: the thread ends, nothing to hold
        g_ended.store(true);
        if (!g_free.load()) post_arrival('f');
        return;
    }
    if (p == 4 && g_free_op.load()) logev("P");   // free run: the final store has not happened yet
    arrive('0' + p);
}

class Probe : public bfl::FilteringAlgorithm {
public:
    bool skip(const std::string&, const bool) override { return false; }

protected:
    bool initialization_step() override { return hook_init([] {}); }
    void filtering_step() override { hook_step([this] { return step_number(); }, [] {}); }
    bool run_condition() override { return hook_cond(); }
    void verif_schedule_point(int p) override { hook_point(p); }
};

// ---- a real SIS under the same scheduler: its filtering_step() consults step_number()
using namespace Eigen;
static MatrixXd sF() { MatrixXd F(2, 2); F << 0.9, 0.1, 0.0, 0.8; return F; }
static MatrixXd sQ() { MatrixXd Q(2, 2); Q << 0.05, 0.0, 0.0, 0.04; return Q; }
static MatrixXd sH() { MatrixXd H(1, 2); H << 1.0, 0.5; return H; }
static MatrixXd sR() { MatrixXd R(1, 1); R << 0.2; return R; }

struct SState : public bfl::LTIStateModel {
    SState() : LTIStateModel(sF(), sQ()) {}
    bfl::VectorDescription getStateDescription() override { return bfl::VectorDescription(2); }
    MatrixXd getNoiseSample(const std::size_t num) override { return MatrixXd::Constant(2, num, 0.01); }
    VectorXd getTransitionProbability(const Ref<const MatrixXd>&, const Ref<const MatrixXd>& cur) override { return VectorXd::Ones(cur.cols()); }
};
struct SMeas : public bfl::LTIMeasurementModel {
    SMeas() : LTIMeasurementModel(sH(), sR()) {}
    bool freeze(const bfl::Data&) override { return true; }
    std::pair<bool, bfl::Data> measure(const bfl::Data&) const override { MatrixXd y(1, 1); y << 1.0; return std::make_pair(true, bfl::Data(y)); }
    bfl::VectorDescription getInputDescription() const override { return bfl::VectorDescription(2, 0, 1); }
    bfl::VectorDescription getMeasurementDescription() const override { return bfl::VectorDescription(1); }
};
struct SLik : public bfl::LikelihoodModel {
    std::pair<bool, VectorXd> likelihood(const bfl::MeasurementModel&, const Ref<const MatrixXd>& states) override {
        return std::make_pair(true, VectorXd::Constant(states.cols(), 0.5));
    }
};
struct SInit : public bfl::ParticleSetInitialization {
    bool initialize(bfl::ParticleSet& p) override {
        for (long i = 0; i < p.state().cols(); ++i) p.state(i) << 0.1 * (i % 5), -0.1 * (i % 3);
        p.weight().setConstant(-std::log(static_cast<double>(p.state().cols())));
        return true;
    }
};
// the prediction that is actually carried out (PFPrediction::predict calls predictStep unless skipping) is an event
struct SDraw : public bfl::DrawParticles {
    using DrawParticles::DrawParticles;
protected:
    void predictStep(const bfl::ParticleSet& prev, bfl::ParticleSet& pred) override { logev("P"); DrawParticles::predictStep(prev, pred); }
};

class ProbeSIS : public bfl::SIS {
public:
    using SIS::SIS;
protected:
    bool initialization_step() override { return hook_init([this] { (void) bfl::SIS::initialization_step(); }); }
    void filtering_step() override { hook_step([this] { return step_number(); }, [this] { bfl::SIS::filtering_step(); }); }
    bool run_condition() override { (void) bfl::SIS::run_condition(); return hook_cond(); }
    void verif_schedule_point(int p) override { hook_point(p); }
};

bfl::FilteringAlgorithm* make_filter(bool sis) {
    if (!sis) return new Probe();
    return new ProbeSIS(8, 2,
        std::unique_ptr<bfl::ParticleSetInitialization>(new SInit()),
        std::unique_ptr<bfl::PFPrediction>(new SDraw(std::unique_ptr<bfl::StateModel>(new SState()))),
        std::unique_ptr<bfl::PFCorrection>(new bfl::BootstrapCorrection(std::unique_ptr<bfl::MeasurementModel>(new SMeas()), std::unique_ptr<bfl::LikelihoodModel>(new SLik()))),
        std::unique_ptr<bfl::Resampling>(new bfl::Resampling(1)));
}

int wait_arrival() {
    while (sem_wait(&g_arrive) != 0) {}
    pthread_mutex_lock(&g_q_mtx);
    int p = g_q[g_q_head++];
    pthread_mutex_unlock(&g_q_mtx);
    return p;
}

void emit(int fd, const std::string& w) {
    std::string s = w + " ";
    size_t off = 0;
    while (off < s.size()) {
        ssize_t n = write(fd, s.data() + off, s.size() - off);
        if (n <= 0) _exit(3);
        off += (size_t)n;
    }
}

void sleep_us(long us) { struct timespec ts; ts.tv_sec = us / 1000000; ts.tv_nsec = (us % 1000000) * 1000; nanosleep(&ts, nullptr); }

void do_cmd(bfl::FilteringAlgorithm& f, char c) {
    switch (c) {
        case 'r': f.run(); break;
        case 's': f.reset(); break;
        case 'b': f.reboot(); break;
        case 't': f.teardown(); break;
        default: break;
    }
}

std::string take_events(size_t& seen) {
    std::string out;
    pthread_mutex_lock(&g_log_mtx);
    for (; seen < g_log.size(); ++seen) { if (!out.empty()) out += "."; out += g_log[seen]; }
    pthread_mutex_unlock(&g_log_mtx);
    return out.empty() ? "-" : out;
}

const long GRACE_US = 15000;

// ---------------------------------------------------------------------------- scheduled run (child)
void run_life(int fd, const std::vector<std::string>& toks, bool sis) {
    sem_init(&g_arrive, 0, 0);
    sem_init(&g_go, 0, 0);
    sem_init(&g_w_sem, 0, 0);
    sem_init(&g_ctl_arrive, 0, 0);
    sem_init(&g_ctl_go, 0, 0);
    std::thread* rb = nullptr;              // reboot() held between its two stores
    bool released_into_mutex = false;       // the thread was let go towards the mutex rb holds
    int rb_w0 = 0;
    tl_ctl = true;
    bfl::FilteringAlgorithm* f = make_filter(sis);   // never destroyed: the child leaves with _exit
    size_t seen = 0;
    int cur;                                // parking place of the filtering thread
    std::thread* helper = nullptr;          // asynchronous command not yet completed
    std::atomic<bool>* helper_done = nullptr;
    int helper_w0 = 0;

    bool fail_boot = !toks.empty() && toks[0] == "F";
    if (fail_boot) g_fail_create.store(true);
    bool booted = f->boot();
    if (fail_boot) {
        if (booted) { emit(fd, "F:booted"); return; }
        cur = 'f'; g_ended.store(true);     // there is no filtering thread
    } else {
        if (!booted) { emit(fd, "boot-failed"); return; }
        cur = wait_arrival();
    }

    auto observe = [&](const std::string& tok, const char* mark) {
        std::ostringstream o;
        o << tok << ':' << take_events(seen) << ':' << (char)cur << ':' << (f->is_running() ? 1 : 0) << ':' << f->step_number() << mark;
        emit(fd, o.str());
    };
    // a notification that reached the thread inside the wait is followed by its arrival at `v`
    auto after_cmd = [&](int w0) {
        if (cur == 'w' && g_wakes.load() > w0) { cur = wait_arrival(); }
    };
    auto finish_helper = [&]() {
        helper->join();
        delete helper; helper = nullptr;
        delete helper_done; helper_done = nullptr;
    };
    auto start_helper = [&](std::function<void()> fn) {
        helper_done = new std::atomic<bool>(false);
        std::atomic<bool>* flag = helper_done;
        helper = new std::thread([fn, flag] { tl_ctl = true; fn(); flag->store(true); });
        long waited = 0;
        while (!helper_done->load() && waited < GRACE_US) { sleep_us(250); waited += 250; }
        return helper_done->load();
    };

    for (const std::string& tok : toks) {
        char c = tok[0];
        if (tok == "F") {
            observe(tok, "");
        } else if (tok == "b1") {                  // reboot() up to the point between its two stores
            if (rb || helper) { emit(fd, "bad-schedule"); return; }
            rb_w0 = g_wakes.load();
            g_split.store(true);
            g_at6.store(false);
            rb = new std::thread([f] { tl_ctl = true; f->reboot(); sem_post(&g_ctl_arrive); });
            while (sem_wait(&g_ctl_arrive) != 0) {}
            if (!g_at6.load()) { rb->join(); emit(fd, "b1:nohook"); return; }
            observe(tok, "");
        } else if (tok == "b2") {           // second store, notification, unlock
            if (!rb) { emit(fd, "bad-schedule"); return; }
            sem_post(&g_ctl_go);
            while (sem_wait(&g_ctl_arrive) != 0) {}
            rb->join(); delete rb; rb = nullptr;
            if (released_into_mutex) { cur = wait_arrival(); released_into_mutex = false; }
            else after_cmd(rb_w0);
            observe(tok, "");
        } else if (c == 'r' || c == 's' || c == 'b' || c == 't') {
            int w0 = g_wakes.load();
            do_cmd(*f, c);
            after_cmd(w0);
            observe(tok, "");
        } else if (c == 'R' || c == 'S' || c == 'B' || c == 'T') {
            if (helper) { emit(fd, "bad-schedule"); return; }
            helper_w0 = g_wakes.load();
            char lc = (char)(c - 'A' + 'a');
            if (start_helper([f, lc] { do_cmd(*f, lc); })) {   // completed although the thread holds the mutex
                finish_helper();
                after_cmd(helper_w0);
                observe(tok, ":n");
            } else {
                observe(tok, ":d");
            }
        } else if (c == 'u') {                                  // spurious wake-up
            int w0 = g_wakes.load();
            if (cur == 'w') wake_waiter(nullptr);
            after_cmd(w0);
            observe(tok, "");
        } else if (c == 'a') {
            g_rc.store(tok.size() > 1 && tok[1] == '1');
            if (cur == 'k') {
                sem_post(&g_go);            // registers as waiter, releases the mutex, parks
                cur = wait_arrival();
                if (helper) { finish_helper(); after_cmd(helper_w0); }   // completes once the mutex is free
                else if (cur == 'w') f->verif_lock_unlock();
            } else if (rb && (cur == '1' || cur == 'v')) {
                // the next thing the thread does is lock the mutex reboot() holds: it moves on at b2
                if (!released_into_mutex) { sem_post(&g_go); released_into_mutex = true; }
            } else if (cur != 'w' && cur != 'f') {
                sem_post(&g_go);
                cur = wait_arrival();
            }
            observe(tok, "");
        } else if (c == 'j') {
            bool held = (cur != 'w' && cur != 'f');
            bool ok = true;
            g_true_calls.store(tok == "jt" ? (1L << 50) : 0);   // jt: run_condition() stays true
            if (tok == "jw" && !helper) {   // (with a deferred command pending, jw is carried out as j)
                // wait() is called while the thread is still held: it must not return before the thread has ended
                bool* okp = &ok;
                bool early = start_helper([f, okp] { *okp = f->wait(); });
                if (early && !g_ended.load()) { finish_helper(); emit(fd, "jw:early"); return; }
                g_free.store(true);
                if (held) sem_post(&g_go);
                finish_helper();
            } else {
                g_free.store(true);
                if (held) sem_post(&g_go);
                if (helper) finish_helper();
                ok = f->wait();             // a second wait() finds the thread not joinable and returns true
            }
            g_wait_returned.store(true);
            if (!ok) { emit(fd, "wait-false"); return; }
            if (!g_ended.load()) { emit(fd, tok + ":alive"); return; }   // returned although the thread has not ended
            cur = 'f';
            observe(tok, "");
        } else {
            emit(fd, "bad-token");
            return;
        }
    }
    if (helper) { emit(fd, "pending-at-end"); }
}

// ---------------------------------------------------------------------------- free run (child)
void run_free(int fd, const std::vector<std::string>& toks0) {
    tl_ctl = true;
    sem_init(&g_arrive, 0, 0);
    sem_init(&g_go, 0, 0);
    g_free.store(true);
    g_free_op.store(true);
    std::vector<std::string> toks(toks0);
    if (toks.empty()) { emit(fd, "bad-args"); return; }
    g_true_calls.store(std::atol(toks[0].c_str()));
    bfl::FilteringAlgorithm* f = make_filter(false);
    if (!f->boot()) { emit(fd, "boot-failed"); return; }
    for (size_t i = 1; i < toks.size(); ++i) {
        const std::string& tok = toks[i];
        char c = tok[0];
        if (c == 'r' || c == 's' || c == 'b' || c == 't') {
            logev(std::string("<") + c);
            do_cmd(*f, c);
            logev(std::string(">") + c);
        } else if (c == 'y') {
            sched_yield();
        } else if (c == 'z') {
            sleep_us(std::atol(tok.c_str() + 1));
        } else if (c == 'j') {
            f->wait();
            g_wait_returned.store(true);
            logev("J:" + std::to_string(f->is_running() ? 1 : 0) + ":" + std::to_string(f->step_number()));
        } else { emit(fd, "bad-token"); return; }
    }
    size_t seen = 0;
    emit(fd, take_events(seen));
}

// ---------------------------------------------------------------------------- parent: one child per case
std::string run_case(const std::string& op, long watchdog_ms, const std::vector<std::string>& toks) {
    int p[2];
    if (pipe(p) != 0) return "pipe-failed";
    std::cout.flush();
    pid_t pid = fork();
    if (pid < 0) return "fork-failed";
    if (pid == 0) {
        close(p[0]);
        // the library reports some conditions on std::cout / std::cerr; keep them out of the protocol
        int dn = open("/dev/null", O_WRONLY);
        if (dn >= 0) { dup2(dn, 1); close(dn); }
        if (op == "life" || op == "lifesis") run_life(p[1], toks, op == "lifesis"); else run_free(p[1], toks);
        close(p[1]);
        _exit(0);
    }
    close(p[1]);
    std::string out;
    struct timespec t0; clock_gettime(CLOCK_MONOTONIC, &t0);
    bool hang = false;
    for (;;) {
        struct timespec t1; clock_gettime(CLOCK_MONOTONIC, &t1);
        long el = (t1.tv_sec - t0.tv_sec) * 1000 + (t1.tv_nsec - t0.tv_nsec) / 1000000;
        long left = watchdog_ms - el;
        if (left <= 0) { hang = true; break; }
        struct pollfd pf; pf.fd = p[0]; pf.events = POLLIN; pf.revents = 0;
        int r = poll(&pf, 1, (int)left);
        if (r < 0) { if (errno == EINTR) continue; break; }
        if (r == 0) { hang = true; break; }
        char buf[4096];
        ssize_t n = read(p[0], buf, sizeof buf);
        if (n <= 0) break;                  // end of file: the child is done
        out.append(buf, (size_t)n);
    }
    close(p[0]);
    int status = 0;
    if (hang) { kill(pid, SIGKILL); waitpid(pid, &status, 0); out += "hang"; }
    else {
        waitpid(pid, &status, 0);
        if (WIFSIGNALED(status)) out += "crash:signal" + std::to_string(WTERMSIG(status));
        else if (WIFEXITED(status) && WEXITSTATUS(status) != 0) out += "crash:exit" + std::to_string(WEXITSTATUS(status));
    }
    while (!out.empty() && out.back() == ' ') out.pop_back();
    return out.empty() ? "empty" : out;
}

}  // namespace

int main() {
    // after this many schedules cut by the watchdog the rest of the input is answered `skipped`
    // (a broken implementation must not cost one time-out per schedule)
    const char* lim = std::getenv("H_LIFE_MAX_HANGS");
    long max_hangs = lim ? std::atol(lim) : 1000000, hangs = 0;
    std::string line;
    while (std::getline(std::cin, line)) {
        if (hangs >= max_hangs) { std::cout << "skipped\n"; continue; }
        std::istringstream is(line);
        std::string op, w;
        std::vector<std::string> toks;
        is >> op;
        long watchdog = 0;
        if (is >> w) watchdog = std::atol(w.c_str());
        while (is >> w) toks.push_back(w);
        if ((op != "life" && op != "lifesis" && op != "free") || watchdog <= 0) { std::cout << "bad-op\n"; continue; }
        std::string res = run_case(op, watchdog, toks);
        // an expected hang (short watchdog, chosen by the check) does not count
        if (res.size() >= 4 && res.compare(res.size() - 4, 4, "hang") == 0 && watchdog > 1000) ++hangs;
        std::cout << res << "\n";
        std::cout.flush();
    }
    return 0;
}
