import BFL.Model.Resample
import Mathlib.Algebra.Order.Field.Basic
import Mathlib.Algebra.Order.Floor.Ring
import Mathlib.Algebra.BigOperators.Group.List.Basic
import Mathlib.Algebra.Order.BigOperators.Group.List
import Mathlib.Order.Interval.Finset.Nat
import Mathlib.Data.Int.Interval
import Mathlib.Tactic.Linarith
import Mathlib.Tactic.Positivity
import Mathlib.Tactic.FieldSimp
import Mathlib.Tactic.Ring
/-
Helper lemmas for C07: the pointer loop of systematic resampling.

Part 1 (no order structure): what `advance`/`selectLoop` compute, by induction on the fuel.
Part 2 (linearly ordered field): the pointer after comb point `j` is the least index whose
cumulative weight reaches `u_j`, clamped at `N - 1`.
Part 3 (floor): the number of comb points in a half-open interval `(a, b]`.
-/
namespace BFL.PF

/-! ### Part 1: the loop -/
section loop
variable {α : Type} [LT α] [DecidableLT α]

theorem le_advance (c : Nat → α) (N : Nat) (u : α) (fuel idx : Nat) :
    idx ≤ advance c N u fuel idx := by
  induction fuel generalizing idx with
  | zero => simp [advance]
  | succ f ih =>
    rw [advance]; split
    · exact Nat.le_trans (Nat.le_succ _) (ih _)
    · exact Nat.le_refl _

theorem advance_le (c : Nat → α) (N : Nat) (u : α) (fuel idx : Nat) (h : idx ≤ N - 1) :
    advance c N u fuel idx ≤ N - 1 := by
  induction fuel generalizing idx with
  | zero => simpa [advance] using h
  | succ f ih =>
    rw [advance]; split
    · next hc => exact ih _ (by omega)
    · exact h

/-- every index the pointer stepped over has cumulative weight below `u` -/
theorem advance_passed (c : Nat → α) (N : Nat) (u : α) (fuel idx i : Nat)
    (h1 : idx ≤ i) (h2 : i < advance c N u fuel idx) : c i < u := by
  induction fuel generalizing idx with
  | zero => simp [advance] at h2; omega
  | succ f ih =>
    rw [advance] at h2; split at h2
    · next hc =>
      by_cases hi : i = idx
      · subst hi; exact hc.1
      · exact ih _ (by omega) h2
    · omega

/-- with enough fuel the loop ends because its condition is false (not because fuel ran out) -/
theorem advance_stop (c : Nat → α) (N : Nat) (u : α) (fuel idx : Nat) (h : N - 1 ≤ idx + fuel) :
    ¬ (c (advance c N u fuel idx) < u ∧ advance c N u fuel idx < N - 1) := by
  induction fuel generalizing idx with
  | zero => simp only [advance]; intro hc; omega
  | succ f ih =>
    rw [advance]; split
    · exact ih _ (by omega)
    · next hc => exact hc

/-- the loop only reads cumulative weights below `N - 1` -/
theorem advance_congr (c c' : Nat → α) (N : Nat) (u : α) (hc : ∀ i, i < N - 1 → c i = c' i) (fuel idx : Nat) :
    advance c N u fuel idx = advance c' N u fuel idx := by
  induction fuel generalizing idx with
  | zero => rfl
  | succ f ih =>
    rw [advance, advance]
    by_cases h : idx < N - 1
    · rw [hc idx h, ih]
    · simp [h]

variable [Add α] [Div α] [NatCast α]

/-- the pointer after comb point `j` has been served -/
def ptr (c : Nat → α) (N : Nat) (u1 : α) : Nat → Nat
  | 0 => advance c N (comb N u1 0) N 0
  | j + 1 => advance c N (comb N u1 (j + 1)) N (ptr c N u1 j)

/-- the pointer when comb point `j` is about to be served -/
def ptrPrev (c : Nat → α) (N : Nat) (u1 : α) : Nat → Nat
  | 0 => 0
  | j + 1 => ptr c N u1 j

theorem ptr_eq (c : Nat → α) (N : Nat) (u1 : α) (j : Nat) :
    ptr c N u1 j = advance c N (comb N u1 j) N (ptrPrev c N u1 j) := by
  cases j <;> rfl

theorem selectLoop_eq (c : Nat → α) (N : Nat) (u1 : α) (todo j : Nat) :
    selectLoop c N u1 todo j (ptrPrev c N u1 j) = (List.range' j todo).map (ptr c N u1) := by
  induction todo generalizing j with
  | zero => rfl
  | succ t ih =>
    rw [selectLoop, List.range'_succ, List.map_cons, ← ptr_eq]
    exact congrArg _ (ih (j + 1))

theorem select_eq (c : Nat → α) (N : Nat) (u1 : α) :
    select c N u1 = (List.range N).map (ptr c N u1) := by
  rw [select, List.range_eq_range']
  exact selectLoop_eq c N u1 N 0

theorem ptr_congr (c c' : Nat → α) (N : Nat) (u1 : α) (hc : ∀ i, i < N - 1 → c i = c' i) (j : Nat) :
    ptr c N u1 j = ptr c' N u1 j := by
  induction j with
  | zero => simp only [ptr]; exact advance_congr c c' N _ hc N 0
  | succ j ih => simp only [ptr]; rw [ih]; exact advance_congr c c' N _ hc N _

theorem ptrPrev_le (c : Nat → α) (N : Nat) (u1 : α) (j : Nat) : ptrPrev c N u1 j ≤ N - 1 ∧ ptr c N u1 j ≤ N - 1 := by
  induction j with
  | zero =>
    refine ⟨Nat.zero_le _, ?_⟩
    simp only [ptr]; exact advance_le c N _ N 0 (Nat.zero_le _)
  | succ j ih =>
    refine ⟨ih.2, ?_⟩
    simp only [ptr]; exact advance_le c N _ N _ ih.2

theorem ptr_le (c : Nat → α) (N : Nat) (u1 : α) (j : Nat) : ptr c N u1 j ≤ N - 1 := (ptrPrev_le c N u1 j).2

theorem ptr_succ_ge (c : Nat → α) (N : Nat) (u1 : α) (j : Nat) : ptr c N u1 j ≤ ptr c N u1 (j + 1) := by
  simp only [ptr]; exact le_advance c N _ N _

theorem ptr_mono (c : Nat → α) (N : Nat) (u1 : α) : Monotone (ptr c N u1) :=
  monotone_nat_of_le_succ (ptr_succ_ge c N u1)

/-- exit test of the `while`, with the role of the clamp `idx < N - 1` explicit -/
theorem ptr_stop (c : Nat → α) (N : Nat) (u1 : α) (j : Nat) :
    ¬ (c (ptr c N u1 j) < comb N u1 j) ∨ ptr c N u1 j = N - 1 := by
  have h := advance_stop c N (comb N u1 j) N (ptrPrev c N u1 j) (by omega)
  rw [← ptr_eq] at h
  have hle := ptr_le c N u1 j
  by_cases h1 : c (ptr c N u1 j) < comb N u1 j
  · right
    have : ¬ ptr c N u1 j < N - 1 := fun h2 => h ⟨h1, h2⟩
    omega
  · left; exact h1

end loop

/-! ### Part 2: ordered field -/
section field
variable {α : Type} [Field α] [LinearOrder α] [IsStrictOrderedRing α]

theorem comb_mono (N : Nat) (u1 : α) : Monotone (comb N u1) := by
  intro j k h
  unfold comb
  have : (j : α) / (N : α) ≤ (k : α) / (N : α) :=
    div_le_div_of_nonneg_right (Nat.cast_le.2 h) (Nat.cast_nonneg N)
  linarith

theorem comb_ge (N : Nat) (u1 : α) (j : Nat) : u1 ≤ comb N u1 j := by
  unfold comb
  have : (0 : α) ≤ (j : α) / (N : α) := div_nonneg (Nat.cast_nonneg j) (Nat.cast_nonneg N)
  linarith

theorem comb_lt_one (N : Nat) (u1 : α) (j : Nat) (hj : j < N) (hu : u1 < 1 / (N : α)) : comb N u1 j < 1 := by
  unfold comb
  have hN : (0 : α) < (N : α) := by exact_mod_cast (by omega : 0 < N)
  have h1 : (j : α) + 1 ≤ (N : α) := by exact_mod_cast hj
  have : (j : α) / (N : α) ≤ ((N : α) - 1) / (N : α) :=
    div_le_div_of_nonneg_right (by linarith) hN.le
  have h2 : ((N : α) - 1) / (N : α) = 1 - 1 / (N : α) := by field_simp
  linarith

/-- everything below the pointer is below the comb point (induction over the comb points:
    this is where `u_{j} ≤ u_{j+1}` — the pointer never has to move back — is used) -/
theorem ptr_below (c : Nat → α) (N : Nat) (u1 : α) (j i : Nat) (h : i < ptr c N u1 j) :
    c i < comb N u1 j := by
  induction j with
  | zero =>
    simp only [ptr] at h
    exact advance_passed c N _ N 0 i (Nat.zero_le _) h
  | succ j ih =>
    by_cases hi : i < ptr c N u1 j
    · exact lt_of_lt_of_le (ih hi) (comb_mono N u1 (Nat.le_succ j))
    · simp only [ptr] at h
      exact advance_passed c N _ N _ i (by omega) h

/-- `sel_char`, clamped form: for *any* cumulative weights the parent of comb point `j` is the
    least index `i` with `u_j ≤ c i` **or** `i = N - 1` (the clamp of the `while`). -/
theorem ptr_isLeast_clamped (c : Nat → α) (N : Nat) (u1 : α) (j : Nat) :
    IsLeast {i | comb N u1 j ≤ c i ∨ i = N - 1} (ptr c N u1 j) := by
  constructor
  · rcases ptr_stop c N u1 j with h | h
    · exact Or.inl (not_lt.1 h)
    · exact Or.inr h
  · intro i hi
    by_contra hlt
    have hlt : i < ptr c N u1 j := not_le.1 hlt
    have h1 := ptr_below c N u1 j i hlt
    have h2 := ptr_le c N u1 j
    rcases hi with hi | hi
    · exact absurd h1 (not_lt.2 hi)
    · omega

/-- `sel_char`: when the last cumulative weight reaches the comb point, the clamp is not what
    stops the loop and the parent is the least index whose cumulative weight reaches `u_j`. -/
theorem ptr_isLeast (c : Nat → α) (N : Nat) (u1 : α) (j : Nat) (hlast : comb N u1 j ≤ c (N - 1)) :
    IsLeast {i | comb N u1 j ≤ c i} (ptr c N u1 j) := by
  constructor
  · rcases ptr_stop c N u1 j with h | h
    · exact not_lt.1 h
    · show comb N u1 j ≤ c (ptr c N u1 j); rw [h]; exact hlast
  · intro i hi
    exact (ptr_isLeast_clamped c N u1 j).2 (Or.inl hi)

/-- For non-decreasing cumulative weights: parent `j` is `i` iff `u_j ∈ (c (i-1), c i]`
    (`lo` is the cumulative weight before `i`: `0` for `i = 0`, which is below every comb point
    because `0 < u₁`). -/
theorem ptr_eq_iff (c : Nat → α) (N : Nat) (u1 : α) (j i : Nat) (lo : α)
    (hmono : ∀ a b, a ≤ b → b ≤ N - 1 → c a ≤ c b)
    (hlast : comb N u1 j ≤ c (N - 1)) (hi : i ≤ N - 1)
    (hlo0 : i = 0 → lo < comb N u1 j) (hlo : ∀ i', i = i' + 1 → lo = c i') :
    ptr c N u1 j = i ↔ lo < comb N u1 j ∧ comb N u1 j ≤ c i := by
  have hl := ptr_isLeast c N u1 j hlast
  constructor
  · rintro rfl
    refine ⟨?_, hl.1⟩
    cases hp : ptr c N u1 j with
    | zero => exact hlo0 hp
    | succ i' =>
      rw [hlo i' hp]
      exact ptr_below c N u1 j i' (by omega)
  · rintro ⟨h1, h2⟩
    have hle : ptr c N u1 j ≤ i := hl.2 h2
    by_contra hne
    have hlt : ptr c N u1 j < i := lt_of_le_of_ne hle hne
    obtain ⟨i', rfl⟩ : ∃ i', i = i' + 1 := ⟨i - 1, by omega⟩
    rw [hlo i' rfl] at h1
    have : c (ptr c N u1 j) ≤ c i' := hmono _ _ (by omega) (by omega)
    exact absurd (lt_of_le_of_lt (le_trans hl.1 this) h1) (lt_irrefl _)

end field

/-! ### Part 3: counting comb points in `(a, b]` -/
section count
variable {α : Type} [Field α] [LinearOrder α] [IsStrictOrderedRing α] [FloorRing α]
open Finset

/-- number of comb points `u_0 … u_{N-1}` in the half-open interval `(a, b]` -/
def cnt (N : ℕ) (u1 a b : α) : ℕ :=
  ((range N).filter (fun j => a < comb N u1 j ∧ comb N u1 j ≤ b)).card

theorem cnt_eq_floor (N : ℕ) (hN : 0 < N) (u1 a b : α) (hu0 : 0 < u1) (hu1 : u1 < 1 / N)
    (ha : 0 ≤ a) (hab : a ≤ b) (hb : b ≤ 1) :
    (cnt N u1 a b : ℤ) = ⌊N * (b - u1)⌋ - ⌊N * (a - u1)⌋ := by
  have hNr : (0 : α) < N := by exact_mod_cast hN
  have hNu : (N : α) * u1 < 1 := by
    have := mul_lt_mul_of_pos_left hu1 hNr
    rwa [mul_one_div_cancel hNr.ne'] at this
  have key : ∀ j : ℕ, (a < comb N u1 j ∧ comb N u1 j ≤ b) ↔ (N * (a - u1) < (j : α) ∧ (j : α) ≤ N * (b - u1)) := by
    intro j
    unfold comb
    constructor
    · rintro ⟨h1, h2⟩
      constructor
      · have : a - u1 < j / N := by linarith
        calc N * (a - u1) < N * ((j : α) / N) := mul_lt_mul_of_pos_left this hNr
          _ = j := by field_simp
      · have : (j : α) / N ≤ b - u1 := by linarith
        calc (j : α) = N * ((j : α) / N) := by field_simp
          _ ≤ N * (b - u1) := mul_le_mul_of_nonneg_left this hNr.le
    · rintro ⟨h1, h2⟩
      constructor
      · have : a - u1 < j / N := by rw [lt_div_iff₀ hNr]; linarith
        linarith
      · have : (j : α) / N ≤ b - u1 := by rw [div_le_iff₀ hNr]; linarith
        linarith
  have hα : (-1 : ℤ) ≤ ⌊N * (a - u1)⌋ := by
    rw [Int.le_floor]; push_cast; nlinarith
  have hβ : ⌊N * (b - u1)⌋ ≤ (N : ℤ) - 1 := by
    have : N * (b - u1) < N := by nlinarith
    have h2 : ⌊N * (b - u1)⌋ < (N : ℤ) := by rw [Int.floor_lt]; exact_mod_cast this
    omega
  have hαβ : ⌊N * (a - u1)⌋ ≤ ⌊N * (b - u1)⌋ := Int.floor_le_floor (by nlinarith)
  have himg : ((range N).filter (fun j => a < comb N u1 j ∧ comb N u1 j ≤ b)).image (fun j : ℕ => (j : ℤ))
      = Finset.Ioc ⌊N * (a - u1)⌋ ⌊N * (b - u1)⌋ := by
    ext z
    simp only [mem_image, mem_filter, mem_range, Finset.mem_Ioc]
    constructor
    · rintro ⟨j, ⟨_, hj⟩, rfl⟩
      rw [key] at hj
      exact ⟨by rw [Int.floor_lt]; exact_mod_cast hj.1, by rw [Int.le_floor]; exact_mod_cast hj.2⟩
    · rintro ⟨h1, h2⟩
      have hz0 : 0 ≤ z := by omega
      refine ⟨z.toNat, ⟨by omega, ?_⟩, by omega⟩
      rw [key]
      have hzc : ((z.toNat : ℕ) : α) = (z : α) := by
        have : ((z.toNat : ℕ) : ℤ) = z := Int.toNat_of_nonneg hz0
        exact_mod_cast congrArg (fun t : ℤ => (t : α)) this
      rw [hzc]
      exact ⟨by have := Int.floor_lt.1 h1; exact_mod_cast this, by have := Int.le_floor.1 h2; exact_mod_cast this⟩
  unfold cnt
  rw [← Finset.card_image_of_injective _ (Nat.cast_injective (R := ℤ)), himg, Int.card_Ioc]
  omega

theorem cnt_bound (N : ℕ) (hN : 0 < N) (u1 a b : α) (hu0 : 0 < u1) (hu1 : u1 < 1 / N)
    (ha : 0 ≤ a) (hab : a ≤ b) (hb : b ≤ 1) :
    |(cnt N u1 a b : α) - N * (b - a)| < 1 := by
  have h := cnt_eq_floor N hN u1 a b hu0 hu1 ha hab hb
  have h' : (cnt N u1 a b : α) = (⌊N * (b - u1)⌋ : α) - (⌊N * (a - u1)⌋ : α) := by
    exact_mod_cast congrArg (fun t : ℤ => (t : α)) h
  rw [h', abs_lt]
  have b1 := Int.floor_le (N * (b - u1)); have b2 := Int.lt_floor_add_one (N * (b - u1))
  have a1 := Int.floor_le (N * (a - u1)); have a2 := Int.lt_floor_add_one (N * (a - u1))
  constructor <;> nlinarith

theorem countP_range_eq_card (p : ℕ → Prop) [DecidablePred p] (N : ℕ) :
    (List.range N).countP (fun j => decide (p j)) = ((Finset.range N).filter p).card := by
  induction N with
  | zero => simp
  | succ n ih =>
    rw [List.range_succ, List.countP_append, ih, Finset.range_add_one, Finset.filter_insert]
    by_cases h : p n
    · simp [h]
    · simp [h]

end count

end BFL.PF
