import BFL.Proofs.QuatMean
/-
C18 — Quaternion utilities form a consistent exponential/logarithm pair on rotations.

Theorems about the model `quatExp`, `quatLog`, `quatSum`, `quatDiff`, `outerMean`, `quatMean`
(BFL/Model/Quat.lean) read over ℝ.  `cutoff = 1e-4` is the constant written in both conversions.

One clause of the property is false to the letter on a sliver of inputs: for
`2e-4 < ‖r‖ ≤ 2 arcsin(1e-4) = 2.0000000033…e-4` the exponential is regular but the logarithm's own
cut-off (`‖vec‖ = sin(‖r‖/2) ≤ 1e-4`) returns 0, so the round-trip error is `‖r‖`, up to 3.4e-13 above
the nominal bound 2e-4.  The full-strength statement is kept (`RoundTripWithin2e4`), with
`log_exp_error_partial`, the honest bound `log_exp_error` (`≤ 2 arcsin(1e-4) < 2.00000001e-4`) and
`log_exp_cutoff_sliver_counterexample` (witness `r = (2.000000001e-4, 0, 0)`).
-/
namespace BFL.Quat
open Real

/-! ## exponential, sum: unit quaternions; conventions -/

/-- the exponential of every rotation vector is a unit quaternion -/
theorem exp_unit (r : V3 ℝ) : (quatExp r).normSq = 1 := quatExp_normSq r

/-- adding a rotation vector to a unit quaternion yields a unit quaternion -/
theorem sum_unit (q : Q ℝ) (hq : q.normSq = 1) (r : V3 ℝ) : (quatSum q r).normSq = 1 := by
  unfold quatSum; rw [normSq_mul, quatExp_normSq, hq, mul_one]

/-- left (global-frame) convention of the sum: `(cos(‖r‖/2), sin(‖r‖/2) r/‖r‖) ⊗ q`, i.e. the
    quaternion `exp(r/2)` multiplies `q` on the left -/
theorem sum_left_convention (q : Q ℝ) (r : V3 ℝ) (h : cutoff < r.norm) :
    quatSum q r = (⟨Real.cos (r.norm / 2), Real.sin (r.norm / 2) * r.x / r.norm,
      Real.sin (r.norm / 2) * r.y / r.norm, Real.sin (r.norm / 2) * r.z / r.norm⟩ : Q ℝ).mul q := by
  unfold quatSum; rw [quatExp_regular r h]

/-- left convention of the difference: `2 log(q_l ⊗ q_r*)`: for a unit product with `w ≥ 0` the
    result is `2 acos(w) v/‖v‖` of `q_l ⊗ q_r*` -/
theorem diff_left_convention (ql qr : Q ℝ) (h : cutoff < (ql.mul qr.conj).vec.norm)
    (hw : 0 ≤ (ql.mul qr.conj).w) :
    quatDiff ql qr =
      ⟨2 * Real.arccos (ql.mul qr.conj).w * (ql.mul qr.conj).x / (ql.mul qr.conj).vec.norm,
       2 * Real.arccos (ql.mul qr.conj).w * (ql.mul qr.conj).y / (ql.mul qr.conj).vec.norm,
       2 * Real.arccos (ql.mul qr.conj).w * (ql.mul qr.conj).z / (ql.mul qr.conj).vec.norm⟩ := by
  unfold quatDiff; rw [quatLog_pos _ h hw]

/-- left and right multiplication differ (the convention is observable): a quarter turn about x added to
    a half turn about y -/
example : (⟨0, 1, 0, 0⟩ : Q ℝ).mul ⟨0, 0, 1, 0⟩ ≠ (⟨0, 0, 1, 0⟩ : Q ℝ).mul ⟨0, 1, 0, 0⟩ := by
  intro h
  have := congrArg Q.z h
  simp [Q.mul] at this
  linarith

/-! ## log ∘ exp -/

/-- exact inverse when both cut-offs are cleared -/
theorem log_exp_exact (r : V3 ℝ) (h1 : cutoff < r.norm) (h2 : r.norm < π)
    (h3 : cutoff < Real.sin (r.norm / 2)) : quatLog (quatExp r) = r := quatLog_quatExp r h1 h2 h3

/-- an explicit range on which both are cleared: `2.00000001e-4 ≤ ‖r‖ < π` -/
theorem log_exp_exact_range (r : V3 ℝ) (h1 : 2.00000001e-4 ≤ r.norm) (h2 : r.norm < π) :
    quatLog (quatExp r) = r := by
  have hc : cutoff < r.norm := by rw [cutoff_val]; linarith [show (1 / 10000 : ℝ) < 2.00000001e-4 by norm_num]
  refine quatLog_quatExp r hc h2 ?_
  by_contra hs
  have := small_of_sin_le (V3.norm_nonneg r) h2 (not_lt.mp hs)
  linarith [two_arcsin_cutoff_lt]

/-- round-trip error for every `‖r‖ < π`: at most `2 arcsin(1e-4)`, which is below `2.00000001e-4`
    (and above `2e-4`) -/
theorem log_exp_error (r : V3 ℝ) (h2 : r.norm < π) :
    ((quatLog (quatExp r)).sub r).norm ≤ 2 * Real.arcsin cutoff ∧
    2 * Real.arcsin cutoff < 2.00000001e-4 ∧ 2 * cutoff < 2 * Real.arcsin cutoff := by
  refine ⟨?_, two_arcsin_cutoff_lt, two_cutoff_lt_two_arcsin⟩
  by_cases h : cutoff < r.norm ∧ cutoff < Real.sin (r.norm / 2)
  · rw [quatLog_quatExp r h.1 h2 h.2, V3.sub_self_norm]
    linarith [two_cutoff_lt_two_arcsin, cutoff_pos]
  · obtain ⟨hz, hs⟩ := quatLog_quatExp_small r h2 h
    rw [hz, V3.zero_sub_norm]
    exact small_of_sin_le (V3.norm_nonneg r) h2 hs

/-- the property's clause to the letter: absolute error at most 2e-4 for every `‖r‖ < π` -/
def RoundTripWithin2e4 : Prop :=
  ∀ r : V3 ℝ, r.norm < π → ((quatLog (quatExp r)).sub r).norm ≤ 2e-4

/-- it holds for every `r` outside the sliver `2e-4 < ‖r‖`, `sin(‖r‖/2) ≤ 1e-4` -/
theorem log_exp_error_partial (r : V3 ℝ) (h2 : r.norm < π)
    (h : r.norm ≤ 2e-4 ∨ cutoff < Real.sin (r.norm / 2)) :
    ((quatLog (quatExp r)).sub r).norm ≤ 2e-4 := by
  by_cases hreg : cutoff < r.norm ∧ cutoff < Real.sin (r.norm / 2)
  · rw [quatLog_quatExp r hreg.1 h2 hreg.2, V3.sub_self_norm]; norm_num
  · obtain ⟨hz, hs⟩ := quatLog_quatExp_small r h2 hreg
    rw [hz, V3.zero_sub_norm]
    rcases h with h | h
    · exact h
    · exact absurd h (not_lt.mpr hs)

/-- … and fails inside it: `r = (2.000000001e-4, 0, 0)` -/
theorem log_exp_cutoff_sliver_counterexample : ¬ RoundTripWithin2e4 := by
  intro h
  have hπ : rSliver.norm < π := by rw [rSliver_norm]; linarith [Real.pi_gt_three, show (2.000000001e-4 : ℝ) < 3 by norm_num]
  have h1 := h rSliver hπ
  have hnot : ¬ (cutoff < rSliver.norm ∧ cutoff < Real.sin (rSliver.norm / 2)) :=
    fun hc => absurd hc.2 (not_lt.mpr rSliver_sin)
  obtain ⟨hz, _⟩ := quatLog_quatExp_small rSliver hπ hnot
  rw [hz, V3.zero_sub_norm, rSliver_norm] at h1
  norm_num at h1

/-- non-vacuity of `log_exp_exact`: a rotation vector of norm 1 clears both cut-offs -/
example : ∃ r : V3 ℝ, cutoff < r.norm ∧ r.norm < π ∧ cutoff < Real.sin (r.norm / 2) := by
  have hn : (⟨1, 0, 0⟩ : V3 ℝ).norm = 1 := by rw [V3.norm_def]; simp
  refine ⟨⟨1, 0, 0⟩, by rw [hn, cutoff_val]; norm_num, by rw [hn]; linarith [Real.pi_gt_three], ?_⟩
  rw [hn]
  have := Real.sin_gt_sub_cube (x := 1 / 2) (by norm_num)
  rw [cutoff_val]; linarith [show (1 / 10000 : ℝ) < 1 / 2 - (1 / 2) ^ 3 / 6 by norm_num]

end BFL.Quat
