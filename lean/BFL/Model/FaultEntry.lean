import BFL.Model.Fault
/-
C12 — the public entry points around the correction steps and the filter loop that calls them
(core Lean only, executable).

  GaussianCorrection::correct / PFCorrection::correct   `if (!skip_) correctStep(pred, corr); else corr = pred;`
  GPFCorrection::correctStep                            calls the wrapped Gaussian correction through its *public*
                                                        `correct` (own skip flag, which no filter command writes)
  SIS::filtering_step                                   predict (not at step 0) → freeze → correct + normalise | cor = pred
                                                        → log → resample;  repeated while `run_condition()`
-/
namespace BFL.Fault
variable {β γ : Type}

/-- `GaussianCorrection::correct(pred, corr)` and `PFCorrection::correct(pred, corr)`: the skip
    test, then `correctStep`.  Nothing is done to the output after `correctStep` returns. -/
def correctEntry (skip : Bool) (step : Script → β → β → R β) (s : Script) (pred cin : β) : R β :=
  if skip then ⟨pred, s, []⟩ else step s pred cin

/-- `GPFCorrection::correctStep` with the wrapped correction as the code reaches it:
    `gaussian_correction_->correct(pred_particles, corr_particles)`, whose skip flag is `wskip`. -/
def gpfCorrectW (wskip : Bool) (gauss : Script → β → β → R β) (sample : β → β) (lik : Script → R (Option γ))
    (weigh : β → β → γ → β) (s : Script) (pred cin : β) : R β :=
  gpfCorrect (correctEntry wskip gauss) sample lik weigh s pred cin

/-- One record per filtering step of `SIS`: the predicted set of the step and what the correction
    phase returned (`log()` is called at this point, before resampling). -/
structure SisStep (β : Type) where
  pred : β          -- `pred_particle_` of this step
  cin : β           -- content of `cor_particle_` when the correction phase starts
  script : Script   -- answers the models still hold when the step starts
  res : R β

/-- `SIS::filtering_step` repeated `n` times on one filter: `first` = this is step 0 (no
    prediction), `cor` = `cor_particle_` (for step 0: `pred_particle_` as initialised). -/
def sisRun (predict : β → β) (correct : Script → β → β → R β) (normalise resample : β → β) :
    Nat → Bool → Script → β → List (SisStep β)
  | 0, _, _, _ => []
  | n + 1, first, s, cor =>
    let pred := if first then cor else predict cor
    let r := sisCorrectPhase correct normalise s pred cor
    ⟨pred, cor, s, r⟩ :: sisRun predict correct normalise resample n false r.script (resample r.val)

end BFL.Fault
