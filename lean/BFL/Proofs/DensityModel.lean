import BFL.Model.Density
import BFL.Bridge.Mat
import BFL.Bridge.Det
import BFL.Proofs.Density
import Mathlib.Data.Real.Basic
/-
The executable density model (`BFL/Model/Density.lean`) in Mathlib's vocabulary: what each
transcribed line of `multivariate_gaussian_log_density(_UVR)` computes, over any field.
(Helper lemmas; the property theorems are in `BFL/Props/C15.lean`.)
-/
namespace BFL
open Matrix

variable {F : Type} [Field F]

/-- Contract of the inverse routine on one argument: it returns a right inverse (hence, for square
    matrices over a field, *the* inverse).  Certified exactly on every call of the exact execution. -/
def InvOK {n : Nat} (inv : InvFn F) (A : Mat F n n) : Prop := toM A * toM (inv n A) = 1

theorem InvOK.eq {n : Nat} {inv : InvFn F} {A : Mat F n n} (h : InvOK inv A) :
    toM (inv n A) = (toM A)⁻¹ := (Matrix.inv_eq_right_inv h).symm

theorem InvOK.isUnit {n : Nat} {inv : InvFn F} {A : Mat F n n} (h : InvOK inv A) : IsUnit (toM A) :=
  (Matrix.isUnit_iff_isUnit_det _).2 (Matrix.isUnit_det_of_right_inverse h)

/-- An inverse routine that is correct on every invertible matrix. -/
def InvCorrect (inv : InvFn ℝ) : Prop := ∀ (n : Nat) (A : Mat ℝ n n), IsUnit (toM A) → InvOK inv A

/-- Mathlib's inverse as an inverse routine (non-vacuity of the contract). -/
noncomputable def mathlibInv : InvFn F := fun _ A => Mat.of (fun i j => ((toM A)⁻¹) i j)

theorem mathlibInv_ok {n : Nat} (A : Mat F n n) (h : IsUnit (toM A)) : InvOK (mathlibInv (F := F)) A := by
  unfold InvOK
  have : toM (mathlibInv n A) = (toM A)⁻¹ := rfl
  rw [this, Matrix.mul_nonsing_inv _ ((Matrix.isUnit_iff_isUnit_det _).1 h)]

variable [Inhabited F]

/-- column `c` of `diff = input.colwise() - mean` -/
def dcol {d b : Nat} (x : Mat F d b) (m : Vec F d) (c : Fin b) : Fin d → F := fun i => x i c - m i

theorem toV_col_diff {d b : Nat} (x : Mat F d b) (m : Vec F d) (c : Fin b) :
    toV (Mat.col (Mat.eval (diffCols x m)) c) = dcol x m c := by
  ext i; simp [Mat.col, diffCols, dcol]

theorem quadForm_eq {d : Nat} {inv : InvFn F} {S : Mat F d d} (hinv : InvOK inv S) (v : Vec F d) :
    quadForm inv S v = toV v ⬝ᵥ ((toM S)⁻¹ *ᵥ toV v) := by
  unfold quadForm
  rw [dot_eq, toV_mulVec, toM_transpose, hinv.eq, Matrix.mulVec_transpose, ← Matrix.dotProduct_mulVec]

variable {nb bs : Nat}

omit [Inhabited F] in
theorem toM_full (R : RNoise F nb bs) : toM R.full = bdiag (fun i => toM (R.block i)) := by
  ext p q
  by_cases h : p.divNat = q.divNat <;> simp [RNoise.full, bdiag, bdiv_eq, bmod_eq, h]

theorem toM_assembleS {k : Nat} (U : Mat F (nb * bs) k) (V : Mat F k (nb * bs)) (R : RNoise F nb bs) :
    toM (assembleS U V R) = toM U * toM V + bdiag (fun i => toM (R.block i)) := by
  simp [assembleS, toM_full]

theorem toM_mulInvR {r : Nat} (A : Mat F r (nb * bs)) (Ri : Vec (Mat F bs bs) nb) :
    toM (mulInvR A Ri) = toM A * bdiag (fun i => toM (Ri i)) := by
  ext a p
  simp only [mulInvR, Mat.eval_eq, toM_apply, Mat.of_apply, Matrix.mul_apply, fsum_eq_sum]
  rw [sum_blocks]
  rw [Finset.sum_eq_single (bdiv p)]
  · refine Finset.sum_congr rfl (fun l _ => ?_)
    rw [← bidx_div_mod p]
    simp [bdiv_eq, bmod_eq, bidx_divNat, bidx_modNat]
  · intro i _ hi
    refine Finset.sum_eq_zero (fun l _ => ?_)
    have : ¬ (i = p.divNat) := fun h => hi (by rw [h, bdiv_eq])
    simp [bdiag, bidx_divNat, this]
  · intro h; exact absurd (Finset.mem_univ _) h

theorem invBlocks_spec {inv : InvFn F} (R : RNoise F nb bs) (h : ∀ i, InvOK inv (R.block i)) (i : Fin nb) :
    toM (R.block i) * toM ((R.invBlocks inv) i) = 1 := by
  have hi := h i
  unfold InvOK at hi
  cases R with
  | shared R0 => simpa [RNoise.invBlocks, RNoise.block] using hi
  | perBlock R0 => simpa [RNoise.invBlocks, RNoise.block] using hi

variable [DecidableEq F]

theorem RNoise_det_eq (R : RNoise F nb bs) : R.det = ∏ i, (toM (R.block i)).det := by
  cases R with
  | shared R0 => simp [RNoise.det, RNoise.block, natPow_eq, toM_detLU]
  | perBlock R0 =>
    simp only [RNoise.det, RNoise.block, Mat.eval_eq]
    rw [foldl_mul_eq_prod]
    exact Finset.prod_congr rfl (fun i _ => toM_detLU _ _)

omit [DecidableEq F] in
theorem toM_uvrM {k : Nat} {inv : InvFn F} (U : Mat F (nb * bs) k) (V : Mat F k (nb * bs)) (R : RNoise F nb bs)
    (hR : ∀ i, InvOK inv (R.block i)) :
    toM (uvrM inv U V R) = 1 + toM V * (toM R.full)⁻¹ * toM U := by
  have hinv : (toM R.full)⁻¹ = bdiag (fun i => toM ((R.invBlocks inv) i)) := by
    rw [toM_full]; exact DensityProofs.bdiag_inv _ _ (invBlocks_spec R hR)
  simp [uvrM, toM_mulInvR, hinv]

/-- What the Woodbury / determinant-lemma evaluation computes, under the contract of the inverse
    routine on the matrices it is applied to (the noise blocks and `I + V inv(R) U`): the
    determinant and the quadratic forms of the assembled `S = U V + R`. -/
theorem uvrAlg_spec {k b : Nat} {inv : InvFn F} (x : Mat F (nb * bs) b) (m : Vec F (nb * bs))
    (U : Mat F (nb * bs) k) (V : Mat F k (nb * bs)) (R : RNoise F nb bs)
    (hR : ∀ i, InvOK inv (R.block i)) (hM : InvOK inv (uvrM inv U V R)) :
    (uvrAlg inv x m U V R).detS = (toM (assembleS U V R)).det ∧
    (∀ c, (uvrAlg inv x m U V R).wd c
        = dcol x m c ⬝ᵥ ((toM (assembleS U V R))⁻¹ *ᵥ dcol x m c)) ∧
    IsUnit (toM R.full) ∧ IsUnit (1 + toM V * (toM R.full)⁻¹ * toM U) := by
  have hRf : IsUnit (toM R.full) := by
    rw [toM_full]; exact DensityProofs.bdiag_isUnit _ _ (invBlocks_spec R hR)
  have hinv : (toM R.full)⁻¹ = bdiag (fun i => toM ((R.invBlocks inv) i)) := by
    rw [toM_full]; exact DensityProofs.bdiag_inv _ _ (invBlocks_spec R hR)
  have hMeq := toM_uvrM U V R hR
  have hMu : IsUnit (1 + toM V * (toM R.full)⁻¹ * toM U) := by rw [← hMeq]; exact hM.isUnit
  have hS : toM (assembleS U V R) = toM U * toM V + toM R.full := by simp [assembleS]
  have hMdef : uvrM inv U V R = Mat.add Mat.one (Mat.mul (mulInvR V (R.invBlocks inv)) U) := rfl
  refine ⟨?_, ?_, hRf, hMu⟩
  · simp only [uvrAlg, Mat.eval_eq]
    rw [← hMdef, toM_detLU, hMeq, RNoise_det_eq, ← det_bdiag, ← toM_full, hS]
    exact DensityProofs.uvr_det _ _ _ hRf
  · intro c
    simp only [uvrAlg, Mat.eval_eq, Vec.eval_eq, Vec.of_apply]
    rw [← hMdef, dot_eq, toV_mulVec, toM_sub, toM_one, toM_mul, toM_mul, hM.eq, hMeq, toM_mulInvR, ← hinv,
      hS, ← DensityProofs.uvr_quad _ _ _ _ hRf hMu]
    congr 1
    · ext p
      simp only [toV_apply, Mat.row, Vec.of_apply, Matrix.vecMul, dotProduct]
      have := congrFun (congrFun (toM_mulInvR (Mat.transpose (diffCols x m)) (R.invBlocks inv)) c) p
      rw [← hinv] at this
      simp only [toM_apply] at this
      rw [this, Matrix.mul_apply]
      simp [diffCols, dcol]


end BFL
