import BFL.Proofs.ExtractList
import Mathlib.Analysis.SpecialFunctions.Complex.Arg
import Mathlib.Analysis.SpecialFunctions.Complex.Circle
import Mathlib.Analysis.SpecialFunctions.Trigonometric.Bounds
/-
The three base statistics (`mean`, `mode`, `map`) of the extraction model, read over ℝ.
-/
namespace BFL
namespace Extract
open Complex (I)

/-! ### mean -/

theorem meanEstE_length (lin circ : Nat) (cols : List (List ℝ)) (ex : List ℝ) :
    (meanEstE lin circ cols ex).length = lin + circ := by
  unfold meanEstE
  simp only [List.length_append]
  congr 1
  · split
    · simp
    · rename_i h; simp; omega
  · split
    · simp
    · rename_i h; simp; omega

theorem meanEstE_lin (lin circ : Nat) (cols : List (List ℝ)) (ex : List ℝ) (r : Nat) (hr : r < lin) :
    (meanEstE lin circ cols ex)[r]? = some (linMean (rowOf cols r) ex) := by
  unfold meanEstE
  rw [if_pos (by omega : lin > 0)]
  rw [List.getElem?_append_left (by simpa using hr)]
  simp [hr]

theorem meanEstE_circ (lin circ : Nat) (cols : List (List ℝ)) (ex : List ℝ) (r : Nat) (hr : r < circ) :
    (meanEstE lin circ cols ex)[lin + r]? = some (dirMean (rowOf cols (lin + r)) ex) := by
  unfold meanEstE
  have hlen : (if lin > 0 then (List.range lin).map
      (fun r => linMean (rowOf cols r) ex) else []).length = lin := by
    split
    · simp
    · rename_i h; simp; omega
  rw [List.getElem?_append_right (by rw [hlen]; omega), hlen, if_pos (by omega : circ > 0)]
  simp [hr]

theorem meanEst_eq (lin circ : Nat) (cols : List (List ℝ)) (ws : List ℝ) :
    meanEst lin circ cols ws = meanEstE lin circ cols (ws.map Real.exp) := rfl

theorem meanEst_length (lin circ : Nat) (cols : List (List ℝ)) (ws : List ℝ) :
    (meanEst lin circ cols ws).length = lin + circ := meanEstE_length _ _ _ _

theorem meanEst_lin (lin circ : Nat) (cols : List (List ℝ)) (ws : List ℝ) (r : Nat) (hr : r < lin) :
    (meanEst lin circ cols ws)[r]? = some (linMean (rowOf cols r) (ws.map Real.exp)) :=
  meanEstE_lin lin circ cols _ r hr

theorem meanEst_circ (lin circ : Nat) (cols : List (List ℝ)) (ws : List ℝ) (r : Nat) (hr : r < circ) :
    (meanEst lin circ cols ws)[lin + r]? = some (dirMean (rowOf cols (lin + r)) (ws.map Real.exp)) :=
  meanEstE_circ lin circ cols _ r hr

/-- a linear row of the mean is `Σ_j x_j · e^{w_j}` -/
theorem linMean_eq (cols : List (List ℝ)) (ws : List ℝ) (r : Nat) :
    linMean (rowOf cols r) (ws.map Real.exp)
      = (List.zipWith (fun p w => p.getD r 0 * Real.exp w) cols ws).sum := by
  unfold linMean rowOf
  rw [lsum_eq_sum, List.zipWith_map]

/-- the weighted resultant `Σ_k e_k · exp(i x_k)` of angles `xs` with weights `ex` -/
noncomputable def resultant (xs ex : List ℝ) : ℂ :=
  (List.zipWith (fun (x e : ℝ) => (e : ℂ) * Complex.exp (x * I)) xs ex).sum

theorem resultant_re_im (xs : List ℝ) : ∀ ex : List ℝ,
    (⟨(List.zipWith (fun x e => Real.cos x * e) xs ex).sum,
      (List.zipWith (fun x e => Real.sin x * e) xs ex).sum⟩ : ℂ) = resultant xs ex := by
  induction xs with
  | nil => intro ex; simp [resultant]; rfl
  | cons x xs ih =>
    intro ex
    cases ex with
    | nil => simp [resultant]; rfl
    | cons e es =>
      have h := ih es
      unfold resultant at h ⊢
      simp only [List.zipWith_cons_cons, List.sum_cons]
      rw [← h]
      apply Complex.ext
      · simp [Complex.exp_ofReal_mul_I_re]; ring
      · simp [Complex.exp_ofReal_mul_I_im]; ring

/-- circular rows with more (or fewer) than one column: the argument of the weighted resultant -/
theorem dirMean_eq_arg (xs ex : List ℝ) (h : xs.length ≠ 1) :
    dirMean xs ex = Complex.arg (resultant xs ex) := by
  unfold dirMean
  split
  · simp at h
  · simp only [transc_atan2, transc_sin, transc_cos, lsum_eq_sum]
    rw [resultant_re_im]

/-- the one-column branch: the column wrapped to `(−π, π]`, whatever the weight -/
theorem dirMean_single (x : ℝ) (ex : List ℝ) : dirMean [x] ex = Complex.arg (Complex.exp (x * I)) := by
  unfold dirMean
  simp only [transc_atan2, transc_sin, transc_cos]
  congr 1
  apply Complex.ext
  · simp [Complex.exp_ofReal_mul_I_re]
  · simp [Complex.exp_ofReal_mul_I_im]

theorem resultant_single (x e : ℝ) : resultant [x] [e] = (e : ℂ) * Complex.exp (x * I) := by
  simp [resultant]

/-- … which is the argument of the weighted resultant for every positive weight -/
theorem dirMean_single_eq_arg (x e : ℝ) (he : 0 < e) :
    dirMean [x] [e] = Complex.arg (resultant [x] [e]) := by
  rw [dirMean_single, resultant_single, Complex.arg_real_mul _ he]

/-- circular rows for any number of columns, positive weights, one weight per column -/
theorem dirMean_eq_arg_of_pos (xs ex : List ℝ) (hlen : xs.length = ex.length) (hpos : ∀ e ∈ ex, 0 < e) :
    dirMean xs ex = Complex.arg (resultant xs ex) := by
  by_cases h1 : xs.length = 1
  · obtain ⟨x, rfl⟩ := List.length_eq_one_iff.mp h1
    obtain ⟨e, rfl⟩ := List.length_eq_one_iff.mp (hlen ▸ h1 : ex.length = 1)
    exact dirMean_single_eq_arg x e (hpos e (by simp))
  · exact dirMean_eq_arg xs ex h1

/-- the value lies in `(−π, π]` -/
theorem arg_mem_Ioc (z : ℂ) : Complex.arg z ∈ Set.Ioc (-Real.pi) Real.pi :=
  ⟨Complex.neg_pi_lt_arg z, Complex.arg_le_pi z⟩

/-! ### mode -/

/-- `mode` returns the column at the first maximal log-weight -/
theorem modeEst_spec (cols : List (List ℝ)) (ws : List ℝ) (hne : ws ≠ []) :
    ∃ i, IsFirstMax ws i ∧ modeEst cols ws = cols.getD i [] :=
  ⟨argmaxFirst ws, argmaxFirst_spec ws hne, rfl⟩

/-! ### map -/

/-- the product form: `(lᵢ + ε) · Σ_j (t_{ij} + ε) · e^{w_j}` for every current particle `i` -/
noncomputable def mapProducts (eps : ℝ) (pw lik : List ℝ) (tp : List (List ℝ)) : List ℝ :=
  List.zipWith (fun l row => (l + eps) * (List.zipWith (fun t w => (t + eps) * Real.exp w) row pw).sum) lik tp

theorem zipWith_congr_mem {β γ δ : Type} (f g : β → γ → δ) (l₁ : List β) : ∀ (l₂ : List γ),
    (∀ a ∈ l₁, ∀ b, f a b = g a b) → List.zipWith f l₁ l₂ = List.zipWith g l₁ l₂ := by
  induction l₁ with
  | nil => intro l₂ _; simp
  | cons a as ih =>
    intro l₂ h
    cases l₂ with
    | nil => simp
    | cons b bs =>
      simp only [List.zipWith_cons_cons]
      rw [h a (by simp) b, ih bs (fun a' ha' b' => h a' (by simp [ha']) b')]

/-- one entry of `values`: `log(l + ε) + LSE_j(log(t_j + ε) + w_j) = log((l + ε) · Σ_j (t_j + ε) e^{w_j})`,
    all logarithms being taken of positive numbers -/
theorem mapValue_eq_log (eps : ℝ) (heps : 0 < eps) (l : ℝ) (hl : 0 ≤ l) (row pw : List ℝ)
    (hrow : row ≠ []) (hpw : pw ≠ []) (ht : ∀ t ∈ row, 0 ≤ t) :
    let S := (List.zipWith (fun t w => (t + eps) * Real.exp w) row pw).sum
    Real.log (l + eps) + logSumExp (List.zipWith (fun t w => Real.log (t + eps) + w) row pw)
      = Real.log ((l + eps) * S) ∧ 0 < l + eps ∧ 0 < S ∧ (∀ t ∈ row, 0 < t + eps) := by
  intro S
  have hZ : List.zipWith (fun t w => Real.log (t + eps) + w) row pw ≠ [] := by
    cases row with
    | nil => exact absurd rfl hrow
    | cons t ts =>
      cases pw with
      | nil => exact absurd rfl hpw
      | cons w ws => simp
  obtain ⟨hlse, hpos⟩ := logSumExp_eq _ hZ
  have hexp : (List.zipWith (fun t w => Real.log (t + eps) + w) row pw).map Real.exp
      = List.zipWith (fun t w => (t + eps) * Real.exp w) row pw := by
    rw [List.map_zipWith]
    apply zipWith_congr_mem
    intro t htm w
    have : 0 < t + eps := by have := ht t htm; linarith
    rw [Real.exp_add, Real.exp_log this]
  rw [hexp] at hlse hpos
  have hle : 0 < l + eps := by linarith
  refine ⟨?_, hle, hpos, fun t htm => by have := ht t htm; linarith⟩
  rw [hlse, Real.log_mul hle.ne' hpos.ne']

theorem mapValues_eq_log (eps : ℝ) (heps : 0 < eps) (pw : List ℝ) (hpw : pw ≠ []) (lik : List ℝ) :
    ∀ (tp : List (List ℝ)), (∀ l ∈ lik, 0 ≤ l) → (∀ row ∈ tp, row ≠ [] ∧ ∀ t ∈ row, 0 ≤ t) →
    mapValues eps pw lik tp = (mapProducts eps pw lik tp).map Real.log ∧
    ∀ g ∈ mapProducts eps pw lik tp, 0 < g := by
  induction lik with
  | nil => intro tp _ _; simp [mapValues, mapProducts]
  | cons l ls ih =>
    intro tp hl ht
    cases tp with
    | nil => simp [mapValues, mapProducts]
    | cons row rows =>
      obtain ⟨h1, h2⟩ := ih rows (fun l' hl' => hl l' (by simp [hl']))
        (fun r hr => ht r (by simp [hr]))
      obtain ⟨hv, hp1, hp2, _⟩ := mapValue_eq_log eps heps l (hl l (by simp)) row pw
        (ht row (by simp)).1 hpw (ht row (by simp)).2
      unfold mapValues mapProducts at *
      simp only [List.zipWith_cons_cons, List.map_cons, transc_log]
      simp only [transc_log] at h1
      refine ⟨?_, ?_⟩
      · rw [h1, hv]
      · intro g hg
        rcases List.mem_cons.mp hg with rfl | hg
        · exact mul_pos hp1 hp2
        · exact h2 g hg

/-- `map` returns the column at the first index maximising the product form -/
theorem mapEst_spec (eps : ℝ) (heps : 0 < eps) (cols : List (List ℝ)) (pw lik : List ℝ) (tp : List (List ℝ))
    (hpw : pw ≠ []) (hlik : lik ≠ []) (htp : tp ≠ [])
    (hl : ∀ l ∈ lik, 0 ≤ l) (ht : ∀ row ∈ tp, row ≠ [] ∧ ∀ t ∈ row, 0 ≤ t) :
    ∃ i, IsFirstMax (mapProducts eps pw lik tp) i ∧ mapEst eps cols pw lik tp = cols.getD i [] := by
  obtain ⟨hv, hpos⟩ := mapValues_eq_log eps heps pw hpw lik tp hl ht
  have hne : mapValues eps pw lik tp ≠ [] := by
    cases lik with
    | nil => exact absurd rfl hlik
    | cons l ls =>
      cases tp with
      | nil => exact absurd rfl htp
      | cons r rs => simp [mapValues]
  refine ⟨argmaxFirst (mapValues eps pw lik tp), ?_, rfl⟩
  have h := argmaxFirst_spec (mapValues eps pw lik tp) hne
  rw [hv] at h ⊢
  exact IsFirstMax.of_map Real.log (Set.Ioi 0) Real.strictMonoOn_log hpos h

/-- the `2.2·10⁻³⁰⁸` guard moves every product by at most `ε · (Σ_j t_j e^{w_j} + (l + ε) Σ_j e^{w_j})` -/
theorem map_guard_bound (eps l : ℝ) (row pw : List ℝ) (hlen : row.length = pw.length) :
    (l + eps) * (List.zipWith (fun t w => (t + eps) * Real.exp w) row pw).sum
      - l * (List.zipWith (fun t w => t * Real.exp w) row pw).sum
      = eps * ((List.zipWith (fun t w => t * Real.exp w) row pw).sum + (l + eps) * (pw.map Real.exp).sum) := by
  have hsplit : ∀ (row pw : List ℝ), row.length = pw.length →
      (List.zipWith (fun t w => (t + eps) * Real.exp w) row pw).sum
        = (List.zipWith (fun t w => t * Real.exp w) row pw).sum + eps * (pw.map Real.exp).sum := by
    intro row
    induction row with
    | nil => intro pw h; have : pw = [] := List.length_eq_zero_iff.mp h.symm; subst this; simp
    | cons t ts ih =>
      intro pw h
      cases pw with
      | nil => simp at h
      | cons w ws =>
        simp only [List.zipWith_cons_cons, List.sum_cons, List.map_cons]
        rw [ih ws (by simpa using h)]
        ring
  rw [hsplit row pw hlen]
  ring

end Extract
end BFL
