// Correspondence harness for C20: the real bfl::any::any (any.h; Data.h: `using Data = any::any`).
//
//   anyseq <n> <F|L> <op> <op> ...
//
// executes the operation sequence on a pool of n heap-allocated `any` objects (all destroyed at
// the start; destruction is an explicit operation) and prints, per operation: its result, the
// probe counters `c=<live instances>/<copy constructions>/<move constructions>`, and — after every
// operation (F) or after the last one (L) — the view of every slot:
//   D                                  destroyed
//   <has_value><type>:<p...>:<cp...>:<r...>
// (followed by :f<k> when k > 0 casts to types never stored in the pool succeeded — always a failure)
// with type in v(oid) i d s m p t, and per held type of the pool (i,d,s,m,p,t; t = probe with a throwing copy constructor) the outcome of
// `any_cast<T>(&a)` (p), `any_cast<T>(&const a)` (cp), `any_cast<const T&>(const a)` (r): the value
// code, or x for nullptr / bad_any_cast.  Then every container is destroyed and the final counters
// and the net number of `operator new` allocations of the whole sequence (`leak=`) are printed.
// Operation tokens: see lean/BFL/Driver/AnyBox.lean (`!op`: the throwing probe is armed; `~op` / `~~op`: the first /
// second call of `operator new` that any.h makes inside the operation throws std::bad_alloc).
//
// The mode token may carry a probe family member: `F:<id>` / `L:<id>` (e.g. `L:24x`).  The held types behind the
// tags p and t are then SP<N,NX,A,false> and SP<N,NX,A,true>: instance-counted probes of exactly N bytes (N = 1..64 at
// the boundaries of the holder size classes), alignment A, whose move constructor is noexcept (id suffix n) or not
// (suffix x), the t variant with a copy constructor that throws on demand.  any.h does not look at the size, the
// alignment or the exception specification of the held type, so the Lean model is the same for every member; an
// implementation that does (small-object buffer, trait-dependent relocation) is exercised on every class.
#include "common.hpp"
#include <BayesFilters/any.h>
#include <BayesFilters/Data.h>
#include <cmath>
#include <cstdlib>
#include <new>
#include <typeinfo>

// ---- every `new` / `delete` of the process is counted (holders, string buffers, the pool objects)
// While the harness is inside an expression of any.h (`g_window`) and a fuse is set, the (fuse+1)-th call of
// `operator new` throws std::bad_alloc (tokens `~op`, `~~op`).
static long g_live_allocs = 0;
static long g_new_fuse = -1;
static bool g_window = false;
void* operator new(std::size_t n) {
    if (g_window && g_new_fuse >= 0) { if (g_new_fuse == 0) { g_new_fuse = -1; throw std::bad_alloc(); } --g_new_fuse; }
    void* p = std::malloc(n ? n : 1); if (!p) throw std::bad_alloc(); ++g_live_allocs; return p;
}
void operator delete(void* p) noexcept { if (p) { --g_live_allocs; std::free(p); } }

using bfl::any::any;
using bfl::any::any_cast;
using bfl::any::bad_any_cast;
using vh::Toks;

static_assert(std::is_same<bfl::Data, bfl::any::any>::value, "Data is any::any");

// ---- instance-counting probe
struct Probe {
    static long live, copies, moves;
    long id;
    Probe() : id(-2) { ++live; }
    explicit Probe(long i) : id(i) { ++live; }
    Probe(const Probe& o) : id(o.id) { ++live; ++copies; }
    Probe(Probe&& o) noexcept : id(o.id) { o.id = -1; ++live; ++moves; }
    Probe& operator=(const Probe& o) { id = o.id; return *this; }
    ~Probe() { --live; }
};
long Probe::live = 0, Probe::copies = 0, Probe::moves = 0;

// ---- probe whose copy constructor throws on demand (armed by a leading `!` on an operation token):
// counted together with Probe; nothing is counted for a construction that throws (no object comes to life)
struct ThrowerError : std::runtime_error { ThrowerError() : std::runtime_error("thrower") {} };
struct Thrower {
    static long fuse;      // -1: disarmed; k >= 0: the (k+1)-th next copy construction throws
    long id;
    Thrower() : id(-2) { ++Probe::live; }
    explicit Thrower(long i) : id(i) { ++Probe::live; }
    Thrower(const Thrower& o) : id(o.id) {
        if (fuse == 0) { fuse = -1; throw ThrowerError(); }
        if (fuse > 0) --fuse;
        ++Probe::live; ++Probe::copies;
    }
    Thrower(Thrower&& o) noexcept : id(o.id) { o.id = -1; ++Probe::live; ++Probe::moves; }
    Thrower& operator=(const Thrower& o) noexcept { id = o.id; return *this; }
    ~Thrower() { --Probe::live; }
};
long Thrower::fuse = -1;

// ---- family of sized probes: exactly N bytes (alignment A), move constructor noexcept(NX), copy constructor
// throwing on demand (THROW).  The object stores a one-byte handle into a per-sequence table of codes and a
// byte pattern derived from the handle (a partial copy shows as `?pat`); handle 0 = moved-from (code -1).
static long g_codes[256];
static int g_ncodes = 2;                 // 0: moved-from, 1: default-constructed (-2)
static void reset_codes() { g_ncodes = 2; g_codes[0] = -1; g_codes[1] = -2; }
static unsigned char new_handle(long c) {
    if (c == -1) return 0;
    if (c == -2) return 1;
    if (g_ncodes >= 256) throw vh::BadArgs("too many sized probe values in one sequence");
    g_codes[g_ncodes] = c; return (unsigned char)g_ncodes++;
}
template <int N, bool NX, int A, bool THROW> struct SP {
    alignas(A) unsigned char b[N];
    void fill(unsigned char h) { for (int j = 0; j < N; ++j) b[j] = (unsigned char)(h + 37 * j); }
    SP() { fill(1); ++Probe::live; }
    explicit SP(long c) { fill(new_handle(c)); ++Probe::live; }
    SP(const SP& o) {
        if (THROW) { if (Thrower::fuse == 0) { Thrower::fuse = -1; throw ThrowerError(); } if (Thrower::fuse > 0) --Thrower::fuse; }
        for (int j = 0; j < N; ++j) b[j] = o.b[j];
        ++Probe::live; ++Probe::copies;
    }
    SP(SP&& o) noexcept(NX) { for (int j = 0; j < N; ++j) b[j] = o.b[j]; o.fill(0); ++Probe::live; ++Probe::moves; }
    SP& operator=(const SP& o) noexcept { for (int j = 0; j < N; ++j) b[j] = o.b[j]; return *this; }
    ~SP() { --Probe::live; }
    std::string code() const {
        for (int j = 1; j < N; ++j) if (b[j] != (unsigned char)(b[0] + 37 * j)) return "?pat";
        return b[0] < g_ncodes ? std::to_string(g_codes[b[0]]) : "?handle";
    }
};
static_assert(sizeof(SP<1, true, 1, false>) == 1 && sizeof(SP<17, false, 1, true>) == 17 && sizeof(SP<64, true, 1, false>) == 64, "sized probes have exactly N bytes");
static_assert(std::is_nothrow_move_constructible<SP<24, true, 1, false> >::value && !std::is_nothrow_move_constructible<SP<24, false, 1, false> >::value, "noexcept(NX)");
static_assert(alignof(SP<32, true, 16, false>) == 16, "over-aligned member");

// members of the family: X(id, N, NX, A)
#define SIZED_FAMILY(X) \
    X(1n, 1, true, 1) X(1x, 1, false, 1) X(4n, 4, true, 1) X(8n, 8, true, 1) X(8x, 8, false, 1) X(9n, 9, true, 1) \
    X(16n, 16, true, 1) X(16x, 16, false, 1) X(17n, 17, true, 1) X(17x, 17, false, 1) X(24n, 24, true, 1) X(24x, 24, false, 1) \
    X(25n, 25, true, 1) X(25x, 25, false, 1) X(32n, 32, true, 1) X(32x, 32, false, 1) X(33n, 33, true, 1) X(33x, 33, false, 1) \
    X(40n, 40, true, 1) X(48n, 48, true, 1) X(48x, 48, false, 1) X(56n, 56, true, 1) X(56x, 56, false, 1) X(57n, 57, true, 1) \
    X(64n, 64, true, 1) X(64x, 64, false, 1) X(a16n, 16, true, 16) X(a32x, 32, false, 16) X(w24n, 24, true, 8) X(w24x, 24, false, 8)

// ---- values of the held types named by an integer code
static const char* const kPrefix = "bfl-any-payload-long-enough-to-defeat-the-small-string-optimisation#";

template <class T> struct V;
template <> struct V<int> {
    static int mk(long c) { return (int)c; }
    static std::string code(const int& v) { return std::to_string(v); }
};
template <> struct V<double> {
    static double mk(long c) { return (double)c + 0.5; }
    static std::string code(const double& v) { double f = std::floor(v); return (v == f + 0.5 && std::fabs(f) < 1e15) ? std::to_string((long)f) : "?" + vh::hx(v); }
};
template <> struct V<std::string> {
    static std::string mk(long c) { return std::string(kPrefix) + std::to_string(c); }
    static std::string code(const std::string& v) {
        if (v.empty()) return "-1";
        std::string p(kPrefix);
        if (v.size() > p.size() && v.compare(0, p.size(), p) == 0) {
            std::string r = v.substr(p.size()); char* e = nullptr; long c = std::strtol(r.c_str(), &e, 10);
            if (*e == 0 && std::to_string(c) == r) return r;
        }
        return "?str";
    }
};
template <> struct V<Eigen::MatrixXd> {
    static Eigen::MatrixXd mk(long c) { Eigen::MatrixXd m(2, 2); m << (double)c, (double)c + 2, (double)c + 1, (double)c + 3; return m; }
    static std::string code(const Eigen::MatrixXd& v) {
        if (v.rows() == 0 && v.cols() == 0) return "-1";
        if (v.rows() == 2 && v.cols() == 2) {
            double c = v(0, 0);
            if (c == std::floor(c) && std::fabs(c) < 1e15 && v(1, 0) == c + 1 && v(0, 1) == c + 2 && v(1, 1) == c + 3) return std::to_string((long)c);
        }
        return "?mat" + std::to_string(v.rows()) + "x" + std::to_string(v.cols());
    }
};
template <> struct V<Probe> {
    static Probe mk(long c) { return Probe(c); }
    static std::string code(const Probe& v) { return std::to_string(v.id); }
};

template <> struct V<Thrower> {
    static Thrower mk(long c) { return Thrower(c); }
    static std::string code(const Thrower& v) { return std::to_string(v.id); }
};

template <int N, bool NX, int A, bool THROW> struct V<SP<N, NX, A, THROW> > {
    static SP<N, NX, A, THROW> mk(long c) { return SP<N, NX, A, THROW>(c); }
    static std::string code(const SP<N, NX, A, THROW>& v) { return v.code(); }
};

enum Cat { LREF, CLREF, RREF, CRREF };
static Cat cat_of(const std::string& s) {
    if (s == "l") return LREF; if (s == "c") return CLREF; if (s == "r") return RREF; if (s == "x") return CRREF;
    throw vh::BadArgs("cat");
}

static const int MAXN = 8;
static any* pool[MAXN];
static long g_n = 0;

static bool is_live(long k) { return k >= 0 && k < g_n && pool[k] != nullptr; }
static bool is_free(long k) { return k >= 0 && k < g_n && pool[k] == nullptr; }

// ---- a pool object: storage from `operator new` obtained before, the constructor of `any` run inside the window
// (what the new-expression `new any(args)` does, with the two steps separated so that only allocations made by any.h
// itself can be made to fail); destroyed with `delete`
struct AnyMem {
    void* mem;
    AnyMem() : mem(::operator new(sizeof(any))) { g_window = true; }
    any* done(any* p) { g_window = false; mem = nullptr; return p; }
    ~AnyMem() { g_window = false; if (mem) ::operator delete(mem); }
};
#define NEW_ANY(k, ...) do { AnyMem am_; pool[k] = am_.done(new (am_.mem) any(__VA_ARGS__)); } while (0)
#define IN_ANY_H(stmt) do { g_window = true; stmt; g_window = false; } while (0)

// ---- construction / assignment from a value, by argument category
template <class T> static std::string ctor_val(long k, Cat c, long code) {
    T v = V<T>::mk(code);
    switch (c) {
        case LREF: NEW_ANY(k, v); break;
        case CLREF: NEW_ANY(k, static_cast<const T&>(v)); break;
        case RREF: NEW_ANY(k, std::move(v)); break;
        case CRREF: NEW_ANY(k, static_cast<const T&&>(v)); break;
    }
    return "src=" + V<T>::code(v);
}
template <class T> static std::string asgn_val(long a, Cat c, long code) {
    T v = V<T>::mk(code);
    switch (c) {
        case LREF: IN_ANY_H(*pool[a] = v); break;
        case CLREF: IN_ANY_H(*pool[a] = static_cast<const T&>(v)); break;
        case RREF: IN_ANY_H(*pool[a] = std::move(v)); break;
        case CRREF: IN_ANY_H(*pool[a] = static_cast<const T&&>(v)); break;
    }
    return "src=" + V<T>::code(v);
}
template <class T> static std::string poke(long a, long code) {
    if (T* p = any_cast<T>(pool[a])) *p = V<T>::mk(code);
    return "ok";
}
// mutation through the reference form: any_cast<T&>(a) = v
template <class T> static std::string poke_ref(long a, long code) {
    try { any_cast<T&>(*pool[a]) = V<T>::mk(code); return "ok"; }
    catch (const bad_any_cast&) { return "r=x"; }
}
template <class T> static std::string cast_val(long a, char form) {
    try {
        switch (form) {
            case 'l': { g_window = true; T x = any_cast<T>(*pool[a]); g_window = false; return "r=" + V<T>::code(x); }
            case 'c': { g_window = true; T x = any_cast<T>(static_cast<const any&>(*pool[a])); g_window = false; return "r=" + V<T>::code(x); }
            case 'r': { g_window = true; T x = any_cast<T>(std::move(*pool[a])); g_window = false; return "r=" + V<T>::code(x); }
            case 'm': { g_window = true; T x = any_cast<T&&>(std::move(*pool[a])); g_window = false; return "r=" + V<T>::code(x); }
            default: throw vh::BadArgs("form");
        }
    } catch (const bad_any_cast& e) {
        g_window = false;
        const std::bad_cast& base = e; (void)base;      // bad_any_cast is a std::bad_cast; its what() text is not promised
        return "r=x";
    }
}
template <class T> static std::string cast_ptr(any* operand, bool cst) {
    if (cst) { const T* p = any_cast<T>(static_cast<const any*>(operand)); return p ? "r=" + V<T>::code(*p) : "r=x"; }
    T* p = any_cast<T>(operand); return p ? "r=" + V<T>::code(*p) : "r=x";
}

// view of one live slot
template <class T> static std::string vp(any& a) { T* p = any_cast<T>(&a); return p ? V<T>::code(*p) : "x"; }
template <class T> static std::string vcp(const any& a) { const T* p = any_cast<T>(&a); return p ? V<T>::code(*p) : "x"; }
template <class T> static std::string vr(const any& a) {
    try { const T& r = any_cast<const T&>(a); return V<T>::code(r); }
    catch (const bad_any_cast&) { return "x"; }
}
// casts to types that are never stored (same sizes / related types of the stored ones): how many succeed
struct Other8 { long x; };
template <class T> static int fp(any& a) {
    int n = 0;
    if (any_cast<T>(&a)) ++n;
    if (any_cast<T>(static_cast<const any*>(&a))) ++n;
    return n;
}
static int foreign_hits(any& a) {
    return fp<unsigned>(a) + fp<float>(a) + fp<long>(a) + fp<unsigned long>(a) + fp<char>(a) + fp<bool>(a) + fp<Other8>(a)
         + fp<const char*>(a) + fp<std::vector<double> >(a) + fp<Eigen::VectorXd>(a) + fp<Eigen::Matrix2d>(a) + fp<Eigen::MatrixXf>(a)
         + fp<Probe*>(a) + fp<std::string*>(a) + fp<any>(a) + fp<any*>(a)
         + fp<SP<5, true, 1, false> >(a) + fp<SP<23, false, 1, true> >(a) + fp<SP<8, true, 4, false> >(a);     // sized probes that are never stored
}
static int foreign_value_hits(const any& a) {
    int n = 0;
    try { (void)any_cast<long>(a); ++n; } catch (const bad_any_cast&) {}
    try { (void)any_cast<const Eigen::VectorXd&>(a); ++n; } catch (const bad_any_cast&) {}
    return n;
}
// ---- per held type: the operations of the harness as a table of functions, so that the probe types behind the
// tags p and t can be chosen per sequence without instantiating the interpreter once per type
struct TypeOps {
    const std::type_info* ti;
    std::string (*ctor_val)(long, Cat, long);
    std::string (*asgn_val)(long, Cat, long);
    std::string (*poke)(long, long);
    std::string (*poke_ref)(long, long);
    std::string (*cast_val)(long, char);
    std::string (*cast_ptr)(any*, bool);
    std::string (*vp)(any&);
    std::string (*vcp)(const any&);
    std::string (*vr)(const any&);
    int (*fp)(any&);
};
template <class T> static const TypeOps* ops_of() {
    static const TypeOps o = { &typeid(T), &ctor_val<T>, &asgn_val<T>, &poke<T>, &poke_ref<T>, &cast_val<T>, &cast_ptr<T>, &vp<T>, &vcp<T>, &vr<T>, &fp<T> };
    return &o;
}
static const TypeOps* g_ops[6];          // i d s m p t
static bool g_sized = false;
static const char kTagChars[] = "idsmpt";
static const TypeOps* ops_for(const std::string& tag) {
    if (tag.size() == 1) for (int j = 0; j < 6; ++j) if (tag[0] == kTagChars[j]) return g_ops[j];
    throw vh::BadArgs("tag");
}
static char type_char(const std::type_info& t) {
    if (t == typeid(void)) return 'v';
    for (int j = 0; j < 6; ++j) if (t == *g_ops[j]->ti) return kTagChars[j];
    return '?';
}
static std::string slot_view(long k) {
    if (!pool[k]) return "D";
    any& a = *pool[k];
    std::string s;
    s += a.has_value() ? '1' : '0';
    s += type_char(a.type());
    s += ':'; for (int j = 0; j < 6; ++j) { if (j) s += ','; s += g_ops[j]->vp(a); }
    s += ':'; for (int j = 0; j < 6; ++j) { if (j) s += ','; s += g_ops[j]->vcp(a); }
    s += ':'; for (int j = 0; j < 6; ++j) { if (j) s += ','; s += g_ops[j]->vr(a); }
    int fh = foreign_hits(a) + foreign_value_hits(a);
    if (g_sized) fh += fp<Probe>(a) + fp<Thrower>(a);      // the plain probes are foreign when a sized member is in use
    if (fh) s += ":f" + std::to_string(fh);      // a cast to a type that was never stored succeeded
    return s;
}
static std::string counters() {
    return "c=" + std::to_string(Probe::live) + "/" + std::to_string(Probe::copies) + "/" + std::to_string(Probe::moves);
}

static std::vector<std::string> split(const std::string& s) {
    std::vector<std::string> r; std::string cur;
    for (char ch : s) { if (ch == ':') { r.push_back(cur); cur.clear(); } else cur += ch; }
    r.push_back(cur); return r;
}
static long num(const std::string& s) { char* e = nullptr; long v = std::strtol(s.c_str(), &e, 10); if (s.empty() || *e) throw vh::BadArgs("num"); return v; }

static std::string exec_op(const std::string& tok) {
    std::vector<std::string> f = split(tok);
    const std::string& op = f[0];
    if (op == "df" && f.size() == 2) {
        long k = num(f[1]); if (!is_free(k)) return "inv";
        NEW_ANY(k, ); return "ok";
    }
    if (op == "ca" && f.size() == 4) {
        long k = num(f[1]), s = num(f[2]); Cat c = cat_of(f[3]);
        if (!is_free(k) || !is_live(s)) return "inv";
        switch (c) {
            case LREF: NEW_ANY(k, *pool[s]); break;
            case CLREF: NEW_ANY(k, static_cast<const any&>(*pool[s])); break;
            case RREF: NEW_ANY(k, std::move(*pool[s])); break;
            case CRREF: NEW_ANY(k, static_cast<const any&&>(*pool[s])); break;
        }
        return "ok";
    }
    if (op == "cv" && f.size() == 5) {
        long k = num(f[1]); Cat c = cat_of(f[2]); long code = num(f[4]);
        if (!is_free(k)) return "inv";
        return ops_for(f[3])->ctor_val(k, c, code);
    }
    if (op == "aa" && f.size() == 4) {
        long a = num(f[1]), b = num(f[2]); Cat c = cat_of(f[3]);
        if (!is_live(a) || !is_live(b)) return "inv";
        switch (c) {
            case LREF: IN_ANY_H(*pool[a] = *pool[b]); break;
            case CLREF: IN_ANY_H(*pool[a] = static_cast<const any&>(*pool[b])); break;
            case RREF: IN_ANY_H(*pool[a] = std::move(*pool[b])); break;
            case CRREF: IN_ANY_H(*pool[a] = static_cast<const any&&>(*pool[b])); break;
        }
        return "ok";
    }
    if (op == "av" && f.size() == 5) {
        long a = num(f[1]); Cat c = cat_of(f[2]); long code = num(f[4]);
        if (!is_live(a)) return "inv";
        return ops_for(f[3])->asgn_val(a, c, code);
    }
    if (op == "rs" && f.size() == 2) {
        long a = num(f[1]); if (!is_live(a)) return "inv";
        pool[a]->reset(); return "ok";
    }
    if (op == "sw" && f.size() == 4) {
        long a = num(f[1]), b = num(f[2]); long fr = num(f[3]);
        if (!is_live(a) || !is_live(b)) return "inv";
        if (fr) swap(*pool[a], *pool[b]); else pool[a]->swap(*pool[b]);
        return "ok";
    }
    if (op == "ds" && f.size() == 2) {
        long a = num(f[1]); if (!is_live(a)) return "inv";
        delete pool[a]; pool[a] = nullptr; return "ok";
    }
    if (op == "pk" && f.size() == 4) {
        long a = num(f[1]); long code = num(f[3]); if (!is_live(a)) return "inv";
        return ops_for(f[2])->poke(a, code);
    }
    if (op == "pr" && f.size() == 4) {
        long a = num(f[1]); long code = num(f[3]); if (!is_live(a)) return "inv";
        return ops_for(f[2])->poke_ref(a, code);
    }
    if (op == "vc" && f.size() == 4) {
        long a = num(f[1]); if (f[3].size() != 1) throw vh::BadArgs("form"); char form = f[3][0];
        if (!is_live(a)) return "inv";
        return ops_for(f[2])->cast_val(a, form);
    }
    if (op == "pc" && f.size() == 4) {
        bool cst = num(f[3]) != 0; any* operand = nullptr;
        if (f[1] != "n") { long a = num(f[1]); if (!is_live(a)) return "inv"; operand = pool[a]; }
        return ops_for(f[2])->cast_ptr(operand, cst);
    }
    throw vh::BadArgs("op");
}

static void destroy_all() {
    for (long k = 0; k < MAXN; ++k) if (pool[k]) { delete pool[k]; pool[k] = nullptr; }
}

static std::string anyseq_run(Toks& t, long n, bool full) {
    std::string out; out.reserve(4096);
    g_n = n;
    Probe::live = Probe::copies = Probe::moves = 0; Thrower::fuse = -1; reset_codes(); g_window = false; g_new_fuse = -1;
    const long n0 = g_live_allocs;
    try {
        bool first = true;
        while (!t.empty()) {
            std::string tok = t.tok();
            std::string r;
            g_window = false; g_new_fuse = -1;
            if (!tok.empty() && tok[0] == '~') {
                // the first (`~`) / second (`~~`) call of operator new made by any.h inside this operation throws std::bad_alloc
                std::size_t skip = (tok.size() > 1 && tok[1] == '~') ? 2 : 1;
                g_new_fuse = (long)skip - 1;
                try { r = exec_op(tok.substr(skip)); }
                catch (const std::bad_alloc&) { r = "threw"; }
                g_new_fuse = -1; g_window = false;
            } else if (!tok.empty() && tok[0] == '!') {
                // the copy constructor of the throwing probe is armed for this operation only
                Thrower::fuse = 0;
                try { r = exec_op(tok.substr(1)); }
                catch (const ThrowerError&) { r = "threw"; }
                Thrower::fuse = -1;
            } else r = exec_op(tok);
            if (!first) out += ' ';
            first = false;
            out += r; out += ' '; out += counters();
            if (full || t.empty()) for (long k = 0; k < n; ++k) { out += ' '; out += slot_view(k); }
        }
        destroy_all();
        if (!first) out += ' ';
        out += "END "; out += counters();
    } catch (...) { g_window = false; g_new_fuse = -1; destroy_all(); throw; }
    out += " leak=" + std::to_string(g_live_allocs - n0);
    return out;
}

static std::string anyseq(Toks& t) {
    long n = t.nat(); if (n > MAXN) throw vh::BadArgs("n");
    std::string mode = t.tok();
    if (mode.empty() || (mode[0] != 'F' && mode[0] != 'L')) throw vh::BadArgs("mode");
    bool full = mode[0] == 'F';
    g_ops[0] = ops_of<int>(); g_ops[1] = ops_of<double>(); g_ops[2] = ops_of<std::string>(); g_ops[3] = ops_of<Eigen::MatrixXd>();
    g_ops[4] = ops_of<Probe>(); g_ops[5] = ops_of<Thrower>(); g_sized = false;
    if (mode.size() > 1) {
        if (mode.size() < 3 || mode[1] != ':') throw vh::BadArgs("mode");
        std::string id = mode.substr(2);
        g_sized = true; g_ops[4] = nullptr;
#define X(ID, N, NX, A) if (id == #ID) { g_ops[4] = ops_of<SP<N, NX, A, false> >(); g_ops[5] = ops_of<SP<N, NX, A, true> >(); }
        SIZED_FAMILY(X)
#undef X
        if (!g_ops[4]) throw vh::BadArgs("probe family member");
    }
    return anyseq_run(t, n, full);
}

int main() {
    return vh::run([](const std::string& op, Toks& t, std::string& out) {
        if (op == "anyseq") { out = anyseq(t); return true; }
        return false;
    });
}
