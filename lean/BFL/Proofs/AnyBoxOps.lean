import BFL.Proofs.AnyBox
/-
C20 helper lemmas, part 2: the composite member functions (`operator=` ×3, `reset`) and the
client-level `step` preserve the invariant `Inv`; lifting to operation sequences.
-/
namespace BFL.AnyBox

theorem tmp_ne_named (k : Nat) : Obj.tmp ≠ Obj.named k := by intro h; cases h
theorem named_ne_tmp (k : Nat) : Obj.named k ≠ Obj.tmp := by intro h; cases h

/-! ### Ownership through the composite member functions -/

theorem own_assignCopy {s : St} (a b : Obj) (ht : content s .tmp = none) (h : Own s) :
    Own (assignCopy s a b) :=
  own_dtor _ (own_swap _ _ (own_ctorCopy b ht h))

theorem own_assignTemplateAny {s : St} (a b : Obj) (c : Cat) (ht : content s .tmp = none) (h : Own s) :
    Own (assignTemplateAny s a b c) :=
  own_dtor _ (own_swap _ _ (own_ctorFromAny b c ht h))

theorem own_assignMove {s : St} (a b : Nat) (ht : content s .tmp = none) (h : Own s) :
    Own (assignMove s (.named a) (.named b)) := by
  unfold assignMove
  split
  · exact h
  · refine own_dtor _ (own_swap _ _ (own_ctorDefault ?_ (own_swap _ _ h)))
    simp [tmp_ne_named, ht]

theorem own_assignFromAny {s : St} (a b : Nat) (c : Cat) (ht : content s .tmp = none) (h : Own s) :
    Own (assignFromAny s (.named a) (.named b) c) := by
  cases c <;> simp only [assignFromAny]
  · exact own_assignTemplateAny _ _ _ ht h
  · exact own_assignCopy _ _ ht h
  · exact own_assignMove _ _ ht h
  · exact own_assignTemplateAny _ _ _ ht h

theorem own_assignFromVal {s : St} (a : Obj) (v : Val) (c : Cat) (ht : content s .tmp = none) (h : Own s) :
    Own (assignFromVal s a v c) :=
  own_dtor _ (own_swap _ _ (own_ctorFromVal v c ht h))

theorem own_reset {s : St} (a : Obj) (ht : content s .tmp = none) (h : Own s) : Own (reset s a) :=
  own_dtor _ (own_swap _ _ (own_ctorDefault ht h))

/-! ### Liveness through the composite member functions: the temporary is gone, nothing else changes -/

theorem isLive_assignCopy (s : St) (a b : Nat) (x : Obj) (ha : isLive s (.named a) = true)
    (ht : isLive s .tmp = false) : isLive (assignCopy s (.named a) (.named b)) x = isLive s x := by
  simp only [assignCopy, isLive_dtor, isLive_swap, isLive_ctorCopy]
  grind

theorem isLive_assignTemplateAny (s : St) (a b : Nat) (c : Cat) (x : Obj) (ha : isLive s (.named a) = true)
    (hb : isLive s (.named b) = true) (ht : isLive s .tmp = false) :
    isLive (assignTemplateAny s (.named a) (.named b) c) x = isLive s x := by
  simp only [assignTemplateAny, isLive_dtor, isLive_swap, isLive_ctorFromAny _ _ _ _ _ hb]
  grind

theorem isLive_assignMove (s : St) (a b : Nat) (x : Obj) (ha : isLive s (.named a) = true)
    (hb : isLive s (.named b) = true) (ht : isLive s .tmp = false) :
    isLive (assignMove s (.named a) (.named b)) x = isLive s x := by
  unfold assignMove
  split
  · rfl
  · simp only [isLive_dtor, isLive_swap, isLive_ctorDefault]
    grind

theorem isLive_assignFromAny (s : St) (a b : Nat) (c : Cat) (x : Obj) (ha : isLive s (.named a) = true)
    (hb : isLive s (.named b) = true) (ht : isLive s .tmp = false) :
    isLive (assignFromAny s (.named a) (.named b) c) x = isLive s x := by
  cases c <;> simp only [assignFromAny]
  · exact isLive_assignTemplateAny s a b _ x ha hb ht
  · exact isLive_assignCopy s a b x ha ht
  · exact isLive_assignMove s a b x ha hb ht
  · exact isLive_assignTemplateAny s a b _ x ha hb ht

theorem isLive_assignFromVal (s : St) (a : Nat) (v : Val) (c : Cat) (x : Obj) (ha : isLive s (.named a) = true)
    (ht : isLive s .tmp = false) : isLive (assignFromVal s (.named a) v c) x = isLive s x := by
  simp only [assignFromVal, isLive_dtor, isLive_swap, isLive_ctorFromVal]
  grind

theorem isLive_reset (s : St) (a : Nat) (x : Obj) (ha : isLive s (.named a) = true)
    (ht : isLive s .tmp = false) : isLive (reset s (.named a)) x = isLive s x := by
  simp only [reset, isLive_dtor, isLive_swap, isLive_ctorDefault]
  grind

theorem isLive_poke (s : St) (o : Obj) (v : Val) (x : Obj) : isLive (poke s o v) x = isLive s x := by
  unfold poke; split <;> rfl

theorem isLive_castCopy (s : St) (o : Obj) (t : Tag) (x : Obj) :
    isLive (castCopy s o t).1 x = isLive s x := by
  unfold castCopy
  split
  · rfl
  · split <;> rfl

theorem isLive_castMoveOut (s : St) (o : Obj) (t : Tag) (x : Obj) :
    isLive (castMoveOut s o t).1 x = isLive s x := by
  unfold castMoveOut
  split
  · rfl
  · split <;> rfl

theorem isLive_castValue (s : St) (o : Obj) (t : Tag) (f : VForm) (x : Obj) :
    isLive (castValue s o t f).1 x = isLive s x := by
  cases f <;> simp only [castValue, isLive_castCopy, isLive_castMoveOut]

/-! ### `Inv` through `step` -/

theorem Inv.content_tmp {n : Nat} {s : St} (h : Inv n s) : content s .tmp = none :=
  content_of_not_live h.tmpDead

theorem Inv.lt_of_live {n : Nat} {s : St} (h : Inv n s) {k : Nat} (hk : liveN s k = true) : k < n := by
  by_cases hlt : k < n
  · exact hlt
  · have := h.bound k (Nat.le_of_not_lt hlt)
    simp [liveN] at hk; simp [hk] at this

theorem inv_same_live {n : Nat} {s s' : St} (hown : Own s') (hl : ∀ x, isLive s' x = isLive s x)
    (h : Inv n s) : Inv n s' :=
  ⟨hown, by rw [hl]; exact h.tmpDead, fun k hk => by rw [hl]; exact h.bound k hk⟩

theorem inv_ctor {n : Nat} {s s' : St} {k : Nat} (hown : Own s') (hk : k < n)
    (hl : ∀ x, isLive s' x = if x = .named k then true else isLive s x) (h : Inv n s) : Inv n s' := by
  refine ⟨hown, ?_, ?_⟩
  · rw [hl]; simp [tmp_ne_named, h.tmpDead]
  · intro j hj
    rw [hl]
    have : j ≠ k := fun e => by subst e; exact absurd hk (Nat.not_lt.2 hj)
    simp [this, h.bound j hj]

theorem inv_kill {n : Nat} {s s' : St} {a : Nat} (hown : Own s')
    (hl : ∀ x, isLive s' x = if x = .named a then false else isLive s x) (h : Inv n s) : Inv n s' := by
  refine ⟨hown, ?_, ?_⟩
  · rw [hl]; simp [tmp_ne_named, h.tmpDead]
  · intro j hj
    rw [hl]; simp [h.bound j hj]

theorem freeN_spec {n : Nat} {s : St} {k : Nat} (h : freeN n s k = true) :
    k < n ∧ isLive s (.named k) = false := by
  simpa [freeN, liveN] using h

theorem inv_init (n : Nat) : Inv n init :=
  ⟨own_init, rfl, fun _ _ => rfl⟩

theorem inv_step {n : Nat} {s : St} (op : Op) (h : Inv n s) : Inv n (step n s op).1 := by
  have ht := h.content_tmp
  have htl := h.tmpDead
  cases op with
  | dflt k =>
    simp only [step]; split
    · next hv =>
      obtain ⟨hk, hd⟩ := freeN_spec hv
      exact inv_ctor (own_ctorDefault (content_of_not_live hd) h.own) hk (fun x => by simp) h
    · exact h
  | ctorAny k src c =>
    simp only [step]; split
    · next hv =>
      simp only [Bool.and_eq_true] at hv
      obtain ⟨hk, hd⟩ := freeN_spec hv.1
      exact inv_ctor (own_ctorFromAny _ c (content_of_not_live hd) h.own) hk
        (fun x => isLive_ctorFromAny s _ _ x c hv.2) h
    · exact h
  | ctorVal k c v =>
    simp only [step]; split
    · next hv =>
      obtain ⟨hk, hd⟩ := freeN_spec hv
      exact inv_ctor (own_ctorFromVal v c (content_of_not_live hd) h.own) hk (fun x => by simp) h
    · exact h
  | asgnAny a b c =>
    simp only [step]; split
    · next hv =>
      simp only [Bool.and_eq_true] at hv
      exact inv_same_live (own_assignFromAny a b c ht h.own)
        (fun x => isLive_assignFromAny s a b c x hv.1 hv.2 htl) h
    · exact h
  | asgnVal a c v =>
    simp only [step]; split
    · next hv =>
      exact inv_same_live (own_assignFromVal _ v c ht h.own) (fun x => isLive_assignFromVal s a v c x hv htl) h
    · exact h
  | reset a =>
    simp only [step]; split
    · next hv => exact inv_same_live (own_reset _ ht h.own) (fun x => isLive_reset s a x hv htl) h
    · exact h
  | swap a b f =>
    simp only [step]; split
    · next hv =>
      simp only [Bool.and_eq_true] at hv
      refine inv_same_live (own_swap _ _ h.own) (fun x => ?_) h
      have h1 : isLive s (.named a) = true := hv.1
      have h2 : isLive s (.named b) = true := hv.2
      simp only [isLive_swap]; grind
    · exact h
  | destroy a =>
    simp only [step]; split
    · exact inv_kill (a := a) (own_dtor _ h.own) (fun x => by simp) h
    · exact h
  | poke a v =>
    simp only [step]; split
    · exact inv_same_live (own_poke _ v h.own) (fun x => isLive_poke s _ v x) h
    · exact h
  | pokeRef a v =>
    simp only [step]; split
    · rw [pokeRef_fst]; exact inv_same_live (own_poke _ v h.own) (fun x => isLive_poke s _ v x) h
    · exact h
  | castVal a t f =>
    simp only [step]; split
    · exact inv_same_live (own_castValue _ t f h.own) (fun x => isLive_castValue s _ t f x) h
    · exact h
  | castPtr a t c =>
    cases a with
    | none => simpa only [step] using h
    | some a => simp only [step]; split <;> exact h

theorem inv_run {n : Nat} (ops : List Op) {s : St} (h : Inv n s) : Inv n (run n s ops) := by
  induction ops generalizing s with
  | nil => exact h
  | cons op rest ih => exact ih (inv_step op h)

end BFL.AnyBox
