// Correspondence harness for C19: calls bfl::directional_statistics::{directional_add,
// directional_sub, directional_mean} of the library built from the current tree.
//
//   dadd  r c a(r x c, column-major) b(r)   -> "ok" matrix (column-major)
//   dsub  r c a b                            -> "ok" matrix
//   dmean r c a w(c)                         -> "ok" vector(r)
//
// Inputs are passed through Eigen::Ref exactly as the shipped callers do; the arguments are copied
// before the call and compared afterwards (the functions take const references).
#include "common.hpp"
#include <BayesFilters/directional_statistics.h>

using namespace Eigen;
using namespace bfl::directional_statistics;
using vh::Toks; using vh::Out;

static std::string shape_err(const char* what, long r, long c, long rr, long cc) {
    return std::string("shape:") + what + ":" + std::to_string(r) + "x" + std::to_string(c) + "!=" + std::to_string(rr) + "x" + std::to_string(cc);
}

static std::string dadd(Toks& t, bool sub) {
    long r = t.nat(), c = t.nat();
    MatrixXd a = t.mat(r, c);
    VectorXd b = t.vec(r);
    t.done();
    MatrixXd a0 = a; VectorXd b0 = b;
    MatrixXd res = sub ? directional_sub(a, b) : directional_add(a, b);
    if (res.rows() != r || res.cols() != c) return shape_err("result", res.rows(), res.cols(), r, c);
    if (!vh::same_bits(a0, a) || !vh::same_bits(b0, b)) return "input-modified";
    Out o; o.s("ok"); o.m(res);
    return o.str();
}

static std::string dmean(Toks& t) {
    long r = t.nat(), c = t.nat();
    MatrixXd a = t.mat(r, c);
    VectorXd w = t.vec(c);
    t.done();
    MatrixXd a0 = a; VectorXd w0 = w;
    VectorXd res = directional_mean(a, w);
    if (res.rows() != r || res.cols() != 1) return shape_err("result", res.rows(), res.cols(), r, 1);
    if (!vh::same_bits(a0, a) || !vh::same_bits(w0, w)) return "input-modified";
    Out o; o.s("ok"); o.m(res);
    return o.str();
}

// Variants "B": the arguments are blocks of larger matrices (Eigen::Ref with an outer stride), the result is
// assigned back over the argument (aliasing through the returned temporary); the frame around the block must stay untouched.
static std::string daddB(Toks& t, bool sub) {
    long r = t.nat(), c = t.nat();
    MatrixXd a = t.mat(r, c);
    VectorXd b = t.vec(r);
    t.done();
    MatrixXd big = MatrixXd::Constant(r + 3, c + 2, 777.25);
    VectorXd bb = VectorXd::Constant(r + 4, -555.5);
    big.block(2, 1, r, c) = a; bb.segment(3, r) = b;
    MatrixXd frame = big; frame.block(2, 1, r, c).setZero();
    if (sub) big.block(2, 1, r, c) = directional_sub(big.block(2, 1, r, c), bb.segment(3, r));
    else big.block(2, 1, r, c) = directional_add(big.block(2, 1, r, c), bb.segment(3, r));
    MatrixXd res = big.block(2, 1, r, c);
    big.block(2, 1, r, c).setZero();
    if (!vh::same_bits(frame, big) || !vh::same_bits(VectorXd(bb.segment(3, r)), b)) return "frame-modified";
    Out o; o.s("ok"); o.m(res);
    return o.str();
}

static std::string dmeanB(Toks& t) {
    long r = t.nat(), c = t.nat();
    MatrixXd a = t.mat(r, c);
    VectorXd w = t.vec(c);
    t.done();
    MatrixXd big = MatrixXd::Constant(r + 3, c + 2, 777.25);
    VectorXd ww = VectorXd::Constant(c + 4, -555.5);
    big.block(2, 1, r, c) = a; ww.segment(3, c) = w;
    MatrixXd big0 = big; VectorXd ww0 = ww;
    VectorXd res = directional_mean(big.block(2, 1, r, c), ww.segment(3, c));
    if (res.rows() != r) return shape_err("result", res.rows(), 1, r, 1);
    if (!vh::same_bits(big0, big) || !vh::same_bits(ww0, ww)) return "input-modified";
    Out o; o.s("ok"); o.m(res);
    return o.str();
}

int main() {
    return vh::run([](const std::string& op, Toks& t, std::string& out) {
        if (op == "dadd") { out = dadd(t, false); return true; }
        if (op == "dsub") { out = dadd(t, true); return true; }
        if (op == "dmean") { out = dmean(t); return true; }
        if (op == "daddB") { out = daddB(t, false); return true; }
        if (op == "dsubB") { out = daddB(t, true); return true; }
        if (op == "dmeanB") { out = dmeanB(t); return true; }
        return false;
    });
}
