import BFL.Proofs.RaceComplete
/-
C10 — the class-level abstraction is a necessary hypothesis.  `Conforms` requires the locks of a row to
be held on the *same object* as the accessed member.  If they may be held on any object
(`ConformsAny`), a disciplined member can race: two threads each hold "the" mutex — of two other
objects — while touching the member of a third.
-/
namespace BFL.Race

theorem conformsAny_of_conforms {T : Table} {tr : List Ev} (h : Conforms T tr) : ConformsAny T tr := by
  intro pre e post htr
  have hj := h pre e post htr
  cases e with
  | lock _ _ => trivial
  | unlock _ _ => trivial
  | acc t l w s =>
    obtain ⟨o, f⟩ := l
    obtain ⟨r, hr, hreach, hf, hw, hs, hl⟩ := hj
    exact ⟨r, hr, hreach, hf, hw, hs, fun hself => ⟨o, hl hself⟩⟩

theorem conformsAny_nil (T : Table) : ConformsAny T [] := by
  intro pre e post h; simp at h

theorem conformsAny_snoc {T : Table} {tr : List Ev} {e : Ev} (hc : ConformsAny T tr) (hj : JustifiedAny T tr e) :
    ConformsAny T (tr ++ [e]) := by
  intro pre e' post h
  rcases List.eq_nil_or_concat post with hp | ⟨post', z, hp⟩
  · subst hp
    have h2 := List.append_inj' h rfl
    have h3 : e = e' := by simpa using h2.2
    rw [← h2.1, ← h3]; exact hj
  · subst hp
    have : tr ++ [e] = (pre ++ e' :: post') ++ [z] := by
      simpa [List.concat_eq_append, List.append_assoc] using h
    have h2 := List.append_inj' this rfl
    exact hc pre e' post' h2.1

/-- one member written by `run()` and read by `filtering_recursion()`, both under the mutex member -/
def guardedTable : Table :=
  { fields := [⟨name% "FilteringAlgorithm", name% "guarded_", .plain⟩, ⟨name% "FilteringAlgorithm", name% "mtx_", .mutex⟩],
    methods := [⟨name% "FilteringAlgorithm::run", 0, false, true⟩, ⟨name% "FilteringAlgorithm::filtering_recursion", 0, false, true⟩],
    accesses := [⟨0, 0, .write, true, [1], 10⟩, ⟨1, 0, .read, true, [1], 20⟩],
    calls := [] }

/-- the controller holds the mutex of object 1, the filtering thread the mutex of object 2, both access
    the member of object 0 -/
def crossObjectTrace : List Ev :=
  [.lock .controller (1, 1), .lock .filter (2, 1), .acc .controller (0, 0) true false, .acc .filter (0, 0) false false]

/-- **The same-object hypothesis is necessary**: the member is disciplined, the interleaving is well
    formed and every access holds "its" mutex — on another object — and yet the member races. -/
theorem same_object_necessary :
    FieldOK guardedTable 0 ∧ WF crossObjectTrace ∧ ConformsAny guardedTable crossObjectTrace ∧
      RaceOnField 0 crossObjectTrace := by
  have cC : ReachCert guardedTable .controller (guardedTable.reach .controller) := ⟨rfl, by decide, by decide⟩
  have cF : ReachCert guardedTable .filter (guardedTable.reach .filter) := ⟨rfl, by decide, by decide⟩
  have rC : Reach guardedTable (guardedTable.rootIds .controller) 0 := Reach.root (by decide)
  have rF : Reach guardedTable (guardedTable.rootIds .filter) 1 := Reach.root (by decide)
  refine ⟨(fieldOK_iff_of_cert cC cF 0).1 (by decide), ?_, ?_, ?_⟩
  · have h0 : WF [] := WF.nil
    have h1 := WF.snoc h0 (e := .lock .controller (1, 1)) (by simp [okEv, holders])
    have h2 := WF.snoc h1 (e := .lock .filter (2, 1)) (by simp [okEv, holders, applyEv])
    have h3 := WF.snoc h2 (e := .acc .controller (0, 0) true false) trivial
    exact WF.snoc h3 (e := .acc .filter (0, 0) false false) trivial
  · have h0 := conformsAny_nil guardedTable
    have h1 := conformsAny_snoc h0 (e := .lock .controller (1, 1)) trivial
    have h2 := conformsAny_snoc h1 (e := .lock .filter (2, 1)) trivial
    have h3 := conformsAny_snoc h2 (e := .acc .controller (0, 0) true false)
      ⟨⟨0, 0, .write, true, [1], 10⟩, by simp [guardedTable], rC, rfl, rfl, rfl, fun _ => ⟨1, by simp [held, applyHeld]⟩⟩
    exact conformsAny_snoc h3 (e := .acc .filter (0, 0) false false)
      ⟨⟨1, 0, .read, true, [1], 20⟩, by simp [guardedTable], rF, rfl, rfl, rfl, fun _ => ⟨2, by simp [held, applyHeld]⟩⟩
  · exact ⟨0, [.lock .controller (1, 1), .lock .filter (2, 1)], .acc .controller (0, 0) true false,
      .acc .filter (0, 0) false false, [], rfl, ⟨by decide, rfl, Or.inl rfl, by simp⟩, rfl⟩

/-- and with the same-object reading the same table is race free (`lockset_sound`) -/
theorem guarded_race_free {tr : List Ev} (hwf : WF tr) (hc : Conforms guardedTable tr) : ¬ RaceOnField 0 tr := by
  have cC : ReachCert guardedTable .controller (guardedTable.reach .controller) := ⟨rfl, by decide, by decide⟩
  have cF : ReachCert guardedTable .filter (guardedTable.reach .filter) := ⟨rfl, by decide, by decide⟩
  exact lockset_sound guardedTable 0 ((fieldOK_iff_of_cert cC cF 0).1 (by decide)) hwf hc

end BFL.Race
